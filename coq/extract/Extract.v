(* Extraction of the request dispatcher.  ExtrOcamlBasic only: bool, option, unit, list, prod,
   sumbool, sumor map to OCaml's; ascii, nat, N, Z, positive stay Coq inductives. *)
From Coq Require Extraction ExtrOcamlBasic.
From DT Require Import AllRun.
Extraction Language OCaml.
Extraction "model.ml" handle_all.
