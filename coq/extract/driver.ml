(* Line protocol driver: moves characters in and out of the extracted [handle_all]; no logic. *)
let ascii_of_char c =
  let n = Char.code c in
  let b i = n land (1 lsl i) <> 0 in
  Model.Ascii (b 0, b 1, b 2, b 3, b 4, b 5, b 6, b 7)

let char_of_ascii (Model.Ascii (b0, b1, b2, b3, b4, b5, b6, b7)) =
  let v b i = if b then 1 lsl i else 0 in
  Char.chr (v b0 0 + v b1 1 + v b2 2 + v b3 3 + v b4 4 + v b5 5 + v b6 6 + v b7 7)

let () =
  let buf = Buffer.create 4096 in
  try
    while true do
      let line = input_line stdin in
      let l = List.rev (String.fold_left (fun acc c -> ascii_of_char c :: acc) [] line) in
      let out = Model.handle_all l in
      Buffer.clear buf;
      List.iter (fun a -> Buffer.add_char buf (char_of_ascii a)) out;
      print_string (Buffer.contents buf);
      print_newline ()
    done
  with End_of_file -> ()
