(* C07Spec: the statement of property C07 (parsing source code is faithful to Python's own view of it)
   over ParseSig.parse_function and PySem-style py_signature, the boolean guard of its proved region and
   the finding classes that make up the guard's complement.  Definitions only (executable: the harness
   evaluates them through the driver, on the model's and on the implementation's outputs). *)
From Coq Require Import List Ascii Bool Arith ZArith Permutation.
From Coq Require String.
Import String.StringSyntax.
From DT Require Import PyStr Sexp PyVal TyExpr PureUtils Defaults PyAst IR Merge ParseSig C12Spec.
Import ListNotations.

(* ---------------- the subset of definitions ---------------- *)
Definition fd_arguments (fd : stmt) : option arguments :=
  match fd with SFunc _ a _ _ _ => Some a | _ => None end.

Definition fd_body (fd : stmt) : list stmt :=
  match fd with SFunc _ _ b _ _ => b | _ => [] end.

(* positional parameters after dropping a leading self / cls (what parse.function keeps) *)
Definition pos_args (a : arguments) : list arg :=
  if str_eqb (get_function_type a) (L "static") then ar_args a else tl (ar_args a).

(* S: names of positional-or-keyword (minus self/cls) and keyword-only parameters, in source order *)
Definition sig_pos_names (a : arguments) : list str :=
  map a_name (pos_args a) ++ map a_name (ar_kwonly a).

Definition kwarg_name (a : arguments) : option str := option_map a_name (ar_kwarg a).

Definition opt_list {A} (o : option A) : list A := match o with Some x => [x] | None => [] end.

(* an identifier never starts with a star *)
Definition name_ok (n : str) : bool :=
  match n with [] => false | c :: _ => negb (ascii_eqb c (ch 42)) end.

(* supported subset: no *args, positional defaults fit, keyword-only defaults aligned (as ast.parse
   produces them), all parameter names distinct (CPython rejects duplicates) *)
Definition wf_fd (fd : stmt) : bool :=
  match fd with
  | SFunc _ a _ _ _ =>
    (match ar_vararg a with None => true | Some _ => false end)
    && Nat.leb (List.length (ar_defaults a)) (List.length (ar_args a))
    && Nat.eqb (List.length (ar_kwonly a)) (List.length (ar_kw_defaults a))
    && strs_distinct (map a_name (ar_args a) ++ map a_name (ar_kwonly a) ++ opt_list (kwarg_name a))
    && forallb name_ok (map a_name (ar_args a) ++ map a_name (ar_kwonly a) ++ opt_list (kwarg_name a))
    && forallb (fun x => match a_ann x with
                         | Some e => match rstrip_chars [nl] (show_expr e) with [] => false | _ :: _ => true end
                         | None => true
                         end) (ar_args a ++ ar_kwonly a)          (* an annotation has a non-empty text *)
  | _ => false
  end.

(* names Python itself sees, minus self/cls *)
Definition sig_names (fd : stmt) : list str :=
  match py_signature fd with Some l => map s_name l | None => [] end.

(* ---------------- the docstring side ---------------- *)
(* the docstring-derived parameter map parse.function starts from *)
Definition doc_params (d : option ir) (fd : stmt) : list (str * gparam) :=
  match docstring_of (fd_body fd), d with
  | Some _, Some i => ir_params i
  | _, _ => []
  end.

Definition doc_names (d : option ir) (fd : stmt) : list str := od_keys (doc_params d fd).

(* a dict has unique keys; the docstring documents all, some or none of THE parameters *)
Definition wf_doc (d : option ir) (fd : stmt) : bool :=
  match fd_arguments fd with
  | Some a =>
    strs_distinct (doc_names d fd)
    && forallb (fun k => mem_str k (sig_pos_names a ++ opt_list (kwarg_name a))) (doc_names d fd)
    && (match docstring_of (fd_body fd), d with Some _, None => false | _, _ => true end)
    && forallb (fun kv => match g_default (snd kv) with Some (DV _) => true | None => true | _ => false end)
               (doc_params d fd)
  | None => false
  end.

Definition C07_domain (d : option ir) (fd : stmt) : bool := wf_fd fd && wf_doc d fd.

(* documented names other than the ** parameter, in docstring order *)
Definition doc_pos_names (d : option ir) (a : arguments) (fd : stmt) : list str :=
  match kwarg_name a with
  | Some k => filter (fun x => negb (str_eqb k x)) (doc_names d fd)
  | None => doc_names d fd
  end.

Definition kwarg_documented (d : option ir) (a : arguments) (fd : stmt) : bool :=
  match kwarg_name a with Some k => mem_str k (doc_names d fd) | None => false end.

(* the order parse.function produces (after fix cc5b15e): the signature's positional and keyword-only
   names in source order, then documented names that are no parameter at all (none inside the domain),
   then a documented ** parameter *)
Definition expected_names (d : option ir) (fd : stmt) : list str :=
  match fd_arguments fd with
  | Some a =>
    sig_pos_names a
    ++ filter (fun k => negb (mem_str k (sig_pos_names a))) (doc_pos_names d a fd)
    ++ (if kwarg_documented d a fd then opt_list (kwarg_name a) else [])
  | None => []
  end.

Fixpoint is_prefix (p l : list str) : bool :=
  match p, l with
  | [], _ => true
  | x :: p', y :: l' => str_eqb x y && is_prefix p' l'
  | _ :: _, [] => false
  end.

(* THE exact condition for "names and relative order are those of the source": a ** parameter, if any,
   is documented (an undocumented one is dropped) *)
Definition order_guard (d : option ir) (fd : stmt) : bool :=
  match fd_arguments fd with
  | Some a => match kwarg_name a with Some _ => kwarg_documented d a fd | None => true end
  | None => false
  end.

(* ---------------- per-parameter content ---------------- *)
Definition norm_doc (s : str) : str := rstrip (join [sp] (map strip (split [nl] s))).

Definition code_quote (e : expr) : str := bt3 ++ paren_wrap_code (rstrip_chars [nl] (show_expr e)) ++ bt3.

(* how a signature default appears in the IR: constants by value (None as NoneStr), other literals by
   value, anything else as back-tick quoted source *)
Definition expected_sig_default (e : expr) : option dval :=
  match e with
  | EConst v => Some (DV (none_to_NoneStr v))
  | _ => match lit_eval e with
         | Ok lv => Some (dval_of_lval lv)
         | Err ValueError => Some (DV (VStr (code_quote e)))
         | Err _ => None
         end
  end.

(* a documented default after _infer_default's normalisation *)
Definition norm_doc_default (dv : dval) : dval :=
  match dv with
  | DV (VStr s) => DV (VStr (unquote s))
  | x => x
  end.

(* "Optional[...]" wrapper that _set_name_and_type derives from the prose *)
Definition prose_says_optional (doc : fld str) : bool :=
  match doc with
  | Has (c :: r) => let s := norm_doc (c :: r) in startswith (L "(Optional)") s || startswith (L "Optional") s
  | _ => false
  end.

Definition typ_after_prose (doc : fld str) (t : str) : str :=
  let t1 := if endswith google_opt t
            then L "Optional[" ++ firstn (List.length t - List.length google_opt) t ++ L "]" else t in
  if prose_says_optional doc && negb (startswith (L "Optional[") t1) then L "Optional[" ++ t1 ++ L "]" else t1.

Definition sig_param_of (fd : stmt) (name : str) : option sigparam :=
  match py_signature fd with
  | Some l => List.find (fun p => str_eqb (s_name p) name) l
  | None => None
  end.

Definition doc_default_given (dp : option gparam) : option dval :=
  match dp with
  | Some p => if default_in_none_types (g_default p) then None else g_default p
  | None => None
  end.

Definition doc_typ_given (dp : option gparam) : option str :=
  match dp with Some p => (match g_typ p with Has t => Some t | _ => None end) | None => None end.

Definition doc_prose (dp : option gparam) : fld str :=
  match dp with Some p => (if fld_truthy (g_doc p) then g_doc p else Missing) | None => Missing end.

Definition fld_str_eqb (a b : fld str) : bool :=
  match a, b with
  | Missing, Missing => true | FNone, FNone => true | Has x, Has y => str_eqb x y | _, _ => false
  end.

Definition opt_dval_eqb (a b : option dval) : bool :=
  match a, b with None, None => true | Some x, Some y => dval_eqb x y | _, _ => false end.

(* the property for one positional-or-keyword / keyword-only parameter:
   prose attached to the parameter it names; documented default and type win; the signature fills gaps *)
Definition param_faithful (dp : option gparam) (sp : sigparam) (rp : gparam) : bool :=
  (* prose *)
  fld_str_eqb (g_doc rp) (match doc_prose dp with Has s => Has (norm_doc s) | x => x end)
  (* default *)
  && (match doc_default_given dp, s_default sp with
      | Some dv, _ => opt_dval_eqb (g_default rp) (Some (norm_doc_default dv))
      | None, Some e => match expected_sig_default e with
                        | Some x => opt_dval_eqb (g_default rp) (Some x)
                        | None => false
                        end
      | None, None => match g_default rp with
                      | None => true
                      | Some x => dval_is_NoneStr x     (* an explicit documented None *)
                      end
      end)
  (* type *)
  && (match doc_typ_given dp, s_ann sp with
      | Some t, _ => fld_str_eqb (g_typ rp) (Has (typ_after_prose (doc_prose dp) t))
      | None, Some a => fld_str_eqb (g_typ rp) (Has (typ_after_prose (doc_prose dp) (rstrip_chars [nl] (show_expr a))))
      | None, None => true
      end).

(* the ** parameter: prose attached, the documented convention Optional[dict] / NoneStr *)
Definition kwarg_faithful (dp : option gparam) (rp : gparam) : bool :=
  fld_str_eqb (g_doc rp) (match doc_prose dp with Has s => Has (norm_doc s) | x => x end)
  && opt_dval_eqb (g_default rp) (Some (DV (VStr NoneStr))).

Definition result_param_ok (d : option ir) (fd : stmt) (kv : str * gparam) : bool :=
  match sig_param_of fd (fst kv) with
  | Some sp =>
    match s_kind sp with
    | VarKw => kwarg_faithful (od_get (fst kv) (doc_params d fd)) (snd kv)
    | _ => param_faithful (od_get (fst kv) (doc_params d fd)) sp (snd kv)
    end
  | None => false
  end.

(* the whole property on a result IR: exactly the signature's names, once, in source order; every
   parameter faithful *)
Definition C07_check (d : option ir) (fd : stmt) (r : ir) : bool :=
  list_eqb str_eqb (od_keys (ir_params r)) (sig_names fd)
  && forallb (result_param_ok d fd) (ir_params r).

Definition C07_names_check (fd : stmt) (r : ir) : bool :=
  list_eqb str_eqb (od_keys (ir_params r)) (sig_names fd).

Definition parse_default (pi pj : perm) (d : option ir) (fd : stmt) : outcome ir :=
  parse_function pi pj d fd false true None None.

Definition C07_at (pi pj : perm) (d : option ir) (fd : stmt) : Prop :=
  exists r, parse_default pi pj d fd = Ok r /\ C07_check d fd r = true.

Definition C07_statement : Prop :=
  forall pi pj d fd, perm_ok pi -> perm_ok pj -> C07_domain d fd = true -> C07_at pi pj d fd.

(* ---------------- finding classes (complement of the guard), most specific first ---------------- *)
Inductive c07_class : Type :=
| K_kwargs_undocumented      (* an undocumented **kwargs parameter is dropped from the interface *)
| K_kwargs_untyped           (* a documented ** parameter whose docstring entry has no type: AssertionError *)
| K_self_default             (* self/cls carries a default: positional defaults shift by one *)
| K_param_named_kwargs       (* a positional / keyword-only parameter whose name ends in "kwargs" skips _infer_default *)
| K_raises                   (* processing a default or the return statement raises *)
| K_unmodelled               (* outside the modelled fragment *)
| K_str_default_altered      (* a str default loses its own quote characters / 'None' reads as None *)
| K_type_dropped             (* type deleted because the default is back-tick quoted code and the type has no '[' *)
| K_class_attr_order         (* class level: attributes shared with __init__ come first, in class order *)
| K_class_merge_raises.      (* class level: ir_merge hashes an unhashable __init__ default (dict / list): TypeError *)

Definition c07_class_name (k : c07_class) : str :=
  match k with
  | K_kwargs_undocumented => L "kwargs-undocumented-dropped"
  | K_kwargs_untyped => L "kwargs-documented-untyped-asserts"
  | K_self_default => L "self-with-default-shifts-defaults"
  | K_param_named_kwargs => L "non-star-parameter-named-kwargs"
  | K_raises => L "default-or-return-processing-raises"
  | K_unmodelled => L "unmodelled"
  | K_str_default_altered => L "str-default-unquoted-or-read-as-none"
  | K_type_dropped => L "type-dropped-for-code-default"
  | K_class_attr_order => L "class-attributes-reorder-init-parameters"
  | K_class_merge_raises => L "class-merge-raises-on-unhashable-default"
  end.

(* effective declared type of a parameter: documented type, else annotation *)
Definition eff_typ (dp : option gparam) (sp : sigparam) : option str :=
  match doc_typ_given dp with
  | Some t => Some t
  | None => option_map (fun a => rstrip_chars [nl] (show_expr a)) (s_ann sp)
  end.

Definition is_const (e : expr) : bool := match e with EConst _ => true | _ => false end.

(* the default value the IR ends with, as far as the spec predicts it *)
Definition final_default (dp : option gparam) (sp : sigparam) : option dval :=
  match doc_default_given dp with
  | Some dv => Some (norm_doc_default dv)
  | None => match s_default sp with Some e => expected_sig_default e | None => None end
  end.

Definition type_dropped (fdflt : option dval) (t : option str) : bool :=
  match fdflt, t with
  | Some dv, Some t => code_quoted_dval dv && negb (dval_is_NoneStr dv) && negb (contains [ch 91] t)
  | _, _ => false
  end.

Definition str_default_altered (s : str) : bool :=
  negb (str_eqb (if in_none_types (VStr s) then NoneStr else unquote s) s).

Definition param_class (dp : option gparam) (sp : sigparam) : option c07_class :=
  match needs_quoting (eff_typ dp sp) with
  | Err _ => Some K_unmodelled
  | Ok nq =>
    match doc_default_given dp, s_default sp with
    | None, Some (EConst (VStr s)) =>
      if str_default_altered s then Some K_str_default_altered
      else if type_dropped (Some (DV (VStr s))) (eff_typ dp sp) then Some K_type_dropped else None
    | None, Some e =>
      if type_dropped (expected_sig_default e) (eff_typ dp sp) then Some K_type_dropped else None
    | _, _ => if type_dropped (final_default dp sp) (eff_typ dp sp) then Some K_type_dropped else None
    end
  end.

Fixpoint first_some_class (l : list (option c07_class)) : option c07_class :=
  match l with
  | [] => None
  | Some k :: _ => Some k
  | None :: r => first_some_class r
  end.

Definition finding_class_C07 (d : option ir) (fd : stmt) : option c07_class :=
  match fd_arguments fd with
  | None => Some K_unmodelled
  | Some a =>
    if (match kwarg_name a with Some _ => negb (kwarg_documented d a fd) | None => false end)
    then Some K_kwargs_undocumented
    else if (match kwarg_name a with
             | Some k => match od_get k (doc_params d fd) with
                         | Some p => negb (fld_present (g_typ p))
                         | None => false
                         end
             | None => false
             end)
    then Some K_kwargs_untyped
    else if Nat.ltb (List.length (pos_args a)) (List.length (ar_defaults a)) then Some K_self_default
    else if existsb kwargs_like (sig_pos_names a) then Some K_param_named_kwargs
    else match parse_default id_perm id_perm d fd with
         | Err Unmodelled => Some K_unmodelled
         | Err _ => Some K_raises
         | Ok _ =>
           match py_signature fd with
           | None => Some K_unmodelled
           | Some l =>
             first_some_class
               (map (fun sp => match s_kind sp with
                               | VarKw => None
                               | _ => param_class (od_get (s_name sp) (doc_params d fd)) sp
                               end) l)
           end
         end
  end.

Definition guard_C07 (d : option ir) (fd : stmt) : bool :=
  C07_domain d fd && match finding_class_C07 d fd with None => true | Some _ => false end.

(* ---------------- class merged with its __init__ ---------------- *)
(* names after ir_merge(target = class IR, other = IR of __init__) *)
Definition class_merged_names (tnames inames : list str) : list str :=
  tnames ++ filter (fun k => negb (mem_str k tnames)) inames.

(* the __init__ parameters as they appear in the merged interface *)
Definition init_names_in_merged (tnames inames : list str) : list str :=
  filter (fun k => mem_str k inames) (class_merged_names tnames inames).

Definition class_order_guard (tnames inames : list str) : bool :=
  is_prefix (filter (fun k => mem_str k inames) tnames) inames.

Definition finding_class_C07_class (t : ir) (d : option ir) (fd : stmt) : option c07_class :=
  match finding_class_C07 d fd with
  | Some k => Some k
  | None =>
    match parse_default id_perm id_perm d fd with
    | Ok inner =>
      match ir_merge id_perm id_perm t inner with
      | Err Unmodelled => Some K_unmodelled
      | Err _ => Some K_class_merge_raises
      | Ok _ => if class_order_guard (od_keys (ir_params t)) (expected_names d fd) then None
                else Some K_class_attr_order
      end
    | Err _ => Some K_unmodelled
    end
  end.

(* ---------------- wire ---------------- *)
(* FAMILY: run_c07 *)
Definition run_c07 (fn : sexp) (args : list sexp) : option sexp :=
  if is_sym "c07_class_merge" fn then
    match args with
    | [tn; d; s] =>
      match dec_ir tn, dec_option dec_ir d, dec_stmt s with
      | Some tn, Some d, Some fd =>
        Some (enc_option (fun k => enc_str (c07_class_name k)) (finding_class_C07_class tn d fd))
      | _, _, _ => None
      end
    | _ => None
    end
  else
  match args with
  | [d; s] =>
    match dec_option dec_ir d, dec_stmt s with
    | Some d, Some fd =>
      if is_sym "c07_class" fn then
        Some (if negb (C07_domain d fd) then sym "out-of-domain"
              else enc_option (fun k => enc_str (c07_class_name k)) (finding_class_C07 d fd))
      else if is_sym "c07_expected_names" fn then Some (enc_list enc_str (expected_names d fd))
      else if is_sym "c07_sig_names" fn then Some (enc_list enc_str (sig_names fd))
      else if is_sym "c07_model_holds" fn then
        Some (match parse_default id_perm id_perm d fd with
              | Ok r => enc_bool (C07_check d fd r)
              | Err Unmodelled => sym "unmodelled"
              | Err _ => sym "raises"
              end)
      else None
    | _, _ => None
    end
  | [d; s; r] =>
    match dec_option dec_ir d, dec_stmt s, dec_ir r with
    | Some d, Some fd, Some r =>
      if is_sym "c07_check" fn then
        Some (SList [enc_bool (C07_names_check fd r);
                     enc_list (fun kv => SList [enc_str (fst kv); enc_bool (result_param_ok d fd kv)]) (ir_params r)])
      else None
    | _, _, _ => None
    end
  | _ => None
  end.
