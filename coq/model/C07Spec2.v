(* C07Spec2: the C07 classifiers refined by three failures of the real parse.class_ on the ATTRIBUTES of a class body
   (oracle points of kind classattrs: what parse.class_ reports against vars(cls) / __annotations__ of the executed
   class) that finding_class_C07 / finding_class_C07_class (model/C07Spec.v) do not speak of (definitions only).  All
   three were found by the strengthened oracle of C07 and are recorded as findings rather than repaired.  The model of
   the class body (ParseAst.parse_class, compared with the real parse.class_ by the parseast family) reproduces each.

   class-docstring-order-reorders-attributes
        parse.class_ starts from the IR of the class docstring and updates / appends while it walks the body: the
        attributes the docstring names come first, in DOCSTRING order, then the others in body order.  With
        `:cvar b:` only, `a: int = 1; b: int = 2` parses as [b, a] while vars(cls) has [a, b].
   class-annotated-attribute-value-as-source-text
        the value of an annotated attribute that get_value does not turn into a scalar (a non-empty display, a call, an
        attribute access, an operator expression) is reported as the SOURCE TEXT of the node get_value reaches - a str:
        `a: int = (1, 2)` gives '(1, 2)', `a: int = np.x` gives 'np' - while the plain assignment `b = (1, 2)` gives
        the tuple.
   class-tuple-target-assignment-raises
        an assignment whose target is a tuple or a list display (`a, b = 1, 2`) makes parse.class_ raise
        AttributeError (target.id).

   The refined classifier keeps every old class on the points the old classifiers speak of (functions; classes merged
   with their __init__) and only adds the new ones on attribute points, where the old classifiers are not applicable.
   An attribute point describes ONE failed clause of the judge; each class names only the difference it describes:
   the order must be exactly the docstring-first order, the reported value exactly the text the model predicts, the
   exception an AttributeError that the model raises at the first tuple-target assignment. *)
From Coq Require Import List Ascii Bool Arith ZArith.
From Coq Require String.
Import String.StringSyntax.
From DT Require Import PyStr Sexp PyVal TyExpr PureUtils Defaults PyAst IR Merge C07Spec ParseAst.
Import ListNotations.

Inductive c07_class_r : Type :=
| K7r_old (k : c07_class)
| K7r_doc_order_reorders
| K7r_ann_value_as_text
| K7r_tuple_target_raises.

Definition c07_class_r_name (k : c07_class_r) : str :=
  match k with
  | K7r_old k0 => c07_class_name k0
  | K7r_doc_order_reorders => L "class-docstring-order-reorders-attributes"
  | K7r_ann_value_as_text => L "class-annotated-attribute-value-as-source-text"
  | K7r_tuple_target_raises => L "class-tuple-target-assignment-raises"
  end.

(* one failed clause of the judge of the attributes of a class *)
Record attrs_failure : Type := mkAF {
  af_clause : str;                    (* order / value / raises / anything else *)
  af_doc : option (outcome ir);       (* what parse.docstring made of the class docstring (None: no docstring) *)
  af_node : stmt;                     (* the class definition *)
  af_entry : option str;              (* value: the attribute the clause speaks of *)
  af_got : list str;                  (* order: the attributes as parsed (those of af_order only) *)
  af_order : list str;                (* order: the same attributes in Python's order *)
  af_result : option ir;              (* value: what the real parse.class_ returned *)
  af_exn : option str                 (* raises: the kind of the exception *)
}.

Inductive c07_point : Type :=
| PtFunction (d : option ir) (fd : stmt)
| PtClassMerge (t : ir) (d : option ir) (fd : stmt)
| PtClassAttrs (a : attrs_failure).

(* the old classifiers: not applicable (None) on attribute points *)
Definition finding_class_C07_old (p : c07_point) : option c07_class :=
  match p with
  | PtFunction d fd => finding_class_C07 d fd
  | PtClassMerge t d fd => finding_class_C07_class t d fd
  | PtClassAttrs _ => None
  end.

Definition class_body (s : stmt) : list stmt := match s with SClass _ _ b _ => b | _ => [] end.

Definition with_body (s : stmt) (b : list stmt) : stmt :=
  match s with SClass nm bases _ decos => SClass nm bases b decos | x => x end.

(* parse.class_(class_def) as the oracle calls it *)
Definition model_parse (a : attrs_failure) (node : stmt) : outcome ir :=
  parse_class (af_doc a) (CStmt node) None false true.

(* ------------------------------------------------------------------ order *)
Definition documented_names (di : option (outcome ir)) : list str :=
  match di with Some (Ok i) => od_keys (ir_params i) | _ => [] end.

(* the order parse.class_ produces: named attributes first, in docstring order, then the others in body order *)
Definition docstring_first (docnames order : list str) : list str :=
  filter (fun n => mem_str n order) docnames ++ filter (fun n => negb (mem_str n docnames)) order.

Definition strs_eqb (a b : list str) : bool := list_eqb str_eqb a b.

Definition doc_order_reorders (a : attrs_failure) : bool :=
  str_eqb (af_clause a) (L "order")
  && strs_eqb (af_got a) (docstring_first (documented_names (af_doc a)) (af_order a))
  && negb (strs_eqb (af_got a) (af_order a)).

(* ------------------------------------------------------------------ value *)
Inductive binding : Type := BAnn (v : option expr) | BPlain.

Definition is_name (id : str) (e : expr) : bool := match e with EName x => str_eqb x id | _ => false end.

(* the last statement of the body that binds the name *)
Fixpoint last_binding (id : str) (body : list stmt) (acc : option binding) : option binding :=
  match body with
  | [] => acc
  | SAnnAssign t _ v :: r => last_binding id r (if is_name id t then Some (BAnn v) else acc)
  | SAssign ts _ :: r => last_binding id r (if existsb (is_name id) ts then Some BPlain else acc)
  | _ :: r => last_binding id r acc
  end.

Definition is_empty_display (s : str) : bool :=
  str_eqb s (L "{}") || str_eqb s (L "[]") || str_eqb s (L "()").

(* the value is one that get_value leaves as a node and that is then written as its source text *)
Definition ann_text_value (v : expr) : option str :=
  match get_value_expr v with
  | Ok (GN x) => match code_of x with
                 | Ok s => if is_empty_display s then None else Some s
                 | Err _ => None
                 end
  | _ => None
  end.

Definition default_of (id : str) (i : ir) : option dval :=
  match od_get id (ir_params i) with Some g => g_default g | None => None end.

Definition is_str_dval (d : option dval) : bool :=
  match d with Some (DV (VStr _)) => true | _ => false end.

Definition ann_value_as_text (a : attrs_failure) : bool :=
  str_eqb (af_clause a) (L "value")
  && match af_entry a, af_result a with
     | Some id, Some r =>
       match last_binding id (class_body (af_node a)) None with
       | Some (BAnn (Some v)) =>
         match ann_text_value v, model_parse a (af_node a) with
         | Some _, Ok mi =>
           is_str_dval (default_of id r) && opt_dval_eqb (default_of id r) (default_of id mi)
         | _, _ => false
         end
       | _ => false
       end
     | _, _ => false
     end.

(* ------------------------------------------------------------------ raises *)
(* (a tuple / list display with a starred element travels as its source text: of the expressions Python accepts as
   an assignment target only such a display starts with a bracket) *)
Definition is_seq_target (e : expr) : bool :=
  match e with
  | ETuple _ => true
  | EList _ => true
  | EOpaque src => startswith [ch 40] src || startswith [ch 91] src
  | _ => false
  end.

Definition is_plain_name (e : expr) : bool := match e with EName _ => true | _ => false end.

(* the first target that is no Name is a tuple / list display *)
Fixpoint first_bad_is_seq (ts : list expr) : bool :=
  match ts with
  | [] => false
  | t :: r => if is_plain_name t then first_bad_is_seq r else is_seq_target t
  end.

Definition is_seq_assign (s : stmt) : bool :=
  match s with SAssign ts _ => first_bad_is_seq ts | _ => false end.

(* the statements before the first tuple-target assignment, and that assignment *)
Fixpoint split_at_seq_assign (body : list stmt) (pre : list stmt) : option (list stmt * stmt) :=
  match body with
  | [] => None
  | s :: r => if is_seq_assign s then Some (rev pre, s) else split_at_seq_assign r (s :: pre)
  end.

Definition is_err_attribute (o : outcome ir) : bool :=
  match o with Err AttributeError => true | _ => false end.
Definition is_ok {A} (o : outcome A) : bool := match o with Ok _ => true | Err _ => false end.

Definition tuple_target_raises (a : attrs_failure) : bool :=
  str_eqb (af_clause a) (L "raises")
  && match af_exn a with Some k => str_eqb k (L "AttributeError") | None => false end
  && match split_at_seq_assign (class_body (af_node a)) [] with
     | Some (pre, s) =>
       is_ok (model_parse a (with_body (af_node a) pre))
       && is_err_attribute (model_parse a (with_body (af_node a) (pre ++ [s])))
       && is_err_attribute (model_parse a (af_node a))
     | None => false
     end.

(* ------------------------------------------------------------------ the refined classifier *)
Definition new_class_C07 (a : attrs_failure) : option c07_class_r :=
  if tuple_target_raises a then Some K7r_tuple_target_raises
  else if doc_order_reorders a then Some K7r_doc_order_reorders
  else if ann_value_as_text a then Some K7r_ann_value_as_text
  else None.

Definition finding_class_C07_r (p : c07_point) : option c07_class_r :=
  match finding_class_C07_old p with
  | Some k => Some (K7r_old k)
  | None => match p with PtClassAttrs a => new_class_C07 a | _ => None end
  end.

(* ------------------------------------------------------------------ wire *)
Definition enc_class_r (o : option c07_class_r) : sexp := enc_option (fun k => enc_str (c07_class_r_name k)) o.

(* FAMILY: run_c07r *)
Definition run_c07r (fn : sexp) (args : list sexp) : option sexp :=
  if is_sym "c07_attrs_class" fn then
    match args with
    | [Atom clause; di; node; entry; got; order; result; exn] =>
      match dec_option (dec_outcome dec_ir) di, dec_stmt node, dec_option dec_str entry, dec_list dec_str got,
            dec_list dec_str order, dec_option dec_ir result, dec_option dec_str exn with
      | Some di, Some node, Some entry, Some got, Some order, Some result, Some exn =>
        Some (enc_class_r (finding_class_C07_r (PtClassAttrs (mkAF clause di node entry got order result exn))))
      | _, _, _, _, _, _, _ => None
      end
    | _ => None
    end
  else if is_sym "c07_class_r_function" fn then
    match args with
    | [d; s] =>
      match dec_option dec_ir d, dec_stmt s with
      | Some d, Some fd => Some (if negb (C07_domain d fd) then sym "out-of-domain"
                                 else enc_class_r (finding_class_C07_r (PtFunction d fd)))
      | _, _ => None
      end
    | _ => None
    end
  else if is_sym "c07_class_r_merge" fn then
    match args with
    | [tn; d; s] =>
      match dec_ir tn, dec_option dec_ir d, dec_stmt s with
      | Some tn, Some d, Some fd => Some (enc_class_r (finding_class_C07_r (PtClassMerge tn d fd)))
      | _, _, _ => None
      end
    | _ => None
    end
  else None.
