(* C19Spec2: the C19 classifier refined by two failures of the INTERFACE clause of the property ("each describing the
   interface of the object it was generated from": the generated definition lists the parameters of the source object's
   __init__, in the order of its signature, next to the attributes the class documents on itself) that
   finding_class_C19 (model/C19Spec.v) does not speak of: every entry is converted, the run is inside guard_C19, and the
   generated definition still lists other parameters than the source object has (definitions only).  Both were found by
   the strengthened oracle of C19 and are recorded as findings rather than repaired.

   entry-documented-attribute-reordered
        a name the class docstring documents (`:cvar epochs:`) is also a parameter of __init__: parse.class_ starts from
        the docstring's entries, ir_merge appends what only __init__ knows, so the parameter is listed among the
        documented attributes instead of at its place in the signature (`:cvar registry: :cvar epochs:` +
        `__init__(self, dataset, epochs, batch_size)` gives registry, epochs, dataset, batch_size).  This is the C07
        finding class-docstring-order-reorders-attributes seen through gen; all three output types.
   entry-nested-class-init-merged
        a class that has no __init__ of its own and contains a nested definition that has one (a helper class, or a
        function local to a method): _merge_inner_function looks for `__init__` with ast.walk, which descends into
        nested classes and functions, and merges the first one it meets in breadth-first order: the generated definition
        lists the parameters of the NESTED __init__ (class Outer: class Options: def __init__(self, verbose, colour)
        gives OuterConfig with verbose and colour).

   A third addition widens an OLD class instead of naming a new one:
   entry-annotated-callable (class_name K_entry_annotated, already listed)
        the old classifier gives it to annotated FUNCTIONS whose docstring documents parameters (inspect hands the
        annotation object to the IR: typ "<class 'int'>", and the class / function emitters raise SyntaxError).  The same
        happens to a CLASS whose own docstring documents (:cvar) a parameter of its annotated __init__: parse._inspect
        fills the type of the names the class docstring has from inspect.signature of the class.  Found when the
        stratum of entry-documented-attribute-reordered met annotated signatures.

   The refined classifier keeps every old class and only adds the new ones where the old classifier is silent.  It is
   given, besides the arguments of the old one, the SHAPE of every entry's source object (the names its class docstring
   documents with :cvar, and every function definition nested in it with its depth and argument names, in source order)
   and the failed interface clause (which entry, what the generated definition lists, what the source object has).
   Each class names only the difference it describes: the listed parameters must be exactly the documented names
   followed by the other parameters of the merged __init__. *)
From Coq Require Import List Ascii Bool Arith ZArith.
From Coq Require String.
Import String.StringSyntax.
From DT Require Import PyStr Sexp PyVal Gen C19Spec.
Import ListNotations.

Inductive c19_class_r : Type :=
| K19r_old (k : c19_class)
| K19r_documented_attribute_reordered
| K19r_nested_init_merged
| K19r_annotated_documented_class.      (* entry-annotated-callable, reached through a class *)

Definition c19_class_r_name (k : c19_class_r) : str :=
  match k with
  | K19r_old k0 => class_name k0
  | K19r_documented_attribute_reordered => L "entry-documented-attribute-reordered"
  | K19r_nested_init_merged => L "entry-nested-class-init-merged"
  | K19r_annotated_documented_class => class_name K_entry_annotated
  end.

(* a function definition nested in the source class: depth 1 = a statement of the class body itself *)
Record def_info : Type := mkDef { d_depth : nat; d_name : str; d_args : list str }.

Record entry_shape : Type := mkShape {
  es_is_class : bool;
  es_cvars : list str;            (* names of the :cvar lines of the class docstring, in docstring order *)
  es_defs : list def_info         (* every FunctionDef inside the class, in source order (pre-order) *)
}.

(* the failed interface clause *)
Record iface_failure : Type := mkIF {
  if_entry : nat;                 (* index of the mapping entry *)
  if_got : list str;              (* the parameters the generated definition lists *)
  if_want : list str              (* the parameters of the source object (inspect.signature) *)
}.

Definition init_name : str := L "__init__".

Fixpoint mem_s (k : str) (l : list str) : bool :=
  match l with [] => false | x :: r => str_eqb k x || mem_s k r end.

Fixpoint strs_eqb (a b : list str) : bool :=
  match a, b with
  | [], [] => true
  | x :: a', y :: b' => str_eqb x y && strs_eqb a' b'
  | _, _ => false
  end.

(* ast.walk is breadth first: of the definitions of that name the one of least depth, the earliest in source order
   among those (the order of a level in a breadth-first walk is the source order of that level) *)
Fixpoint first_bfs (name : str) (defs : list def_info) (best : option def_info) : option def_info :=
  match defs with
  | [] => best
  | d :: r =>
    if str_eqb (d_name d) name then
      first_bfs name r (match best with
                        | None => Some d
                        | Some b => if Nat.ltb (d_depth d) (d_depth b) then Some d else Some b
                        end)
    else first_bfs name r best
  end.

Definition merged_init (s : entry_shape) : option def_info := first_bfs init_name (es_defs s) None.

(* parse.function drops a leading self / cls *)
Definition params_of_def (d : def_info) : list str :=
  match d_args d with
  | a :: r => if str_eqb a (L "self") || str_eqb a (L "cls") then r else a :: r
  | [] => []
  end.

(* what parse.class_(merge_inner_function=__init__) lists: the documented names, then what only the merged
   __init__ knows *)
Definition listed_by_merge (s : entry_shape) (d : def_info) : list str :=
  es_cvars s ++ filter (fun n => negb (mem_s n (es_cvars s))) (params_of_def d).

(* what the property asks for: the documented attributes that are no parameter, then the parameters in signature order *)
Definition listed_by_property (s : entry_shape) (want : list str) : list str :=
  filter (fun n => negb (mem_s n want)) (es_cvars s) ++ want.

Definition has_own_init (s : entry_shape) : bool :=
  existsb (fun d => Nat.eqb (d_depth d) 1 && str_eqb (d_name d) init_name) (es_defs s).

Definition documented_attribute_reordered (s : entry_shape) (f : iface_failure) : bool :=
  es_is_class s && has_own_init s
  && match merged_init s with
     | Some d =>
       Nat.eqb (d_depth d) 1
       && strs_eqb (params_of_def d) (if_want f)
       && existsb (fun n => mem_s n (if_want f)) (es_cvars s)
       && strs_eqb (if_got f) (listed_by_merge s d)
       && negb (strs_eqb (if_got f) (listed_by_property s (if_want f)))
     | None => false
     end.

Definition nested_init_merged (s : entry_shape) (f : iface_failure) : bool :=
  es_is_class s && negb (has_own_init s)
  && match merged_init s with
     | Some d =>
       Nat.ltb 1 (d_depth d)
       && strs_eqb (if_got f) (listed_by_merge s d)
       && negb (strs_eqb (if_got f) (listed_by_property s (if_want f)))
     | None => false
     end.

Definition new_class_C19 (shapes : list entry_shape) (f : option iface_failure) : option c19_class_r :=
  match f with
  | Some f =>
    match nth_error shapes (if_entry f) with
    | Some s =>
      if nested_init_merged s f then Some K19r_nested_init_merged
      else if documented_attribute_reordered s f then Some K19r_documented_attribute_reordered
      else None
    | None => None
    end
  | None => None
  end.

(* features and shape of the first entry whose conversion did not produce a text *)
Fixpoint first_failed_shape (es : list entry) (fs : list entry_feat) (ss : list entry_shape)
  : option (entry_feat * entry_shape) :=
  match es, fs, ss with
  | e :: r, f :: fr, s :: sr => if is_emitted e then first_failed_shape r fr sr else Some (f, s)
  | _, _, _ => None
  end.

(* a documented class with an annotated __init__ of its own, one of whose parameters the class docstring documents;
   type_ class or function (argparse reads the type from the default / writes no annotation) *)
Definition annotated_documented_class (type_ : str) (f : entry_feat) (s : entry_shape) : bool :=
  negb (f_is_function f) && f_documented f && f_annotated f && es_is_class s
  && (str_eqb type_ (L "class") || str_eqb type_ (L "function"))
  && match merged_init s with
     | Some d => Nat.eqb (d_depth d) 1 && existsb (fun n => mem_s n (params_of_def d)) (es_cvars s)
     | None => false
     end.

Definition conversion_class_C19 (x : c19_in) (shapes : list entry_shape) : option c19_class_r :=
  match first_failed_shape (entries_of (ci_gen x)) (ci_feats x) shapes with
  | Some (f, s) => if annotated_documented_class (gi_type (ci_gen x)) f s
                   then Some K19r_annotated_documented_class else None
  | None => None
  end.

Definition conversion_failed (x : c19_in) : bool :=
  match ci_existing x with
  | Some _ => false
  | None => negb (forallb is_emitted (entries_of (ci_gen x)))
  end.

Definition finding_class_C19_r (parse_src : str -> option (list top)) (x : c19_in)
           (shapes : list entry_shape) (f : option iface_failure) : option c19_class_r :=
  match finding_class_C19 parse_src x with
  | Some k => Some (K19r_old k)
  | None => if conversion_failed x then conversion_class_C19 x shapes else new_class_C19 shapes f
  end.

Definition guard_C19_r (parse_src : str -> option (list top)) (x : c19_in)
           (shapes : list entry_shape) (f : option iface_failure) : bool :=
  guard_C19 parse_src x && match finding_class_C19_r parse_src x shapes f with None => true | Some _ => false end.

(* ------------------------------------------------------------------ wire *)
Definition dec_def (e : sexp) : option def_info :=
  match e with
  | SList [d; n; a] =>
    match dec_nat d, dec_str n, dec_list dec_str a with
    | Some d, Some n, Some a => Some (mkDef d n a)
    | _, _, _ => None
    end
  | _ => None
  end.

Definition dec_shape (e : sexp) : option entry_shape :=
  match e with
  | SList [c; cv; ds] =>
    match dec_bool c, dec_list dec_str cv, dec_list dec_def ds with
    | Some c, Some cv, Some ds => Some (mkShape c cv ds)
    | _, _, _ => None
    end
  | _ => None
  end.

Definition dec_iface (e : sexp) : option iface_failure :=
  match e with
  | SList [j; g; w] =>
    match dec_nat j, dec_list dec_str g, dec_list dec_str w with
    | Some j, Some g, Some w => Some (mkIF j g w)
    | _, _, _ => None
    end
  | _ => None
  end.

(* FAMILY: run_c19r *)
Definition run_c19r (fn : sexp) (args : list sexp) : option sexp :=
  if is_sym "c19_class_r" fn then
    match args with
    | [x; tab; shapes; f] =>
      match dec_c19_in x, dec_table tab, dec_list dec_shape shapes, dec_option dec_iface f with
      | Some x, Some tab, Some shapes, Some f =>
        let ps := table_parse tab in
        Some (if negb (C19_domain ps x) then sym "out-of-domain"
              else SList [enc_option (fun k => enc_str (c19_class_r_name k)) (finding_class_C19_r ps x shapes f);
                          enc_bool (guard_C19_r ps x shapes f)])
      | _, _, _, _ => None
      end
    | _ => None
    end
  else None.
