(* ParseSig: the signature part of doctrans/parse.py:function (and _merge_inner_function), with the helpers
   it runs: ast_utils.py:func_arg2param, get_function_type, get_value; docstring_parsers.py:
   _set_name_and_type, _infer_default; parser_utils.py:_interpolate_return; plus the two CPython
   functions they call on default expressions (ast.unparse as show_expr, ast.literal_eval as lit_eval)
   and PySem-style py_signature (what inspect.signature reports).  The docstring-derived IR is an INPUT
   (obtained by the harness from the real parse.docstring), so this layer does not depend on the model
   of the docstring parsers.  Transcribed as the code is now (after fixes 340a6a0: defaults are padded with
   [None] * diff; cc5b15e: parameters sorted into signature order; 14f8a19: AST defaults evaluated first;
   e642f10: get_value's Not).  Definitions only. *)
From Coq Require Import List Ascii Bool Arith ZArith.
From Coq Require String.
Import String.StringSyntax.
From DT Require Import PyStr Sexp PyVal TyExpr PureUtils Defaults PyAst IR Merge.
Import ListNotations.

(* ================= CPython: repr of str, ast.unparse on the fragment ================= *)

Definition hex2 (n : nat) : str := [hexdigit (n / 16); hexdigit (n mod 16)].

Definition repr_char (q c : ascii) : str :=
  let n := code c in
  if ascii_eqb c (ch 92) then [ch 92; ch 92]
  else if ascii_eqb c q then [ch 92; q]
  else if Nat.eqb n 9 then [ch 92; ch 116]
  else if Nat.eqb n 10 then [ch 92; ch 110]
  else if Nat.eqb n 13 then [ch 92; ch 114]
  else if Nat.ltb n 32 || Nat.leb 127 n then [ch 92; ch 120] ++ hex2 n
  else [c].

(* repr(s) for ASCII s: single quotes unless s has a single and no double quote *)
Definition repr_str (s : str) : str :=
  let q := if mem_c sq s && negb (mem_c dq s) then dq else sq in
  q :: flat_map (repr_char q) s ++ [q].

(* repr(v) *)
Definition py_repr (v : pyval) : str :=
  match v with
  | VStr s => repr_str s
  | _ => py_str v
  end.

(* ast.unparse of a Constant: floats have inf / nan substituted *)
Definition show_const (v : pyval) : str :=
  match v with
  | VFloat r => replace (L "nan") (L "(1e309-1e309)") (replace (L "inf") (L "1e309") r)
  | _ => py_repr v
  end.

(* items_view: one-element tuples keep their comma *)
Definition items_view (l : list str) : str :=
  match l with
  | [x] => x ++ [ch 44]
  | _ => join (L ", ") l
  end.

Fixpoint map2 {A B C} (f : A -> B -> C) (a : list A) (b : list B) : list C :=
  match a, b with
  | x :: a', y :: b' => f x y :: map2 f a' b'
  | _, _ => []
  end.

(* precedence levels of ast._Precedence that occur in the fragment *)
Definition P_TEST := 0.
Definition P_NOT := 1.
Definition P_FACTOR := 2.
Definition P_ATOM := 3.

Definition unop_sym (op : str) : str :=
  if str_eqb op (L "Invert") then [ch 126]
  else if str_eqb op (L "Not") then L "not"
  else if str_eqb op (L "UAdd") then [ch 43]
  else [ch 45].

Definition unop_prec (op : str) : nat := if str_eqb op (L "Not") then P_NOT else P_FACTOR.

Definition is_int_const (e : expr) : bool :=
  match e with EConst (VInt _) => true | EConst (VBool _) => true | _ => false end.

Fixpoint show_prec (p : nat) (e : expr) : str :=
  match e with
  | EConst v => show_const v
  | EName id => id
  | EAttr e' a => show_prec P_ATOM e' ++ (if is_int_const e' then [sp] else []) ++ [ch 46] ++ a
  | ESub e' s =>
    show_prec P_ATOM e' ++ [ch 91]
    ++ (match s with
        | ETuple (x :: r) => items_view (map (show_prec P_TEST) (x :: r))
        | _ => show_prec P_TEST s
        end) ++ [ch 93]
  | ETuple es => [ch 40] ++ items_view (map (show_prec P_TEST) es) ++ [ch 41]
  | EList es => [ch 91] ++ join (L ", ") (map (show_prec P_TEST) es) ++ [ch 93]
  | EDict ks vs =>
    [ch 123] ++ join (L ", ") (map2 (fun k v => k ++ L ": " ++ v)
                                     (map (show_prec P_TEST) ks) (map (show_prec P_TEST) vs)) ++ [ch 125]
  | ECall f args kws =>
    show_prec P_ATOM f ++ [ch 40]
    ++ join (L ", ") (map (show_prec P_TEST) args
                      ++ map (fun kw => match kw with
                                        | (Some k, v) => k ++ [ch 61] ++ show_prec P_TEST v
                                        | (None, v) => L "**" ++ show_prec P_TEST v
                                        end) kws)
    ++ [ch 41]
  | EUnary op e' =>
    let body := unop_sym op ++ (if Nat.eqb (unop_prec op) P_FACTOR then [] else [sp])
                ++ show_prec (unop_prec op) e' in
    if Nat.ltb (unop_prec op) p then [ch 40] ++ body ++ [ch 41] else body
  | EOpaque src => src
  end.

(* ast.unparse(e) / to_code(e) *)
Definition show_expr (e : expr) : str := show_prec P_TEST e.

Definition ascii_only (s : str) : bool := forallb (fun c => Nat.ltb (code c) 128) s.

Definition is_opaque (e : expr) : bool := match e with EOpaque _ => true | _ => false end.

Definition known_unop (op : str) : bool :=
  str_eqb op (L "Invert") || str_eqb op (L "Not") || str_eqb op (L "UAdd") || str_eqb op (L "USub").

(* the syntactic fragment on which show_expr is claimed to equal ast.unparse: ASCII strings, no opaque
   node in an operand position (its precedence is unknown), no parenthesised opaque sole call argument
   (generator expressions are printed without their own parentheses there) *)
Fixpoint expr_ok (e : expr) : bool :=
  match e with
  | EConst (VStr s) => ascii_only s
  | EConst _ => true
  | EName _ => true
  | EAttr e' _ => negb (is_opaque e') && expr_ok e'
  | ESub e' s => negb (is_opaque e') && expr_ok e' && expr_ok s
  | ETuple es => forallb expr_ok es
  | EList es => forallb expr_ok es
  | EDict ks vs => forallb expr_ok ks && forallb expr_ok vs
  | ECall f args kws =>
    negb (is_opaque f) && expr_ok f && forallb expr_ok args
    && forallb (fun kw => expr_ok (snd kw)) kws
    && (match args, kws with
        | [EOpaque src], [] => negb (startswith [ch 40] src)
        | _, _ => true
        end)
  | EUnary op e' => known_unop op && negb (is_opaque e') && expr_ok e'
  | EOpaque _ => true
  end.

(* ================= CPython: ast.literal_eval on a node of the fragment ================= *)

(* source text of an opaque node that may be a Constant (bytes, complex, Ellipsis) *)
Definition opaque_maybe_const (src : str) : bool :=
  startswith (L "b'") src || startswith [ch 98; ch 34] src || endswith (L "j") src || str_eqb src (L "...").

(* ... or any other node that literal_eval accepts (set displays, complex sums) *)
Definition opaque_maybe_literal (src : str) : bool :=
  opaque_maybe_const src || startswith [ch 123] src.

(* ... or a node with a .value attribute (sliced Subscript, Await, Yield, NamedExpr, Starred) *)
Definition opaque_maybe_has_value (src : str) : bool :=
  opaque_maybe_const src || endswith [ch 93] src || startswith (L "await ") src || startswith (L "(yield") src
  || startswith (L "yield") src || startswith [ch 42] src || contains (L ":=") src.

Inductive lval : Type :=
| LV (v : pyval)
| LTuple (l : list lval)
| LList (l : list lval)
| LDict (ks : list lval) (vs : list lval)
| LSet0.

Fixpoint lrepr (v : lval) : str :=
  match v with
  | LV x => py_repr x
  | LTuple l => [ch 40] ++ items_view (map lrepr l) ++ [ch 41]
  | LList l => [ch 91] ++ join (L ", ") (map lrepr l) ++ [ch 93]
  | LDict ks vs => [ch 123] ++ join (L ", ") (map2 (fun k v => k ++ L ": " ++ v) (map lrepr ks) (map lrepr vs))
                   ++ [ch 125]
  | LSet0 => L "set()"
  end.

Definition lval_type_name (v : lval) : str :=
  match v with
  | LV x => type_name x
  | LTuple _ => L "tuple"
  | LList _ => L "list"
  | LDict _ _ => L "dict"
  | LSet0 => L "set"
  end.

Fixpoint lval_hashable (v : lval) : bool :=
  match v with
  | LV _ => true
  | LTuple l => forallb lval_hashable l
  | _ => false
  end.

Definition neg_float_repr (r : str) : str :=
  match r with
  | c :: r' => if ascii_eqb c (ch 45) then r' else ch 45 :: r
  | [] => r
  end.

Fixpoint mapM {A B} (f : A -> outcome B) (l : list A) : outcome (list B) :=
  match l with
  | [] => Ok []
  | x :: r => do y <- f x; do ys <- mapM f r; Ok (y :: ys)
  end.

(* keys of a dict display whose Python-level equality the model can decide: at most one key, or
   all keys str and pairwise different, or all keys int and pairwise different *)
Fixpoint strs_distinct (l : list str) : bool :=
  match l with
  | [] => true
  | x :: r => negb (mem_str x r) && strs_distinct r
  end.

Definition dict_keys_decidable (ks : list lval) : bool :=
  match ks with
  | [] => true
  | [_] => true
  | _ =>
    (forallb (fun k => match k with LV (VStr _) => true | _ => false end) ks
     && strs_distinct (map (fun k => match k with LV (VStr s) => s | _ => [] end) ks))
    || (forallb (fun k => match k with LV (VInt _) => true | _ => false end) ks
        && strs_distinct (map (fun k => match k with LV (VInt z) => dec_of_Z z | _ => [] end) ks))
  end.

(* dict(zip(map(_convert, keys), map(_convert, values))): key, value, then the key is hashed *)
Fixpoint dict_pairs (ks vs : list (outcome lval)) : outcome (list lval * list lval) :=
  match ks, vs with
  | k :: ks', v :: vs' =>
    do k' <- k; do v' <- v;
    if negb (lval_hashable k') then Err TypeError
    else do r <- dict_pairs ks' vs'; Ok (k' :: fst r, v' :: snd r)
  | _, _ => Ok ([], [])
  end.

Fixpoint lit_eval (e : expr) : outcome lval :=
  match e with
  | EConst v => Ok (LV v)
  | ETuple es => do l <- mapM (fun x => x) (map lit_eval es); Ok (LTuple l)
  | EList es => do l <- mapM (fun x => x) (map lit_eval es); Ok (LList l)
  | EDict ks vs =>
    if negb (Nat.eqb (List.length ks) (List.length vs)) then Err ValueError
    else do r <- dict_pairs (map lit_eval ks) (map lit_eval vs);
         if dict_keys_decidable (fst r) then Ok (LDict (fst r) (snd r)) else Err Unmodelled
  | ECall (EName f) [] [] => if str_eqb f (L "set") then Ok LSet0 else Err ValueError
  | EUnary op (EConst (VInt z)) =>
    if str_eqb op (L "USub") then Ok (LV (VInt (- z)))
    else if str_eqb op (L "UAdd") then Ok (LV (VInt z)) else Err ValueError
  | EUnary op (EConst (VFloat r)) =>
    if str_eqb op (L "USub") then Ok (LV (VFloat (neg_float_repr r)))
    else if str_eqb op (L "UAdd") then Ok (LV (VFloat r)) else Err ValueError
  | EUnary op (EOpaque src) => if opaque_maybe_const src then Err Unmodelled else Err ValueError
  | EOpaque src => if opaque_maybe_literal src then Err Unmodelled else Err ValueError
  | _ => Err ValueError                           (* malformed node or string *)
  end.

Definition dval_of_lval (v : lval) : dval :=
  match v with
  | LV x => DV x
  | _ => DO (lrepr v)
  end.

(* ================= ast_utils.py ================= *)

(* get_function_type(function_def) *)
Definition get_function_type (a : arguments) : str :=
  match ar_args a with
  | x :: _ => if str_eqb (a_name x) (L "self") || str_eqb (a_name x) (L "cls") then a_name x else L "static"
  | [] => L "static"
  end.

(* func_arg2param(func_arg, default): ast.parse leaves type_comment = None, so doc is None *)
Definition func_arg2param (a : arg) (default : option expr) : str * gparam :=
  (a_name a,
   mkG FNone
       (match a_ann a with None => FNone | Some e => Has (rstrip_chars [nl] (show_expr e)) end)
       (option_map DE default)).

(* get_value(node) on an expression node: a Python value or a node *)
Inductive gval : Type := GV (v : pyval) | GN (e : expr).

Definition int_of_bool (b : bool) : Z := if b then 1%Z else 0%Z.

Definition apply_unop (op : str) (v : pyval) : outcome pyval :=
  if str_eqb op (L "USub") then
    match v with
    | VInt z => Ok (VInt (- z)) | VBool b => Ok (VInt (- int_of_bool b))
    | VFloat r => Ok (VFloat (neg_float_repr r)) | _ => Err TypeError
    end
  else if str_eqb op (L "UAdd") then
    match v with
    | VInt z => Ok (VInt z) | VBool b => Ok (VInt (int_of_bool b))
    | VFloat r => Ok (VFloat r) | _ => Err TypeError
    end
  else if str_eqb op (L "Invert") then
    match v with
    | VInt z => Ok (VInt (- z - 1)) | VBool b => Ok (VInt (- int_of_bool b - 1))
    | _ => Err TypeError
    end
  else if str_eqb op (L "Not") then Ok (VBool (negb (truthy v)))     (* operator.not_ *)
  else Err KeyError.

Definition none_to_NoneStr (v : pyval) : pyval :=
  match v with VNone => VStr NoneStr | _ => v end.

Definition get_value_expr (e : expr) : outcome gval :=
  match e with
  | EConst v => Ok (GV (none_to_NoneStr v))
  | EAttr e' _ => Ok (GN e')                (* hasattr(node, "value") *)
  | ESub e' _ => Ok (GN e')
  | EUnary op (EConst v) => do r <- apply_unop op (none_to_NoneStr v); Ok (GV r)
  | EName id => Ok (GV (VStr id))
  | EOpaque src => if opaque_maybe_has_value src then Err Unmodelled else Ok (GN e)
  | _ => Ok (GN e)
  end.

(* ================= docstring_parsers.py: _infer_default, _set_name_and_type ================= *)

Definition dval_in_none_types (d : dval) : bool :=
  match d with DV v => in_none_types v | _ => false end.

Definition dval_is_NoneStr (d : dval) : bool :=
  match d with DV (VStr s) => str_eqb s NoneStr | _ => false end.

Definition expr_class_name (e : expr) : option str :=
  match e with
  | EConst _ => Some (L "Constant") | EName _ => Some (L "Name") | EAttr _ _ => Some (L "Attribute")
  | ESub _ _ => Some (L "Subscript") | ETuple _ => Some (L "Tuple") | EList _ => Some (L "List")
  | EDict _ _ => Some (L "Dict") | ECall _ _ _ => Some (L "Call") | EUnary _ _ => Some (L "UnaryOp")
  | EOpaque _ => None
  end.

Definition do_type_name (r : str) : option str :=
  match r with
  | c :: _ =>
    if ascii_eqb c (ch 91) then Some (L "list")
    else if ascii_eqb c (ch 40) then Some (L "tuple")
    else if str_eqb r (L "set()") then Some (L "set")
    else if str_eqb r (L "{}") then Some (L "dict")
    else None
  | [] => None
  end.

(* type(default).__name__ *)
Definition dval_type_name (d : dval) : option str :=
  match d with
  | DV v => Some (type_name v)
  | DE e => expr_class_name e
  | DO r => do_type_name r
  end.

Definition code_quoted_dval (d : dval) : bool :=
  match d with DV (VStr s) => code_quoted s | _ => false end.

Definition bt3 : str := L "```".

(* _infer_default(_param, infer_type) with _param["default"] = d0 present *)
Definition infer_default (p : gparam) (d0 : dval) (infer_type : bool) : outcome gparam :=
  do d1 <- match d0 with
           | DE (EConst v) => Ok (DV (none_to_NoneStr v))
           | DE (EOpaque src) => if opaque_maybe_const src then Err Unmodelled else Ok d0
           | _ => Ok d0
           end;
  let d2 := if dval_in_none_types d1 then DV (VStr NoneStr) else d1 in
  do typ3 <- (if infer_type && fld_is_none (g_typ p) && negb (dval_in_none_types d2)
              then match dval_type_name d2 with Some n => Ok (Has n) | None => Err Unmodelled end
              else Ok (g_typ p));
  do d4 <- (match d2 with
            | DE e =>                                  (* isinstance(default, AST) is tested first *)
              if negb (expr_ok e) then Err Unmodelled
              else match lit_eval e with
                   | Ok lv => Ok (dval_of_lval lv, Some (lval_type_name lv))
                   | Err ValueError =>
                     Ok (DV (VStr (bt3 ++ paren_wrap_code (rstrip_chars [nl] (show_expr e)) ++ bt3)), None)
                   | Err x => Err x
                   end
            | _ =>
              do nq <- needs_quoting (fget typ3);
              if nq || (match d2 with DV (VStr _) => true | _ => false end)
              then Ok (match d2 with DV (VStr s) => DV (VStr (unquote s)) | _ => d2 end, None)
              else Ok (d2, None)
            end);
  let '(d, tn) := d4 in
  do typ5 <- (if fld_is_none typ3 && negb (dval_is_NoneStr d)
              then match tn with
                   | Some n => Ok (Has n)
                   | None => match dval_type_name d with Some n => Ok (Has n) | None => Err Unmodelled end
                   end
              else Ok typ3);
  if negb (dval_is_NoneStr d) && code_quoted_dval d then
    match typ5 with
    | Missing => Err KeyError                      (* del _param["typ"] *)
    | FNone => Err TypeError                       (* "[" not in None *)
    | Has t => if contains [ch 91] t then Ok (mkG (g_doc p) typ5 (Some d))
               else Ok (mkG (g_doc p) Missing (Some d))
    end
  else Ok (mkG (g_doc p) typ5 (Some d)).

Definition google_opt : str := L ", optional".

(* _set_name_and_type((name, _param), infer_type, word_wrap), in three parts: the returned name; the
   first half (kwargs convention / _infer_default); the second half (", optional", prose clean-up,
   "Optional" prose) *)
Definition kwargs_like (name : str) : bool := endswith (L "kwargs") name || startswith (L "**") name.

Definition snt_name (name : str) : str :=
  if kwargs_like name then lstrip_chars [ch 42] name else name.

Definition snt_pre (name : str) (p : gparam) (infer_type : bool) : outcome gparam :=
  if kwargs_like name then
    let typ' := match g_typ p with
                | Missing => Has (L "Optional[dict]")
                | Has t => if str_eqb t (L "dict") then Has (L "Optional[dict]") else Has t
                | FNone => FNone
                end in
    let d' := match g_default p with None => Some (DV (VStr NoneStr)) | Some d => Some d end in
    Ok (mkG (g_doc p) typ' d')
  else match g_default p with
       | Some d => infer_default p d infer_type
       | None => Ok p
       end.

Definition snt_post (p1 : gparam) (word_wrap : bool) : outcome gparam :=
  let typ2 := match g_typ p1 with
              | Has t => if endswith google_opt t
                         then Has (L "Optional[" ++ firstn (List.length t - List.length google_opt) t ++ L "]")
                         else Has t
              | x => x
              end in
  match g_doc p1 with
  | Has (c :: r) =>
    let doc := c :: r in
    let doc' := rstrip (if word_wrap then join [sp] (map strip (split [nl] doc)) else doc) in
    if startswith (L "(Optional)") doc' || startswith (L "Optional") doc' then
      match typ2 with
      | Missing => Ok (mkG (Has doc') typ2 (g_default p1))
      | FNone => Err AttributeError                (* None.startswith *)
      | Has t => if startswith (L "Optional[") t then Ok (mkG (Has doc') typ2 (g_default p1))
                 else Ok (mkG (Has doc') (Has (L "Optional[" ++ t ++ L "]")) (g_default p1))
      end
    else Ok (mkG (Has doc') typ2 (g_default p1))
  | _ => Ok (mkG Missing typ2 (g_default p1))      (* del _param["doc"] when falsy *)
  end.

Definition snt_param (name : str) (p : gparam) (infer_type word_wrap : bool) : outcome gparam :=
  do p1 <- snt_pre name p infer_type; snt_post p1 word_wrap.

Definition set_name_and_type (name : str) (p : gparam) (infer_type word_wrap : bool)
  : outcome (str * gparam) :=
  do p' <- snt_param name p infer_type word_wrap; Ok (snt_name name, p').

(* OrderedDict(map(partial(_set_name_and_type, ...), params.items())) *)
Definition set_names_and_types (ps : list (str * gparam)) (infer_type word_wrap : bool)
  : outcome (list (str * gparam)) :=
  do l <- mapM (fun kv => set_name_and_type (fst kv) (snd kv) infer_type word_wrap) ps;
  Ok (od_of_pairs l).

(* ================= parser_utils.py: _interpolate_return ================= *)

Definition last_return (body : list stmt) : option (option expr) :=
  match List.find (fun s => match s with SReturn _ => true | _ => false end) (rev body) with
  | Some (SReturn v) => Some v
  | _ => None
  end.

Definition interpolate_return (body : list stmt) (fn_returns : option expr) (rets : fld gparam)
  : outcome (fld gparam) :=
  do rets1 <-
     match last_return body with
     | Some (Some value) =>
       if negb (expr_ok value) then Err Unmodelled else
       let rt := match rets with Has p => p | _ => mkG Missing Missing None end in
       do typ1 <- match g_typ rt with
                  | Missing => Ok Missing
                  | FNone => Err TypeError                   (* "[" not in None *)
                  | Has t => Ok (if contains [ch 91] t then Has t else Missing)
                  end;
       let src := rstrip_chars [nl] (show_expr value) in
       do dflt <-
          (if (match value with ETuple _ => true | _ => false end)
              && (negb (startswith [ch 40] src) || negb (endswith [ch 41] src))
           then Ok (DV (VStr ([ch 40] ++ src ++ [ch 41])))
           else do g <- get_value_expr value;
                match g with
                | GV v => Ok (DV v)
                | GN (EConst c) => Ok (DE (EConst c))        (* an ast.Constant instance is kept as a node *)
                | GN _ => Ok (DV (VStr (bt3 ++ src ++ bt3)))
                end);
       Ok (Has (mkG (g_doc rt) typ1 (Some dflt)))
     | _ => Ok rets
     end;
  match fn_returns with
  | Some r =>
    if negb (expr_ok r) then Err Unmodelled else
    let rt := match rets1 with Has p => p | _ => mkG Missing Missing None end in
    Ok (Has (mkG (g_doc rt) (Has (rstrip_chars [nl] (show_expr r))) (g_default rt)))
  | None => Ok rets1
  end.

(* ================= parse.py: function ================= *)

(* [None] * diff + defaults   (a negative diff repeats nothing) *)
Definition pad_defaults {A} (n : nat) (ds : list (option A)) : list (option A) :=
  repeat None (n - List.length ds) ++ ds.

Definition sig_pairs (a : arguments) (pos : list arg) : list (str * gparam) :=
  map2 func_arg2param pos (pad_defaults (List.length pos) (map Some (ar_defaults a)))
  ++ map2 func_arg2param (ar_kwonly a) (pad_defaults (List.length (ar_kwonly a)) (ar_kw_defaults a)).

Definition arg_exprs_ok (a : arguments) : bool :=
  forallb (fun x => match a_ann x with Some e => expr_ok e | None => true end) (ar_args a ++ ar_kwonly a)
  && forallb expr_ok (ar_defaults a)
  && forallb (fun d => match d with Some e => expr_ok e | None => true end) (ar_kw_defaults a).

Definition opt_or (a : option str) (b : str) : str :=
  match a with Some (c :: r) => c :: r | _ => b end.

(* parse.function(function_def, infer_type, word_wrap, function_type, function_name) for an ast.FunctionDef;
   doc_ir = docstring(doc_str.replace(":cvar", ":param"), infer_type=infer_type) when there is a docstring.
   Three stages: everything before ir_merge (pf_prepare), ir_merge, everything after it (pf_finish). *)
(* sorted(params.items(), key = index of the name in sig_order, or len(sig_order)): a stable sort of a
   dict's items (unique keys): the signature's names that are present, in signature order, then the rest
   in their own order *)
Fixpoint dedup_first (l : list str) : list str :=
  match l with
  | [] => []
  | x :: r => x :: filter (fun y => negb (str_eqb x y)) (dedup_first r)
  end.

Definition sort_by_sig (sig_order : list str) (ps : list (str * gparam)) : list (str * gparam) :=
  flat_map (fun k => match od_get k ps with Some v => [(k, v)] | None => [] end) (dedup_first sig_order)
  ++ filter (fun kv => negb (mem_str (fst kv) sig_order)) ps.

Record prepared : Type := mkPrepared {
  pp_target : ir;
  pp_other : ir;
  pp_sig : list str;                   (* sig_order *)
  pp_append : list (str * gparam);     (* params_to_append *)
  pp_body : list stmt;                 (* body without the docstring *)
  pp_returns : option expr
}.

Definition pf_prepare (doc_ir : option ir) (fd : stmt) (function_type function_name : option str)
  : outcome prepared :=
  match fd with
  | SFunc fname a body _ fn_returns =>
    if (match function_name with Some n => negb (str_eqb fname n) | None => false end)
    then Err AssertionError
    else if negb (arg_exprs_ok a) then Err Unmodelled
    else
      let found_type := get_function_type a in
      let pos := if str_eqb found_type (L "static") then ar_args a else tl (ar_args a) in
      do base <- match docstring_of body, doc_ir with
                 | None, _ => Ok (mkIR Missing Missing Missing [] FNone None)
                 | Some _, Some d => Ok d
                 | Some _, None => Err Unmodelled          (* the harness must supply the docstring IR *)
                 end;
      let body' := match docstring_of body with Some _ => tl body | None => body end in
      let internal' := match body' with
                       | [] => ir_internal base
                       | _ :: _ => Some (mkInternal body' (Has fname) (Has found_type))
                       end in
      do kw <- match ar_kwarg a with
               | Some k =>
                 match od_get (a_name k) (ir_params base) with
                 | Some p =>
                   if fld_present (g_typ p)
                   then Ok (od_pop (a_name k) (ir_params base),
                            [(a_name k, mkG (g_doc p) (g_typ p) (Some (DV (VStr NoneStr))))])
                   else Err AssertionError                  (* assert "typ" in _param *)
                 | None => Ok (ir_params base, [])
                 end
               | None => Ok (ir_params base, [])
               end;
      Ok (mkPrepared
            (mkIR (Has (opt_or function_name fname)) (Has (opt_or function_type found_type))
                  (ir_doc base) (fst kw) (ir_returns base) internal')
            (mkIR Missing Missing Missing (od_of_pairs (sig_pairs a pos)) FNone None)
            (map a_name pos ++ map a_name (ar_kwonly a))
            (snd kw) body' fn_returns)
  | _ => Err AssertionError
  end.

Definition pf_finish (pp : prepared) (merged : ir) (infer_type word_wrap : bool) : outcome ir :=
  let params1 := fold_left (fun d kv => od_set (fst kv) (snd kv) d) (pp_append pp)
                           (sort_by_sig (pp_sig pp) (ir_params merged)) in
  do params2 <- set_names_and_types params1 infer_type word_wrap;
  do rets <- interpolate_return (pp_body pp) (pp_returns pp) (ir_returns merged);
  do rets' <- match rets with
              | Has p => do r <- set_name_and_type (L "return_type") p infer_type word_wrap; Ok (Has (snd r))
              | x => Ok x
              end;
  Ok (mkIR (ir_name merged) (ir_type merged) (ir_doc merged) params2 rets' (ir_internal merged)).

Definition parse_function (pi pj : perm) (doc_ir : option ir) (fd : stmt)
           (infer_type word_wrap : bool) (function_type function_name : option str) : outcome ir :=
  do pp <- pf_prepare doc_ir fd function_type function_name;
  do merged <- ir_merge pi pj (pp_target pp) (pp_other pp);
  pf_finish pp merged infer_type word_wrap.

(* ================= parse.py: _merge_inner_function ================= *)

Definition stmt_children (s : stmt) : list stmt :=
  match s with
  | SFunc _ _ b _ _ => b
  | SClass _ _ b _ => b
  | SOther _ _ bl => concat bl
  | _ => []
  end.

Fixpoint stmt_size (s : stmt) : nat :=
  match s with
  | SFunc _ _ b _ _ => S (fold_right (fun x n => stmt_size x + n) 0 b)
  | SClass _ _ b _ => S (fold_right (fun x n => stmt_size x + n) 0 b)
  | SOther _ _ bl => S (fold_right (fun b n => fold_right (fun x m => stmt_size x + m) 0 b + n) 0 bl)
  | _ => 1
  end.

(* ast.walk: breadth first *)
Fixpoint walk_bfs (fuel : nat) (queue : list stmt) : list stmt :=
  match fuel with
  | O => []
  | S f =>
    match queue with
    | [] => []
    | s :: q => s :: walk_bfs f (q ++ stmt_children s)
    end
  end.

Definition walk_stmt (s : stmt) : list stmt := walk_bfs (S (stmt_size s)) [s].

(* statements whose nested blocks sit one level deeper in the real tree (handlers, match cases) *)
Definition uneven_depth (s : stmt) : bool :=
  match s with
  | SOther t _ _ => str_eqb t (L "Try") || str_eqb t (L "TryStar") || str_eqb t (L "Match")
  | _ => false
  end.

Definition find_inner_function (class_def : stmt) (name : str) : outcome (option stmt) :=
  let all := walk_stmt class_def in
  let hits := filter (fun s => match s with SFunc n _ _ _ _ => str_eqb n name | _ => false end) all in
  match hits with
  | [] => Ok None
  | [f] => Ok (Some f)
  | f :: _ => if existsb uneven_depth all then Err Unmodelled else Ok (Some f)
  end.

(* _merge_inner_function(class_def, infer_type, intermediate_repr, merge_inner_function);
   inner_doc_ir = the docstring IR of the function that ast.walk finds *)
Definition merge_inner_function (pi1 pj1 pi2 pj2 : perm) (class_def : stmt) (infer_type : bool)
           (target : ir) (name : str) (inner_doc_ir : option ir) : outcome ir :=
  do f <- find_inner_function class_def name;
  match f with
  | None => Ok target
  | Some (SFunc fname a body decos rets) =>
    let function_type := match ar_args a with [] => L "static" | x :: _ => a_name x end in
    do inner <- parse_function pi1 pj1 inner_doc_ir (SFunc fname a body decos rets) infer_type true
                               (Some function_type) (Some name);
    ir_merge pi2 pj2 target inner
  | Some _ => Ok target
  end.

(* ================= PySem: inspect.signature on the subset ================= *)

Inductive pkind : Type := PosOrKw | VarPos | KwOnly | VarKw.

Record sigparam : Type := mkSig {
  s_name : str;
  s_kind : pkind;
  s_default : option expr;
  s_ann : option expr
}.

(* inspect.signature(f).parameters.values() for  def f(<arguments>): ...  *)
Definition py_signature_raw (s : stmt) : option (list sigparam) :=
  match s with
  | SFunc _ a _ _ _ =>
    let np := List.length (ar_args a) in
    let nd := List.length (ar_defaults a) in
    if Nat.ltb np nd || negb (Nat.eqb (List.length (ar_kwonly a)) (List.length (ar_kw_defaults a)))
    then None
    else Some (
      map2 (fun x d => mkSig (a_name x) PosOrKw d (a_ann x)) (ar_args a)
           (repeat None (np - nd) ++ map Some (ar_defaults a))
      ++ (match ar_vararg a with Some x => [mkSig (a_name x) VarPos None (a_ann x)] | None => [] end)
      ++ map2 (fun x d => mkSig (a_name x) KwOnly d (a_ann x)) (ar_kwonly a) (ar_kw_defaults a)
      ++ (match ar_kwarg a with Some x => [mkSig (a_name x) VarKw None (a_ann x)] | None => [] end))
  | _ => None
  end.

(* the same minus a leading self / cls *)
Definition py_signature (s : stmt) : option (list sigparam) :=
  match py_signature_raw s with
  | Some (x :: r) =>
    if (match s_kind x with PosOrKw => true | _ => false end)
       && (str_eqb (s_name x) (L "self") || str_eqb (s_name x) (L "cls"))
    then Some r else Some (x :: r)
  | o => o
  end.

(* repr of the default object as CPython evaluates it: literals by value, anything else by source *)
Definition sig_default_repr (e : expr) : outcome str :=
  if negb (expr_ok e) then Err Unmodelled
  else match lit_eval e with
       | Ok v => Ok (lrepr v)
       | Err ValueError => Ok (show_expr e)
       | Err x => Err x
       end.

(* ================= wire ================= *)

Definition enc_pkind (k : pkind) : sexp :=
  match k with
  | PosOrKw => sym "POSITIONAL_OR_KEYWORD" | VarPos => sym "VAR_POSITIONAL"
  | KwOnly => sym "KEYWORD_ONLY" | VarKw => sym "VAR_KEYWORD"
  end.

Definition enc_sigparam (p : sigparam) : sexp :=
  SList [enc_str (s_name p); enc_pkind (s_kind p);
         enc_option (fun e => enc_outcome enc_str (sig_default_repr e)) (s_default p);
         enc_option (fun e => enc_str (show_expr e)) (s_ann p)].

Definition sig_exprs_ok (l : list sigparam) : bool :=
  forallb (fun p => match s_ann p with Some e => expr_ok e | None => true end) l
  && forallb (fun p => match s_default p with
                       | Some e => match sig_default_repr e with Ok _ => true | Err _ => false end
                       | None => true
                       end) l.

Definition ob {A B} (x : option A) (f : A -> option B) : option B :=
  match x with Some a => f a | None => None end.

(* FAMILY: run_parsesig *)
Definition run_parsesig (fn : sexp) (args : list sexp) : option sexp :=
  if is_sym "show_expr" fn then
    match args with
    | [e] => ob (dec_expr e) (fun e =>
             Some (if expr_ok e then enc_outcome enc_str (Ok (show_expr e)) else enc_outcome enc_str (Err Unmodelled)))
    | _ => None
    end
  else if is_sym "literal_eval" fn then
    match args with
    | [e] => ob (dec_expr e) (fun e =>
             Some (if expr_ok e
                   then enc_outcome (fun v => SList [enc_str (lrepr v); enc_str (lval_type_name v)]) (lit_eval e)
                   else enc_outcome enc_str (Err Unmodelled)))
    | _ => None
    end
  else if is_sym "repr_str" fn then
    match args with
    | [s] => ob (dec_str s) (fun s => Some (if ascii_only s then enc_str (repr_str s) else sym "non-ascii"))
    | _ => None
    end
  else if is_sym "set_name_and_type" fn then
    match args with
    | [n; p; it; ww] =>
      ob (dec_str n) (fun n => ob (dec_gparam p) (fun p => ob (dec_bool it) (fun it => ob (dec_bool ww) (fun ww =>
      Some (enc_outcome (enc_pair enc_str enc_gparam) (set_name_and_type n p it ww))))))
    | _ => None
    end
  else if is_sym "get_function_type" fn then
    match args with
    | [s] => ob (dec_stmt s) (fun s => match s with
                                       | SFunc _ a _ _ _ => Some (enc_str (get_function_type a))
                                       | _ => None
                                       end)
    | _ => None
    end
  else if is_sym "parse_function" fn then
    match args with
    | [pi; pj; d; s; it; ww; ft; fnm] =>
      ob (dec_list dec_str pi) (fun pi => ob (dec_list dec_str pj) (fun pj =>
      ob (dec_option dec_ir d) (fun d => ob (dec_stmt s) (fun s =>
      ob (dec_bool it) (fun it => ob (dec_bool ww) (fun ww =>
      ob (dec_option dec_str ft) (fun ft => ob (dec_option dec_str fnm) (fun fnm =>
      Some (enc_outcome enc_ir (parse_function (perm_of_order pi) (perm_of_order pj) d s it ww ft fnm))))))))))
    | _ => None
    end
  else if is_sym "merge_inner_function" fn then
    match args with
    | [pi1; pj1; pi2; pj2; c; it; t; n; d] =>
      ob (dec_list dec_str pi1) (fun pi1 => ob (dec_list dec_str pj1) (fun pj1 =>
      ob (dec_list dec_str pi2) (fun pi2 => ob (dec_list dec_str pj2) (fun pj2 =>
      ob (dec_stmt c) (fun c => ob (dec_bool it) (fun it => ob (dec_ir t) (fun t =>
      ob (dec_str n) (fun n => ob (dec_option dec_ir d) (fun d =>
      Some (enc_outcome enc_ir (merge_inner_function (perm_of_order pi1) (perm_of_order pj1)
                                  (perm_of_order pi2) (perm_of_order pj2) c it t n d)))))))))))
    | _ => None
    end
  else if is_sym "py_signature_raw" fn then
    match args with
    | [s] => ob (dec_stmt s) (fun s =>
             Some (match py_signature_raw s with
                   | Some l => if sig_exprs_ok l then SList [sym "some"; enc_list enc_sigparam l]
                               else enc_outcome enc_str (Err Unmodelled)
                   | None => sym "none"
                   end))
    | _ => None
    end
  else if is_sym "py_signature" fn then
    match args with
    | [s] => ob (dec_stmt s) (fun s =>
             Some (match py_signature s with
                   | Some l => if sig_exprs_ok l then SList [sym "some"; enc_list enc_sigparam l]
                               else enc_outcome enc_str (Err Unmodelled)
                   | None => sym "none"
                   end))
    | _ => None
    end
  else None.
