(* C02DocLinkDefs: the docstring layer of the config-class round trip C02, composed from the existing models.

   emit.py:class_ calls
       to_docstring(intermediate_repr (return entry folded into params), docstring_format, indent_level=1,
                    emit_separating_tab=True, emit_default_doc=emit_default_doc, emit_types=False, word_wrap=word_wrap)
   (DocEmit.to_docstring) and rewrites :param / :returns: into :cvar (EmitAst.class_docstring, applied inside
   EmitAst.emit_class to the text it is handed).
   parse.py:class_ calls
       parse.docstring(get_docstring(class_def).replace(":cvar", ":param"), emit_default_doc=False)
   where get_docstring = ast.get_docstring (clean=True: inspect.cleandoc, model SyncProps.cleandoc, which covers
   printable ASCII and newline: other text is declined as Unmodelled) and parse.docstring = DocParse.parse_dot_docstring
   with infer_type=False, emit_default_prop=True.

   doc_link_ok is the boolean side condition under which the link doc_agrees is proved (proofs/C02DocLink.v).
   Definitions only. *)
From Coq Require Import List Ascii Bool Arith ZArith.
From Coq Require String.
Import String.StringSyntax.
From DT Require Import PyStr Sexp PyVal TyExpr Extracted PureUtils Defaults PyAst IR EmitAst ParseAst.
From DT Require Import C17Spec C01Spec C02Spec C02Codec.
From DT Require DocEmit DocParse SyncProps C18Spec.
Import ListNotations.

(* ================= emitter side ================= *)

(* what emit.class_ receives from to_docstring (w = pure_utils.line_length) *)
Definition class_docstring_text (w : nat) (edd ww : bool) (i : ir) : outcome str :=
  do r <- DocEmit.to_docstring w (class_fold_returns i) edd DocEmit.Rest 1 false true ww;
  Ok (fst r).

(* ================= parser side ================= *)

(* ast.get_docstring(class_def) on the class emit.class_ built from that text: the value of the first statement
   (EmitAst.emit_class: set_value (class_docstring text)), cleaned by inspect.cleandoc *)
Definition class_get_docstring (text : str) : outcome str :=
  let ds := class_docstring text in
  if forallb SyncProps.doc_char_ok ds then Ok (SyncProps.cleandoc ds) else Err Unmodelled.

(* parse.docstring(get_docstring(class_def).replace(":cvar", ":param"), emit_default_doc=False) *)
Definition class_docstring_ir (text : str) : outcome ir :=
  do gd <- class_get_docstring text;
  DocParse.parse_dot_docstring DocParse.ng_unmodelled (replace (L ":cvar") (L ":param") gd) false true false.

(* the two composed, as one executable test of the link *)
Definition doc_link_b (w : nat) (edd ww : bool) (i : ir) : bool :=
  match class_docstring_text w edd ww i with
  | Ok text => match class_docstring_ir text with
               | Ok d => doc_agrees i d
               | Err _ => false
               end
  | Err _ => false
  end.

(* ================= the side condition ================= *)

Definition ascii_text (s : str) : bool := forallb SyncProps.doc_char_ok s.

(* a line of prose that the scanner, cleandoc and the line discipline of the parser leave alone:
   non-empty, no outer blanks, no line break, printable ASCII (a tab is expanded by cleandoc), no ReST field token
   (this covers :cvar and :param), no announcement phrase of its own *)
Definition link_line_ok (d : str) : bool :=
  match d with [] => false | _ => true end
  && clean_line d && ascii_text d && no_rest_token d && no_announce d.

(* a written line must not end in a backslash: to_docstring's multiline() strips trailing backslashes *)
Definition no_trailing_bslash (d : str) : bool :=
  match last_c d with Some c => negb (ascii_eqb c (ch 92)) | None => true end.

(* names: printable, no colon / line break, not starting with a star (all implied by C02_domain for parameter
   names), and not ending in kwargs (such an entry is read back under a normalised shape; not covered here) *)
Definition link_name_ok (n : str) : bool :=
  ascii_text n && negb (mem_c (ch 58) n) && negb (mem_c nl n)
  && match n with c :: _ => negb (ascii_eqb c (ch 42)) | [] => false end
  && negb (endswith (L "kwargs") n).

(* with emit_default_doc the sentence  Defaults to <value>  is appended to the prose of a documented entry that has a
   default and taken back by the parser (emit_default_doc=False there, no type line in a class docstring): the conditions
   of C17 for the sentence, a line-clean value text, and the value read without a declared type must settle *)
Definition sentence_ok (d : str) (v : pyval) (t : option str) : bool :=
  guard_C17 ADefaultsTo d v t
  && match shown_value v t with
     | Ok s =>
       value_text_clean s && ascii_text s && no_trailing_bslash s
       && match coerce_default None s with
          | Ok v1 =>
            match infer_res Missing (unquote_val v1) with
            | Ok (typ1, w1) => settled typ1 w1
            | Err _ => false
            end
          | Err _ => false
          end
     | Err _ => false
     end.

Definition link_entry_ok (edd : bool) (kv : str * gparam) : bool :=
  match prose_of (snd kv) with
  | None => true                                   (* not written into the docstring at all *)
  | Some d =>
    link_line_ok d && no_trailing_bslash d && link_name_ok (fst kv) && negb (starts_optional d)
    && (if edd then
          match g_default (snd kv) with
          | Some (DV v) => sentence_ok d v (fget (g_typ (snd kv)))
          | Some _ => false
          | None => true
          end
        else true)
  end.

Definition nowrap_ok (w : nat) (ww : bool) (s : str) : bool :=
  negb ww || (C18Spec.nowrap_line w s && Nat.ltb 0 w).

(* the lines that go through textwrap.fill when word_wrap is on *)
Definition entry_nowrap (w : nat) (edd ww : bool) (kv : str * gparam) : bool :=
  negb ww ||
  match prose_of (snd kv), param_of_gparam (snd kv) with
  | Some _, Some p =>
    match DocEmit.sdd_doc (fst kv) p edd with
    | Ok (line, _) => nowrap_ok w ww (DocEmit.rest_doc_line (fst kv) line)
    | Err _ => false
    end
  | _, _ => true
  end.

(* the side condition of the link: a summary line, at least one documented parameter (a docstring without any field
   token is read by the numpydoc parser, outside DocParse; with a documented return entry only, the text has a
   different layout, not covered here), every documented entry as above *)
Definition doc_link_ok (w : nat) (edd ww : bool) (i : ir) : bool :=
  match ir_doc i with Has d => link_line_ok d && nowrap_ok w ww d | _ => false end
  && existsb documented (ir_params i)
  && forallb (link_entry_ok edd) (ir_params (class_fold_returns i))
  && forallb (entry_nowrap w edd ww) (ir_params (class_fold_returns i)).
