(* C15Spec: property C15 (dotted locations) over the model Locate.v: the statement at full strength, the
   boolean guard of the proved region, the finding classes that make up its complement, and the frame
   specification of RewriteAtQuery.  Definitions only, executable (the harness evaluates them through the driver). *)
From Coq Require Import List Ascii Bool Arith ZArith.
From Coq Require String.
Import String.StringSyntax.
From DT Require Import PyStr Sexp PyVal PyAst Locate.
Import ListNotations.

(* ------------------------------------------------------------------ the lookup half *)
(* find_in_ast(q, ast_parse(src)) is the node whose qualified path is exactly q (same tree position, same
   content), or None when there is no such node *)
Definition C15_find_at (m : module) (q : list str) : Prop := find_view q m = Ok (resolve q m).

Definition C15_find_at_b (m : module) (q : list str) : bool :=
  match find_view q m, resolve q m with
  | Ok (Some (p1, n1)), Some (p2, n2) =>
    path_eqb p1 p2 &&
    match n1, n2 with
    | PMod a, PMod b => list_eqb stmt_eqb a b
    | PStmt a, PStmt b => stmt_eqb a b
    | PArg a, PArg b => arg_eqb a b
    | _, _ => false
    end
  | Ok None, None => true
  | _, _ => false
  end.

Definition C15_statement : Prop := forall m q, supported m = true -> C15_find_at m q.

(* ------------------------------------------------------------------ syntactic ingredients of the guard *)
Definition is_func (c : stmt) : bool := match c with SFunc _ _ _ _ _ => true | _ => false end.

Definition has_arg_named (y : str) (l : list arg) : bool := existsb (fun a => str_eqb (a_name a) y) l.

Definition func_named (y : str) (c : stmt) : bool :=
  match c with SFunc n _ _ _ _ => str_eqb n y | _ => false end.

Definition annassign_named (y : str) (c : stmt) : bool :=
  match c with
  | SAnnAssign t _ _ => match name_id t with Some i => str_eqb i y | None => false end
  | _ => false
  end.

Definition class_named (y : str) (c : stmt) : bool :=
  match c with SClass n _ _ _ => str_eqb n y | _ => false end.

(* an Assign whose _location names all that gen_module._members names: at most one target *)
Definition assign_ok (c : stmt) : bool :=
  match c with SAssign ts _ => Nat.leb (List.length ts) 1 | _ => true end.

(* body = pre ++ t :: post with t the first member called x *)
Fixpoint split_member (x : str) (b : list stmt) : option (list stmt * stmt * list stmt) :=
  match b with
  | [] => None
  | c :: r =>
    if is_member x c then Some ([], c, r)
    else match split_member x r with
         | Some (pre, t, post) => Some (c :: pre, t, post)
         | None => None
         end
  end.

(* ------------------------------------------------------------------ finding classes (code as of /repo 6d00342) *)
Inductive c15_class : Type :=
| K_deep_path              (* more than two segments and not class.method.arg: _location is parent + child only *)
| K_multi_target_assign    (* an Assign with several targets in the scope: _location carries the last target only *)
| K_annassign_prefix       (* x.y... where x is an annotated assignment: x itself is returned *)
| K_scope_self_name        (* C.C : the class itself is returned *)
| K_shadowed_definition    (* x is first bound by a plain assignment and later by a class, function or annotated assignment *)
| K_unresolved_fallthrough. (* x.y with x no scope: the leftover segment y matches an annotated assignment, a class, or the
                               last statement of the module *)

Definition class_name_C15 (k : c15_class) : str :=
  match k with
  | K_deep_path => L "path-deeper-than-parent-child"
  | K_multi_target_assign => L "multi-target-assignment"
  | K_annassign_prefix => L "annotated-assignment-as-prefix"
  | K_scope_self_name => L "member-named-like-its-class"
  | K_shadowed_definition => L "name-rebound-by-later-definition"
  | K_unresolved_fallthrough => L "unresolved-leftover-segment-matches-later"
  end.

(* the last step of a lookup: member y of the scope whose body is b *)
Definition leaf_lookup_class (b : list stmt) : option c15_class :=
  if negb (forallb assign_ok b) then Some K_multi_target_assign else None.

Definition last_func_named (y : str) (m : list stmt) : bool :=
  match rev m with c :: _ => func_named y c | [] => false end.

(* x.y where x is no function, class or annotated assignment at the point the cursor reaches it *)
Definition unresolved_head_class (x y : str) (m : list stmt) : option c15_class :=
  if existsb (fun c => func_named x c || annassign_named x c || class_named x c) m then Some K_shadowed_definition
  else if existsb (fun c => annassign_named y c || class_named y c) m || last_func_named y m
       then Some K_unresolved_fallthrough
  else None.

Definition finding_class_C15 (m : module) (q : list str) : option c15_class :=
  match q with
  | [] => None
  | [x] => leaf_lookup_class m
  | [x; y] =>
    match split_member x m with
    | Some (_, SFunc _ _ _ _ _, _) => None
    | Some (_, SClass _ _ body _, _) =>
      if str_eqb x y then Some K_scope_self_name else leaf_lookup_class body
    | Some (_, SAnnAssign _ _ _, _) => Some K_annassign_prefix
    | _ => unresolved_head_class x y m
    end
  | [x; y; z] =>
    match split_member x m with
    | Some (_, SFunc _ _ _ _ _, _) => None                 (* a function has no members: None on both sides *)
    | Some (_, SClass _ _ body _, _) =>
      match split_member y body with
      | Some (_, SFunc _ _ _ _ _, _) => None
      | _ => Some K_deep_path
      end
    | Some (_, SAnnAssign _ _ _, _) => Some K_annassign_prefix
    | _ => Some K_deep_path
    end
  | _ => Some K_deep_path
  end.

Definition guard_C15 (m : module) (q : list str) : bool :=
  supported m && match finding_class_C15 m q with None => true | Some _ => false end.

(* ------------------------------------------------------------------ the replacement half (frame) *)
(* Which positions RewriteAtQuery tests, in visit order, and what it may touch.  Over arbitrary annotated
   trees (stale or missing _locations included). *)

(* the node is a FunctionDef whose arguments are the addressed ones *)
Definition is_parent_func (search : loc) (s : astmt) : bool :=
  match s with AFunc _ l _ _ _ _ _ => oloc_eqb l (removelast search) | _ => false end.

(* s and s' are the same except for what visit_FunctionDef may do to an addressed parent function that has
   no addressed argument: rewrite entries of its positional defaults *)
Definition same_args (a b : aarguments) : Prop :=
  aar_args a = aar_args b /\ aar_kwonly a = aar_kwonly b /\ aar_kw_defaults a = aar_kw_defaults b
  /\ aar_vararg a = aar_vararg b /\ aar_kwarg a = aar_kwarg b
  /\ List.length (aar_defaults a) = List.length (aar_defaults b).

Inductive same_mod_defaults (search : loc) : astmt -> astmt -> Prop :=
| smd_refl : forall s, same_mod_defaults search s s
| smd_func : forall i l n a a' b d r,
    oloc_eqb l (removelast search) = true -> same_args a a' ->
    same_mod_defaults search (AFunc i l n a b d r) (AFunc i l n a' b d r)
| smd_class : forall i l n bs b b' d,
    Forall2 (same_mod_defaults search) b b' ->
    same_mod_defaults search (AClass i l n bs b d) (AClass i l n bs b' d)
| smd_other : forall i t h bl bl',
    Forall2 (Forall2 (same_mod_defaults search)) bl bl' ->
    same_mod_defaults search (AOther i t h bl) (AOther i t h bl').

(* identity of the first position the visit would replace *)
Definition first_arg_hit (search : loc) (l : list aarg) : option path :=
  option_map aa_id (List.find (fun a => oloc_eqb (aa_loc a) search) l).

Fixpoint first_hit (search : loc) (s : astmt) : option path :=
  match s with
  | AFunc _ l _ args _ _ _ =>
    if oloc_eqb l (removelast search) then
      match first_arg_hit search (aar_args args) with
      | Some p => Some p
      | None => first_arg_hit search (aar_kwonly args)
      end
    else None
  | AClass i l _ _ body _ =>
    if oloc_eqb l search then Some i
    else (fix go (b : list astmt) : option path :=
            match b with
            | [] => None
            | x :: r => match first_hit search x with Some p => Some p | None => go r end
            end) body
  | AOther _ _ _ blocks =>
    (fix gob (bl : list (list astmt)) : option path :=
       match bl with
       | [] => None
       | b :: rest =>
         match (fix go (b : list astmt) : option path :=
                  match b with
                  | [] => None
                  | x :: r => match first_hit search x with Some p => Some p | None => go r end
                  end) b with
         | Some p => Some p
         | None => gob rest
         end
       end) blocks
  | _ => if oloc_eqb (stmt_loc s) search then Some (stmt_id s) else None
  end.

Fixpoint first_hit_list (search : loc) (b : list astmt) : option path :=
  match b with
  | [] => None
  | x :: r => match first_hit search x with Some p => Some p | None => first_hit_list search r end
  end.

Fixpoint first_hit_blocks (search : loc) (bl : list (list astmt)) : option path :=
  match bl with
  | [] => None
  | b :: r => match first_hit_list search b with Some p => Some p | None => first_hit_blocks search r end
  end.

(* one list differs from the other by the replacement of exactly one argument, the first addressed one
   (whose identity is p) *)
Inductive arg_replaced (search : loc) (r : aarg) (p : path) : list aarg -> list aarg -> Prop :=
| ar_here : forall a rest, oloc_eqb (aa_loc a) search = true -> aa_id a = p ->
                           arg_replaced search r p (a :: rest) (r :: rest)
| ar_later : forall a rest rest', oloc_eqb (aa_loc a) search = false ->
                                  arg_replaced search r p rest rest' -> arg_replaced search r p (a :: rest) (a :: rest').

(* [replaced_in search r p s s']: s' is s with the node of identity p replaced by r, p being the first position,
   in visit order, that RewriteAtQuery tests and finds addressed; inside s everything visited before p had
   nothing addressed (and is unchanged up to same_mod_defaults), everything after p is unchanged.
   [replaced_first] is the same for a statement list.
   (A parent function that has an addressed argument in both of its lists gets both replaced: ri_func_pos, first
   disjunct; that needs stale _locations and never happens on a freshly annotated tree.) *)
Inductive replaced_in (search : loc) (r : anode) (p : path) : astmt -> astmt -> Prop :=
| ri_here : forall s rs,
    (forall i l n a b d x, s <> AFunc i l n a b d x) ->
    oloc_eqb (stmt_loc s) search = true -> stmt_id s = p -> node_as_stmt r = Ok rs ->
    replaced_in search r p s rs
| ri_func_pos : forall i l n a a' b d x ra,
    oloc_eqb l (removelast search) = true -> emit_arg r = Ok ra ->
    arg_replaced search ra p (aar_args a) (aar_args a') ->
    ((exists p', arg_replaced search ra p' (aar_kwonly a) (aar_kwonly a'))
     \/ (first_arg_hit search (aar_kwonly a) = None /\ aar_kwonly a' = aar_kwonly a)) ->
    aar_kw_defaults a' = aar_kw_defaults a -> aar_vararg a' = aar_vararg a -> aar_kwarg a' = aar_kwarg a ->
    List.length (aar_defaults a') = List.length (aar_defaults a) ->
    replaced_in search r p (AFunc i l n a b d x) (AFunc i l n a' b d x)
| ri_func_kw : forall i l n a a' b d x ra,
    oloc_eqb l (removelast search) = true -> emit_arg r = Ok ra ->
    first_arg_hit search (aar_args a) = None -> aar_args a' = aar_args a ->
    arg_replaced search ra p (aar_kwonly a) (aar_kwonly a') ->
    aar_kw_defaults a' = aar_kw_defaults a -> aar_vararg a' = aar_vararg a -> aar_kwarg a' = aar_kwarg a ->
    List.length (aar_defaults a') = List.length (aar_defaults a) ->
    replaced_in search r p (AFunc i l n a b d x) (AFunc i l n a' b d x)
| ri_class : forall i l n bs b b' d,
    oloc_eqb l search = false -> replaced_first search r p b b' ->
    replaced_in search r p (AClass i l n bs b d) (AClass i l n bs b' d)
| ri_other : forall i t h bl bl',
    replaced_first_blocks search r p bl bl' ->
    replaced_in search r p (AOther i t h bl) (AOther i t h bl')
with replaced_first (search : loc) (r : anode) (p : path) : list astmt -> list astmt -> Prop :=
| rf_head : forall s s' rest, replaced_in search r p s s' -> replaced_first search r p (s :: rest) (s' :: rest)
| rf_skip : forall s s' rest rest',
    first_hit search s = None -> same_mod_defaults search s s' ->
    replaced_first search r p rest rest' -> replaced_first search r p (s :: rest) (s' :: rest')
with replaced_first_blocks (search : loc) (r : anode) (p : path) : list (list astmt) -> list (list astmt) -> Prop :=
| rfb_head : forall b b' rest, replaced_first search r p b b' ->
                               replaced_first_blocks search r p (b :: rest) (b' :: rest)
| rfb_skip : forall b b' rest rest',
    first_hit_list search b = None -> Forall2 (same_mod_defaults search) b b' ->
    replaced_first_blocks search r p rest rest' -> replaced_first_blocks search r p (b :: rest) (b' :: rest').

(* the frame statement: whatever the tree, the search and the replacement node, a successful visit either
   replaced nothing (nothing addressed was there; the tree is the same up to same_mod_defaults) or replaced
   exactly the first addressed position by the visitor's final replacement_node *)
Definition C15_rewrite_frame : Prop :=
  forall search repl m m' st,
    search <> [] ->
    rewrite_visit search repl m = Ok (NMod m', st) ->
    (rw_replaced st = false /\ first_hit_list search m = None /\ Forall2 (same_mod_defaults search) m m')
    \/ (rw_replaced st = true /\ exists p, first_hit_list search m = Some p
                                          /\ replaced_first search (rw_node st) p m m').

(* "replacing at a location replaces that node once and no other", judged by resolve: the position the visit
   replaces on the freshly annotated module is the position of resolve q m, and nothing is replaced when q
   does not resolve.  FALSE of the code in general (C15_rewrite_refuted); it holds exactly when the first
   addressed position is resolve's (rw_guard_C15). *)
Definition C15_rewrite_at (m : module) (q : list str) : Prop :=
  first_hit_list q (annotate m) = option_map fst (resolve q m).

Definition opath_eqb (a b : option path) : bool :=
  match a, b with
  | Some x, Some y => path_eqb x y
  | None, None => true
  | _, _ => false
  end.

Definition rw_guard_C15 (m : module) (q : list str) : bool :=
  supported m && negb (const_hazard q (annotate m))
  && opath_eqb (first_hit_list q (annotate m)) (option_map fst (resolve q m)).

Inductive c15_rw_class : Type :=
| KR_function_target     (* the location names a FunctionDef: visit_FunctionDef never replaces the function itself *)
| KR_missed              (* the location exists but no tested node carries it as _location (depth, multi-target, nested scope) *)
| KR_collision           (* another node carrying the same _location is visited first and replaced instead *)
| KR_phantom             (* the location does not exist, yet a node carries it as _location and is replaced *)
| KR_constant.           (* a string constant outside every FunctionDef equals the last segment: annotate_ancestry gives
                            constants a _location too (parent_location + [value], not modelled) and the constant may be
                            the node that is replaced *)

Definition rw_class_name_C15 (k : c15_rw_class) : str :=
  match k with
  | KR_function_target => L "rewrite-function-not-replaceable"
  | KR_missed => L "rewrite-location-not-reached"
  | KR_collision => L "rewrite-same-location-collision"
  | KR_phantom => L "rewrite-phantom-location"
  | KR_constant => L "rewrite-string-constant-carries-location"
  end.

Definition rw_finding_class_C15 (m : module) (q : list str) : option c15_rw_class :=
  if const_hazard q (annotate m) then Some KR_constant else
  match first_hit_list q (annotate m), resolve q m with
  | None, None => None
  | Some h, Some (p, n) =>
    if path_eqb h p then None else Some KR_collision
  | None, Some (_, PStmt (SFunc _ _ _ _ _)) => Some KR_function_target
  | None, Some _ => Some KR_missed
  | Some _, None => Some KR_phantom
  end.

(* the same classification with tree positions counted from [root] (SyncProps annotates the output file from [0]) *)
Definition rw_finding_class_at (root : path) (m : module) (q : list str) : option c15_rw_class :=
  if const_hazard q (annotate_at root m) then Some KR_constant else
  match first_hit_list q (annotate_at root m), resolve_at root q m with
  | None, None => None
  | Some h, Some (p, n) =>
    if path_eqb h p then None else Some KR_collision
  | None, Some (_, PStmt (SFunc _ _ _ _ _)) => Some KR_function_target
  | None, Some _ => Some KR_missed
  | Some _, None => Some KR_phantom
  end.

(* ------------------------------------------------------------------ wire *)
(* FAMILY: run_c15 *)
Definition run_c15 (fn : sexp) (args : list sexp) : option sexp :=
  match args with
  | [q; m] =>
    let? q := dec_loc q in
    let? m := dec_module m in
    if is_sym "c15_class" fn then
      Some (if supported m then enc_option (fun k => enc_str (class_name_C15 k)) (finding_class_C15 m q)
            else sym "unsupported")
    else if is_sym "c15_holds" fn then
      Some (if supported m then enc_bool (C15_find_at_b m q) else sym "unsupported")
    else if is_sym "c15_rw_class" fn then
      Some (if supported m then enc_option (fun k => enc_str (rw_class_name_C15 k)) (rw_finding_class_C15 m q)
            else sym "unsupported")
    else None
  | _ => None
  end.
