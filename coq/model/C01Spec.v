(* C01Spec: property C01 (docstring round trip) for the ReST style over the models DocParse /
   Defaults: the comparison relations ("same interface"), the domain, the boolean guard of the
   proved region and the finding classes that make up its complement.  Definitions only
   (executable: the harness evaluates them through the driver). *)
From Coq Require Import List Ascii Bool Arith ZArith.
From Coq Require String.
Import String.StringSyntax.
From DT Require Import PyStr Sexp PyVal TyExpr PureUtils Defaults PyAst IR Extracted C17Spec DocParse.
Import ListNotations.

(* ------------------------------------------------------------------ comparison relations *)

(* d.get(k) is falsy: key missing, None or the empty string -- what the emitters test *)
Definition fld_str (f : fld str) : option str :=
  match f with Has (c :: r) => Some (c :: r) | _ => None end.

Definition opt_eqb {A} (eq : A -> A -> bool) (a b : option A) : bool :=
  match a, b with
  | None, None => true
  | Some x, Some y => eq x y
  | _, _ => false
  end.

Definition same_typ (g g' : gparam) : bool := opt_eqb str_eqb (fld_str (g_typ g)) (fld_str (g_typ g')).

(* exact prose *)
Definition same_prose (g g' : gparam) : bool := opt_eqb str_eqb (fld_str (g_doc g)) (fld_str (g_doc g')).

(* the prose with the default sentence, as the emitter writes it *)
Definition sentence_doc (name : str) (g : gparam) : option str :=
  match param_of_gparam g with
  | Some p => match set_default_doc name p true with
              | Ok p' => fld_str (p_doc p')
              | Err _ => None
              end
  | None => None
  end.

(* prose modulo the default sentence (what a parse that keeps the sentence hands back) *)
Definition same_prose_dflt (name : str) (g g' : gparam) : bool :=
  same_prose g g'
  || match sentence_doc name g, fld_str (g_doc g') with
     | Some x, Some y => str_eqb x y
     | _, _ => false
     end.

Definition none_like_d (d : dval) : bool := match d with DV v => none_like v | _ => false end.

(* same value with the same Python type; None travels as None, the str None or NoneStr.
   Both sides are values stored in IRs (the consumer's unquote has already happened). *)
Definition same_default_ir (a b : option dval) : bool :=
  match a, b with
  | None, None => true
  | Some x, Some y => dval_eqb x y || (none_like_d x && none_like_d y)
  | _, _ => false
  end.

(* [keep_sentence]: the parse kept the default sentence in the prose (emit_default_doc=True) *)
Definition same_entry (keep_sentence : bool) (name : str) (g g' : gparam) : bool :=
  same_typ g g'
  && (if keep_sentence then same_prose_dflt name g g' else same_prose g g')
  && same_default_ir (g_default g) (g_default g').

Fixpoint same_params (keep_sentence : bool) (a b : list (str * gparam)) : bool :=
  match a, b with
  | [], [] => true
  | (n, g) :: a', (n', g') :: b' =>
    str_eqb n n' && same_entry keep_sentence n g g' && same_params keep_sentence a' b'
  | _, _ => false
  end.

Definition fld_opt {A} (f : fld A) : option A := match f with Has a => Some a | _ => None end.

Definition same_returns (keep_sentence : bool) (r r' : fld gparam) : bool :=
  opt_eqb (same_entry keep_sentence (L "return_type")) (fld_opt r) (fld_opt r').

Definition same_summary (i i' : ir) : bool := opt_eqb str_eqb (fld_opt (ir_doc i)) (fld_opt (ir_doc i')).

(* names and order, types, prose, defaults with Python type, return entry, summary *)
Definition same_interface (keep_sentence : bool) (i i' : ir) : bool :=
  same_summary i i'
  && same_params keep_sentence (ir_params i) (ir_params i')
  && same_returns keep_sentence (ir_returns i) (ir_returns i').

(* ------------------------------------------------------------------ the domain *)

Definition no_rest_token (x : str) : bool :=
  forallb (fun t => negb (contains t x)) Extracted.rest_tokens.

Definition is_ident (n : str) : bool :=
  match n with
  | c :: _ => is_id_start c && forallb is_id_char n
  | [] => false
  end.

Fixpoint nodup_str (l : list str) : bool :=
  match l with
  | [] => true
  | x :: r => negb (existsb (str_eqb x) r) && nodup_str r
  end.

Definition is_ok {A} (o : outcome A) : bool := match o with Ok _ => true | Err _ => false end.

(* a declared type of the supported grammar: it parses, and is free of the characters no type
   expression of that grammar contains *)
Definition type_in_domain (t : str) : bool :=
  is_ok (needs_quoting (Some t))
  && negb (mem_c bt t) && negb (mem_c nl t) && str_eqb (strip t) t && no_rest_token t
  && negb (endswith google_opt t) && negb (startswith (L "**") t).

Definition entry_in_domain (g : gparam) : bool :=
  (match g_doc g with Missing => true | Has d => no_rest_token d | FNone => false end)
  && (match g_typ g with Missing => true | Has t => type_in_domain t | FNone => false end)
  && (match g_default g with None | Some (DV _) => true | Some _ => false end).

Definition in_domain_C01 (i : ir) : bool :=
  (match ir_doc i with Has d => no_rest_token d | _ => false end)
  && forallb (fun kv => is_ident (fst kv) && negb (str_eqb (fst kv) (L "return_type"))
                        && entry_in_domain (snd kv)) (ir_params i)
  && nodup_str (map fst (ir_params i))
  && (match ir_returns i with Has g => entry_in_domain g | _ => true end).

(* ------------------------------------------------------------------ finding classes *)

Inductive c01_class : Type :=
| K01_no_entries              (* neither parameters nor a return entry: the text has no ReST token, it is read as numpydoc *)
| K01_entry_vanishes          (* an entry with neither prose nor type is not written at all *)
| K01_type_only_default_lost  (* type without prose: the default is only ever written into prose *)
| K01_prose_only_type_invented(* prose without type: the type is invented from the default *)
| K01_summary_shape           (* summary with outer blanks (stripped by the parser) *)
| K01_prose_shape             (* prose with line breaks or outer blanks: re-indented, joined, stripped *)
| K01_prose_optional          (* prose starting with Optional: a type not already Optional[...] is wrapped in Optional[...] *)
| K01_prose_announces         (* prose that itself announces a default: a default is invented or misplaced *)
| K01_default (k : c17_class) (* the default does not survive its sentence: class of property C17 *)
| K01_default_text            (* value text that the line discipline alters (line break, trailing blank, token inside) *)
| K01_default_before_type     (* sentence removed on the first pass: the value is read before the type is known *)
| K01_default_settle          (* _infer_default alters the value or the type (unquoted again, code quoted, None-like) *)
| K01_kwargs_shape            (* kwargs-named parameter outside its canonical shape: type and default are normalised *)
| K01_return_default          (* a return entry with a default: back-ticks lost, or literal_eval raises *)
| K01_word_wrap               (* emitted with word_wrap: textwrap.fill re-flows the text *)
| K01_unmodelled.             (* outside the modelled fragment *)

Definition c01_class_name (k : c01_class) : str :=
  match k with
  | K01_no_entries => L "no-entries-read-as-numpydoc"
  | K01_entry_vanishes => L "entry-without-prose-and-type-vanishes"
  | K01_type_only_default_lost => L "type-without-prose-loses-default"
  | K01_prose_only_type_invented => L "prose-without-type-invents-type"
  | K01_summary_shape => L "summary-outer-blanks"
  | K01_prose_shape => L "prose-line-breaks-or-outer-blanks"
  | K01_prose_optional => L "prose-starts-with-Optional"
  | K01_prose_announces => L "prose-announces-default"
  | K01_default k => L "default:" ++ class_name k
  | K01_default_text => L "default-text-altered-by-line-discipline"
  | K01_default_before_type => L "default-read-before-type-known"
  | K01_default_settle => L "default-altered-by-infer-default"
  | K01_kwargs_shape => L "kwargs-shape-normalised"
  | K01_return_default => L "return-entry-with-default"
  | K01_word_wrap => L "emitter-word-wrap-reflows"
  | K01_unmodelled => L "unmodelled"
  end.

(* ---- per-entry conditions ---- *)

(* text that survives strip, the line join of _set_name_and_type and the scanner *)
Definition clean_line (x : str) : bool :=
  str_eqb (strip x) x && negb (mem_c nl x).

Definition starts_optional (d : str) : bool :=
  startswith (L "(Optional)") d || startswith (L "Optional") d.

(* the value text of a default sentence must itself be line-clean *)
Definition value_text_clean (s : str) : bool :=
  negb (mem_c nl s) && no_rest_token s
  && match last_c s with Some c => negb (isspace c) | None => false end.

(* typ and default after _infer_default, prose left aside (it is passed through) *)
Definition infer_res (typ : fld str) (w : pyval) : outcome (fld str * pyval) :=
  match infer_default (mkParam Missing typ (Some w)) false with
  | Ok p => match p_default p with Some w' => Ok (p_typ p, w') | None => Err Unmodelled end
  | Err e => Err e
  end.

Definition fld_eqb (a b : fld str) : bool :=
  match a, b with
  | Missing, Missing => true
  | FNone, FNone => true
  | Has x, Has y => str_eqb x y
  | _, _ => false
  end.

Definition same_val (v w : pyval) : bool := pyval_eqb v w || (none_like v && none_like w).

(* is (typ, w) left alone by _infer_default *)
Definition settled (typ : fld str) (w : pyval) : bool :=
  match infer_res typ w with
  | Ok (typ', w') => fld_eqb typ' typ && pyval_eqb w' w
  | Err _ => false
  end.

(* The journey of a parameter's default through _parse_phase_rest, given the value text s of its
   sentence, the declared type (None when there is no type line) and the original value v:
   first pass without the type; later passes with it.  Returns the class of what goes wrong. *)
Definition default_journey (keep_sentence : bool) (typ : option str) (s : str) (v : pyval) : option c01_class :=
  match coerce_default None s with
  | Err Unmodelled => Some K01_unmodelled
  | Err _ => Some K01_default_before_type
  | Ok v1 =>
    match infer_res Missing (unquote_val v1) with
    | Err Unmodelled => Some K01_unmodelled
    | Err _ => Some K01_default_settle
    | Ok (typ1, w1) =>
      match typ with
      | None =>
        (* no type line: what the first pass inferred stays *)
        if negb (fld_eqb typ1 Missing) then Some K01_prose_only_type_invented
        else if keep_sentence then
          (if same_val v (unquote_val v1) then None else Some K01_default_before_type)
        else if negb (settled Missing w1) then Some K01_default_settle
        else if same_val v w1 then None else Some K01_default_before_type
      | Some t =>
        if keep_sentence then
          match coerce_default (Some t) s with
          | Err Unmodelled => Some K01_unmodelled
          | Err e => Some (K01_default K_typed_literal)
          | Ok v2 =>
            match infer_res (Has t) (unquote_val v2) with
            | Err Unmodelled => Some K01_unmodelled
            | Err _ => Some K01_default_settle
            | Ok (typ2, _) =>
              if negb (fld_eqb typ2 (Has t)) then Some K01_default_settle
              else if same_val v (unquote_val v2) then None else Some (K01_default K_typed_literal)
            end
          end
        else
          match infer_res (Has t) w1 with
          | Err Unmodelled => Some K01_unmodelled
          | Err _ => Some K01_default_settle
          | Ok (typ2, w2) =>
            if negb (fld_eqb typ2 (Has t)) || negb (settled (Has t) w2) then Some K01_default_settle
            else if same_val v w2 then None else Some K01_default_before_type
          end
      end
    end
  end.

(* a parameter entry *)
Definition param_class (keep_sentence : bool) (name : str) (g : gparam) : option c01_class :=
  let typ := fld_str (g_typ g) in
  match fld_str (g_doc g), g_default g with
  | None, dflt =>
    match typ with
    | None => Some K01_entry_vanishes
    | Some t =>
      if endswith (L "kwargs") name then Some K01_kwargs_shape
      else match dflt with Some _ => Some K01_type_only_default_lost | None => None end
    end
  | Some d, dflt =>
    if negb (clean_line d) then Some K01_prose_shape
    else if starts_optional d then Some K01_prose_optional
    else if negb (no_announce d) then Some K01_prose_announces
    else if endswith (L "kwargs") name then
      (* canonical shape: a type other than dict, default None or NoneStr (no sentence is written) *)
      match typ, dflt with
      | Some t, Some (DV v) =>
        if (pyval_eqb v VNone || pyval_eqb v (VStr NoneStr)) && negb (str_eqb t (L "dict"))
        then None else Some K01_kwargs_shape
      | _, _ => Some K01_kwargs_shape
      end
    else
      match dflt with
      | None => None
      | Some (DV v) =>
        match finding_class_C17 ADefaultsTo d v typ with
        | Some K_unmodelled => Some K01_unmodelled
        | Some k => Some (K01_default k)
        | None =>
          match shown_value v typ with
          | Err _ => Some K01_unmodelled
          | Ok s =>
            if negb (value_text_clean s) then Some K01_default_text
            else default_journey keep_sentence typ s v
          end
        end
      | Some _ => Some K01_unmodelled
      end
  end.

(* the return entry: no _set_name_and_type, no _infer_default; prose is only stripped *)
Definition return_class (g : gparam) : option c01_class :=
  match fld_str (g_doc g), fld_str (g_typ g) with
  | None, None => Some K01_entry_vanishes
  | odoc, _ =>
    match g_default g with
    | Some _ => Some K01_return_default
    | None =>
      match odoc with
      | Some d => if negb (clean_line d) then Some K01_prose_shape
                  else if negb (no_announce d) then Some K01_prose_announces
                  else None
      | None => None
      end
    end
  end.

Fixpoint first_class {A} (f : A -> option c01_class) (l : list A) : option c01_class :=
  match l with
  | [] => None
  | x :: r => match f x with Some k => Some k | None => first_class f r end
  end.

(* ---- emission with word_wrap: where textwrap.fill is the identity ---- *)
Definition plain_blank_only (x : str) : bool :=
  forallb (fun c => negb (isspace c) || ascii_eqb c sp) x.

Definition fill_noop_line (x : str) : bool :=
  Nat.leb (List.length x) Extracted.line_length_default
  && plain_blank_only x && str_eqb (strip x) x.

Definition fill_noop (i : ir) : bool :=
  (match ir_doc i with Has d => fill_noop_line d | _ => false end)
  && forallb (fun kv => match rest_param_lines (fst kv) (snd kv) with
                        | Ok ls => forallb fill_noop_line ls
                        | Err _ => false
                        end) (ir_params i)
  && (match ir_returns i with
      | Has g => match rest_param_lines (L "return_type") g with
                 | Ok ls => forallb fill_noop_line ls
                 | Err _ => false
                 end
      | _ => true
      end).

(* ---- the classifier ---- *)
Definition finding_class_C01_rest (word_wrap keep_sentence : bool) (i : ir) : option c01_class :=
  if word_wrap && negb (fill_noop i) then Some K01_word_wrap
  else
  match ir_params i, fld_opt (ir_returns i) with
  | [], None => Some K01_no_entries
  | ps, r =>
    if negb (match ir_doc i with Has d => str_eqb (strip d) d | _ => false end) then Some K01_summary_shape
    else
      match first_class (fun kv => param_class keep_sentence (fst kv) (snd kv)) ps with
      | Some k => Some k
      | None => match r with Some g => return_class g | None => None end
      end
  end.

(* the proved region: in the domain, and outside every class (emission without word wrap) *)
Definition guard_C01_rest (keep_sentence : bool) (i : ir) : bool :=
  in_domain_C01 i
  && match finding_class_C01_rest false keep_sentence i with None => true | Some _ => false end.

(* ------------------------------------------------------------------ the property at one IR *)

(* emit (specification printer = emit.docstring, rest, word_wrap off, default sentences on), recognise the
   style, parse with parse.docstring(text, emit_default_doc=keep_sentence), compare *)
Definition C01_rest_at (keep_sentence : bool) (i : ir) : Prop :=
  exists text i',
    rest_text_of i = Ok text
    /\ detect_style (Some text) = Rest
    /\ parse_dot_docstring ng_unmodelled text false true keep_sentence = Ok i'
    /\ same_interface keep_sentence i i' = true.

Definition C01_rest_at_b (keep_sentence : bool) (i : ir) : bool :=
  match rest_text_of i with
  | Ok text =>
    (match detect_style (Some text) with Rest => true | _ => false end)
    && match parse_dot_docstring ng_unmodelled text false true keep_sentence with
       | Ok i' => same_interface keep_sentence i i'
       | Err _ => false
       end
  | Err _ => false
  end.

Definition c01_touches_unmodelled (keep_sentence : bool) (i : ir) : bool :=
  match rest_text_of i with
  | Ok text => is_unmodelled (parse_dot_docstring ng_unmodelled text false true keep_sentence)
  | Err Unmodelled => true
  | Err _ => false
  end.

(* ------------------------------------------------------------------ wire *)

Definition opt_bind2 {A B} (x : option A) (f : A -> option B) : option B :=
  match x with Some a => f a | None => None end.
Notation "'let??' x := e1 'in' e2" := (opt_bind2 e1 (fun x => e2))
  (at level 200, x pattern, e1 at level 100, e2 at level 200).

(* FAMILY: run_c01rest *)
Definition run_c01rest (fn : sexp) (args : list sexp) : option sexp :=
  if is_sym "c01_class_rest" fn then
    match args with
    | [ww; keep; i] =>
      let?? ww := dec_bool ww in
      let?? keep := dec_bool keep in
      let?? i := dec_ir i in
      Some (if negb (in_domain_C01 i) then sym "out-of-domain"
            else enc_option (fun k => enc_str (c01_class_name k)) (finding_class_C01_rest ww keep i))
    | _ => None
    end
  else if is_sym "c01_same_interface" fn then
    match args with
    | [keep; i; i'] =>
      let?? keep := dec_bool keep in
      let?? i := dec_ir i in
      let?? i' := dec_ir i' in
      Some (SList [enc_bool (same_summary i i');
                   enc_bool (same_params keep (ir_params i) (ir_params i'));
                   enc_bool (same_returns keep (ir_returns i) (ir_returns i'))])
    | _ => None
    end
  else if is_sym "c01_holds_rest" fn then
    match args with
    | [keep; i] =>
      let?? keep := dec_bool keep in
      let?? i := dec_ir i in
      Some (if c01_touches_unmodelled keep i then sym "unmodelled" else enc_bool (C01_rest_at_b keep i))
    | _ => None
    end
  else if is_sym "rest_text_ww" fn then
    (* the text emitted WITH word_wrap, where the model claims fill changes nothing *)
    match args with
    | [i] => let?? i := dec_ir i in
             Some (enc_outcome enc_str (if fill_noop i then rest_text_of i else Err Unmodelled))
    | _ => None
    end
  else None.
