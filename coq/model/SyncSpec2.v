(* SyncSpec2: the finding classes of the sync properties (C09, C10, C11) refined by two observations that the
   classifiers of model/SyncSpec.v do not have (definitions only; nothing of SyncSpec.v is changed).

   (A) same-named-definition-in-non-scope-statement-replaced
       annotate_ancestry gives a class defined inside a statement that opens no scope (an `if` or `else` branch, a `try`
       body, a `with` / `for` / `while` body: none of these nodes has a `name`) the location [its own name], the same
       location as the module-level class of that name, and RewriteAtQuery replaces the FIRST node (in visit order) that
       carries the searched location.  With such a stand-in before a stale class target, find_in_ast returns the
       module-level class (it only walks the module body), the comparison says differs, and the rewrite overwrites the
       stand-in: the named definition stays stale, and every later run overwrites the stand-in again, reports modified
       and writes identical bytes.  The REPLACE law of proofs/SyncFacts.v fails (what is replaced is not what was found).
       An except-handler has a name attribute (None or the bound name), so a stand-in in a handler has another location
       and is not concerned.
   (B) forward-declared-function-target-raises
       a function / argparse-function target whose name is bound by an assignment above the definition
       (`train = None ... def train(...)`): find_in_ast returns the first node whose location is the searched one, which
       is the assignment; _default_options hands it to get_function_type, whose `assert isinstance(node, FunctionDef)`
       fails before the emitter is entered.  sync raises AssertionError on every run and writes nothing for this target
       (nor for the targets after it).  The FIND law fails (the node found is not the definition).

   Each refined classifier returns the old class when SyncSpec has one and otherwise tests the new clause on the
   recorded observations (facts in proofs/SyncSpec2Facts.v: the refinement only ever ADDS the two classes). *)
From Coq Require Import List Ascii Bool Arith ZArith.
From Coq Require String.
Import String.StringSyntax.
From DT Require Import PyStr Sexp PyVal FS Sync SyncSpec.
Import ListNotations.

(* one recorded _conform_filename call: the observations of SyncSpec plus four more *)
Record call_obs2 : Type := mkObs2 {
  ob2_base : call_obs;
  ob2_standin_first : bool;   (* in the file before the call, the first node in the rewrite's visit order that carries the
                                 target's location and is not a FunctionDef is a class definition nested in statements
                                 that open no scope - not a statement of the target's own scope *)
  ob2_found_assign : bool;    (* the node find_in_ast returned is an Assign / AnnAssign *)
  ob2_fun_kind : bool;        (* the target kind is function or argparse_function (type_wanted = FunctionDef) *)
  ob2_assert_before_emit : bool  (* the call raised AssertionError after the file was parsed and before the emitter was entered *)
}.

Inductive sync_class2 : Type :=
| K2_old (k : sync_class)
| K2_standin_replaced            (* (A) *)
| K2_forward_declared_raises.    (* (B) *)

Definition sync_class2_name (k : sync_class2) : str :=
  match k with
  | K2_old k' => sync_class_name k'
  | K2_standin_replaced => L "same-named-definition-in-non-scope-statement-replaced"
  | K2_forward_declared_raises => L "forward-declared-function-target-raises"
  end.

(* the law instance of (A) on one call: the definition was found at its place, differs, something was replaced, the
   rewrite did not hit an assignment (that is same-named-binding-replaced), and what it hit first is the nested stand-in.
   Dotted targets are not concerned: a stand-in nested in a statement inside the enclosing class has the location
   [its name], not [class, name]. *)
Definition standin_replaced_on (dotted : bool) (c : call_obs2) : bool :=
  let b := ob2_base c in
  negb dotted && ob_found b && negb (ob_cmp b) && ob_replaced b && negb (ob_rebinding b) && ob2_standin_first c.

(* the law instance of (B) on one call *)
Definition forward_declared_raises_on (c : call_obs2) : bool :=
  ob_found (ob2_base c) && ob2_found_assign c && ob2_fun_kind c && ob2_assert_before_emit c.

(* first run / the run after the truth was edited: judged on that run's call alone *)
Definition classify_install_r (dotted : bool) (c0 : call_obs2) : option sync_class2 :=
  match classify_install dotted (ob2_base c0) with
  | Some k => Some (K2_old k)
  | None => if standin_replaced_on dotted c0 then Some K2_standin_replaced else None
  end.

(* a repetition: judged on the second run's call *)
Definition classify_repeat_r (dotted : bool) (c0 : call_obs2) (c1 : option call_obs2) : option sync_class2 :=
  match classify_repeat dotted (ob2_base c0) (option_map ob2_base c1) with
  | Some k => Some (K2_old k)
  | None =>
    match c1 with
    | Some c => if standin_replaced_on dotted c then Some K2_standin_replaced else None
    | None => None
    end
  end.

Definition classify_target_r (dotted : bool) (c0 : call_obs2) (c1 : option call_obs2) : option sync_class2 :=
  classify_repeat_r dotted c0 c1.

(* C11: as SyncSpec.classify_frame, over the refined class of the target *)
Definition classify_frame_r (only_module_docstring_differs only_docstrings_differ whole_module_rewrite : bool)
           (target_class : option sync_class2) : option sync_class2 :=
  match classify_frame only_module_docstring_differs only_docstrings_differ whole_module_rewrite None with
  | Some k => Some (K2_old k)
  | None => target_class
  end.

(* a sync that RAISES: SyncSpec has no class for it (a raise is outside every old class); judged on the call that raised *)
Definition classify_raise_r (c : call_obs2) : option sync_class2 :=
  if forward_declared_raises_on c then Some K2_forward_declared_raises else None.

(* the refined region: no old class, no new class, on both runs *)
Definition guard_sync_target_r (dotted : bool) (c0 : call_obs2) (c1 : option call_obs2) : bool :=
  match classify_install_r dotted c0, classify_target_r dotted c0 c1, classify_raise_r c0 with
  | None, None, None => match c1 with Some c => match classify_raise_r c with None => true | Some _ => false end | None => true end
  | _, _, _ => false
  end.

(* wire: (base-observations standin-first found-assign fun-kind assert-before-emit) *)
Definition dec_obs2 (e : sexp) : option call_obs2 :=
  match e with
  | SList [b; s; a; f; r] =>
    match dec_obs b, dec_bool s, dec_bool a, dec_bool f, dec_bool r with
    | Some b, Some s, Some a, Some f, Some r => Some (mkObs2 b s a f r)
    | _, _, _, _, _ => None
    end
  | _ => None
  end.

Definition enc_class2 (k : option sync_class2) : sexp := enc_option (fun k => enc_str (sync_class2_name k)) k.

(* FAMILY: run_syncr *)
Definition run_syncr (fn : sexp) (args : list sexp) : option sexp :=
  if is_sym "sync_class_r" fn then
    match args with
    | [d; c0; c1] =>
      match dec_bool d, dec_obs2 c0, dec_option dec_obs2 c1 with
      | Some d, Some c0, Some c1 => Some (enc_class2 (classify_target_r d c0 c1))
      | _, _, _ => None
      end
    | _ => None
    end
  else if is_sym "install_class_r" fn then
    match args with
    | [d; c0] =>
      match dec_bool d, dec_obs2 c0 with
      | Some d, Some c0 => Some (enc_class2 (classify_install_r d c0))
      | _, _ => None
      end
    | _ => None
    end
  else if is_sym "frame_class_r" fn then
    match args with
    | [od; ods; wm; d; c0; c1] =>
      match dec_bool od, dec_bool ods, dec_bool wm, dec_bool d, dec_obs2 c0, dec_option dec_obs2 c1 with
      | Some od, Some ods, Some wm, Some d, Some c0, Some c1 =>
        Some (enc_class2 (classify_frame_r od ods wm (classify_target_r d c0 c1)))
      | _, _, _, _, _, _ => None
      end
    | _ => None
    end
  else if is_sym "raise_class_r" fn then
    match args with
    | [c] =>
      match dec_obs2 c with
      | Some c => Some (enc_class2 (classify_raise_r c))
      | None => None
      end
    | _ => None
    end
  else None.
