(* Gen: executable model of doctrans/gen.py:gen (content assembly, per-entry dispatch, __all__,
   re-parse, import hoisting, append-mode write) and of the `gen` sub-command of
   doctrans/__main__.py:main (argument shape, --prepend unicode_escape decoding, refusal when the
   output file exists).  Definitions only.

   What is an INPUT of this model rather than computed by it (supplied by the harness from the
   real interpreter, or quantified over in the theorems):
   - parse_src : str -> option (list top)   what ast.parse makes of a text: None = SyntaxError,
     otherwise the top-level statements, each with its kind tag and its ast.unparse text;
   - for every entry of the input mapping: whether the object is a function, and what
     parse.function / parse.class_ and emit.<type> did with it (raised, or the to_code text);
   - the text of the file named by imports_from_file, what resolving input_mapping gave, and
     whether executing the import statements of `prepend` raised.
   Exceptions are carried by the name of their Python class. *)
From Coq Require Import List Ascii Bool Arith ZArith.
From Coq Require String.
Import String.StringSyntax.
From DT Require Import PyStr Sexp PyVal.
Import ListNotations.

(* ------------------------------------------------------------------ outcomes *)
Definition exn := str.
Inductive gout (A : Type) : Type :=
| GOk (a : A)
| GErr (k : exn).
Arguments GOk {A} a.
Arguments GErr {A} k.

Definition xUnmodelled : exn := L "Unmodelled".
Definition xSyntaxError : exn := L "SyntaxError".
Definition xTypeError : exn := L "TypeError".
Definition xValueError : exn := L "ValueError".
Definition xKeyError : exn := L "KeyError".
Definition xIndexError : exn := L "IndexError".
Definition xIOError : exn := L "IOError".

Definition gbind {A B} (x : gout A) (f : A -> gout B) : gout B :=
  match x with GOk a => f a | GErr k => GErr k end.

(* ------------------------------------------------------------------ top-level statements *)
(* One top-level statement of a parsed module, as far as gen looks at it.
   text = ast.unparse(node); for a string expression statement doctext is how ast.unparse
   renders it when it is the first statement of a Module (triple-quoted docstring form) and
   truthy = bool(inspect.cleandoc(value)), which is what `if doc_str` tests when it is first. *)
Inductive top : Type :=
| TStr (truthy : bool) (text doctext : str)
| TImport (modname : option str) (text : str)   (* Import: None; ImportFrom: its .module *)
| TDef (is_class : bool) (name : str) (text : str)   (* FunctionDef / AsyncFunctionDef / ClassDef *)
| TAll (names : list str) (text : str)          (* __all__ = [<str constants>] *)
| TOther (text : str).

Definition top_text (t : top) : str :=
  match t with
  | TStr _ s _ => s
  | TImport _ s => s
  | TDef _ _ s => s
  | TAll _ s => s
  | TOther s => s
  end.

(* isinstance(node, (Import, ImportFrom)) *)
Definition is_import (t : top) : bool :=
  match t with TImport _ _ => true | _ => false end.

(* getattr(node, "module", None) == "__future__" *)
Definition is_future (t : top) : bool :=
  match t with
  | TImport (Some m) _ => str_eqb m (L "__future__")
  | _ => false
  end.

Definition is_plain_import (t : top) : bool := is_import t && negb (is_future t).
Definition is_def (t : top) : bool := match t with TDef _ _ _ => true | _ => false end.

(* ast_utils.py:get_at_root(node, (Import, ImportFrom)) *)
Definition get_at_root_imports (body : list top) : list top := filter is_import body.

(* bool(ast.get_docstring(module)) *)
Definition has_doc (body : list top) : bool :=
  match body with TStr true _ _ :: _ => true | _ => false end.

(* ast.unparse(Module(body)): statements on successive lines, a blank line before every
   def/class that is not the first thing written, a leading string statement in docstring form *)
Definition first_text (t : top) : str :=
  match t with TStr _ _ d => d | _ => top_text t end.

Definition sep_before (t : top) : str := if is_def t then [nl; nl] else [nl].

Fixpoint unparse_rest (body : list top) : str :=
  match body with
  | [] => []
  | t :: r => sep_before t ++ top_text t ++ unparse_rest r
  end.

Definition unparse_module (body : list top) : str :=
  match body with
  | [] => []
  | t :: r => first_text t ++ unparse_rest r
  end.

(* gen.py:gen, the block from `doc_str = ast.get_docstring(parsed_ast)` to `parsed_ast.body = ...`:
   sorted(..., key = module == "__future__", reverse=True) is stable, so the __future__ imports
   come first in their original order, then the other imports in theirs (the None placeholders
   of the non-imports are dropped by filter(None, ...)); then the non-imports in order, the
   docstring statement having been put in front when it is truthy *)
Definition hoist (body : list top) : list top :=
  let doc := if has_doc body then firstn 1 body else [] in
  let rest := if has_doc body then skipn 1 body else body in
  doc ++ filter is_future body ++ filter is_plain_import body
      ++ filter (fun t => negb (is_import t)) rest.

(* ------------------------------------------------------------------ name_tpl.format(name=name) *)
Inductive fstate : Type :=
| FLit                      (* literal text *)
| FOpen                     (* just read an opening brace *)
| FField (acc : str)        (* inside a replacement field, characters so far reversed *)
| FClose.                   (* just read a closing brace *)

Definition lbrace := ch 123.
Definition rbrace := ch 125.

Definition field_special (c : ascii) : bool :=
  mem_c c (L "!:.[").

(* value of one replacement field when the only argument is the keyword `name` *)
Definition eval_field (f name : str) : gout str :=
  if str_eqb f (L "name") then GOk name
  else if isdecimal f || match f with [] => true | _ => false end then GErr xIndexError
  else GErr xKeyError.

Definition gcons (c : ascii) (r : gout str) : gout str :=
  match r with GOk s => GOk (c :: s) | GErr k => GErr k end.
Definition gapp (p : str) (r : gout str) : gout str :=
  match r with GOk s => GOk (p ++ s) | GErr k => GErr k end.

(* left to right, the first problem met is the one raised (as CPython does);
   conversions, format specs, attribute/index lookups in a field are declined *)
Fixpoint format_aux (s : str) (st : fstate) (name : str) : gout str :=
  match s with
  | [] =>
    match st with
    | FLit => GOk []
    | _ => GErr xValueError
    end
  | c :: r =>
    match st with
    | FLit =>
      if ascii_eqb c lbrace then format_aux r FOpen name
      else if ascii_eqb c rbrace then format_aux r FClose name
      else gcons c (format_aux r FLit name)
    | FOpen =>
      if ascii_eqb c lbrace then gcons lbrace (format_aux r FLit name)
      else if ascii_eqb c rbrace then GErr xIndexError
      else if field_special c then GErr xUnmodelled
      else format_aux r (FField [c]) name
    | FField acc =>
      if ascii_eqb c rbrace then
        match eval_field (rev acc) name with
        | GOk v => gapp v (format_aux r FLit name)
        | GErr k => GErr k
        end
      else if ascii_eqb c lbrace then GErr xValueError
      else if field_special c then GErr xUnmodelled
      else format_aux r (FField (c :: acc)) name
    | FClose =>
      if ascii_eqb c rbrace then gcons rbrace (format_aux r FLit name)
      else GErr xValueError
    end
  end.

Definition format_name (tpl name : str) : gout str := format_aux tpl FLit name.

(* ------------------------------------------------------------------ the __all__ assignment *)
(* a generated name whose repr is the name between single quotes, and which the rstrip/strip
   chain applied to it in gen and ast_utils.py:set_value leave alone: printable ASCII without
   quote characters or backslash *)
Definition safe_char (c : ascii) : bool :=
  let n := code c in
  Nat.leb 32 n && Nat.ltb n 127 && negb (mem_c c (L "'\") || ascii_eqb c (ch 34)).
Definition safe_name (n : str) : bool := forallb safe_char n.

Definition quote1 (n : str) : str := ch 39 :: n ++ [ch 39].

(* to_code(Assign(targets=[Name("__all__")], value=ast.parse(str(list(...))).body[0].value)) *)
Definition all_text (names : list str) : str :=
  L "__all__ = [" ++ join (L ", ") (map quote1 names) ++ L "]".

(* ------------------------------------------------------------------ per-entry dispatch *)
Inductive entry_res : Type :=
| ParseRaises (k : exn)     (* parse.function / parse.class_ raised k *)
| Parsed                    (* it returned; nothing is known about the emitter *)
| EmitRaises (k : exn)      (* emit.<type>(ir, ...) or to_code of its result raised k *)
| Emitted (text : str).     (* to_code(emit.<type>(ir, ...)) *)

Record entry : Type := mkEntry {
  e_name : str;             (* the key of the mapping *)
  e_is_function : bool;     (* isinstance(obj, FunctionDef) or isfunction(obj) *)
  e_res : entry_res
}.

Inductive kwval : Type :=
| KStr (s : str)
| KBool (b : bool)
| KNone
| KStrs (l : list str).

Inductive event : Type :=
| EvParseSrc (src : str)                            (* ast.parse(src) called from gen *)
| EvEvalImports (code : str)                        (* eval(compile(code)) of prepend's imports *)
| EvGenerating (name : str)                         (* print("Generating: {!r}".format(name)) *)
| EvCallParse (fn : str) (kwargs : list (str * kwval))
| EvCallEmit (fn : str) (kwargs : list (str * kwval))
| EvWrite (mode : str) (text : str).                (* open(output_filename, mode).write(text) *)

Record gen_opts : Type := mkOpts {
  o_emit_call : bool;
  o_emit_default_doc : bool;
  o_decorator_list : option (list str)
}.

(* type_.replace("class", "class_").replace("argparse", "argparse_function") *)
Definition emit_attr (type_ : str) : str :=
  replace (L "argparse") (L "argparse_function") (replace (L "class") (L "class_") type_).

Definition opt_strs (o : option (list str)) : kwval :=
  match o with None => KNone | Some l => KStrs l end.

(* the dict literal indexed by [type_]; None = KeyError (not reached for the three CLI choices) *)
Definition type_kwargs (type_ : str) (o : gen_opts) (nm : str) : option (list (str * kwval)) :=
  if str_eqb type_ (L "class") then
    Some [(L "class_name", KStr nm); (L "decorator_list", opt_strs (o_decorator_list o));
          (L "emit_call", KBool (o_emit_call o))]
  else if str_eqb type_ (L "function") then
    Some [(L "function_name", KStr nm); (L "function_type", KStr (L "static"))]
  else if str_eqb type_ (L "argparse") then Some [(L "function_name", KStr nm)]
  else None.

Definition known_type (type_ : str) : bool :=
  str_eqb type_ (L "class") || str_eqb type_ (L "function") || str_eqb type_ (L "argparse").

(* emit.py:function(intermediate_repr, function_name, function_type, ...): both have no default;
   gen passes both, so binding the call succeeds (it would be a TypeError otherwise);
   emit.py:class_ and emit.py:argparse_function have defaults for everything gen omits *)
Definition emit_binds (fn : str) (kwargs : list (str * kwval)) : bool :=
  if str_eqb fn (L "function") then
    existsb (fun p => str_eqb (fst p) (L "function_type")) kwargs
    && existsb (fun p => str_eqb (fst p) (L "function_name")) kwargs
  else true.

Definition parse_call (is_function : bool) : event :=
  if is_function then EvCallParse (L "function") []
  else EvCallParse (L "class_") [(L "merge_inner_function", KStr (L "__init__"))].

(* the generator expression inside "\n\n".join(...): for each (name, obj)
     print(...) or global__all__.append(name_tpl.format(name=name)) or to_code(emit.X(parse.Y(obj, ...), ...))
   returns the events, then either the exception that ended the loop or
   (global__all__, the texts to be joined) *)
Fixpoint run_entries (tpl type_ : str) (o : gen_opts) (es : list entry)
  : list event * gout (list str * list str) :=
  match es with
  | [] => ([], GOk ([], []))
  | e :: r =>
    let ev0 := EvGenerating (e_name e) in
    match format_name tpl (e_name e) with
    | GErr k => ([ev0], GErr k)
    | GOk nm =>
      let evp := parse_call (e_is_function e) in
      match e_res e with
      | ParseRaises k => ([ev0; evp], GErr k)
      | res =>
        match type_kwargs type_ o nm with
        | None => ([ev0; evp], GErr xUnmodelled)
        | Some kw =>
          let kwargs := (L "emit_default_doc", KBool (o_emit_default_doc o)) :: kw in
          let eve := EvCallEmit (emit_attr type_) kwargs in
          if negb (emit_binds (emit_attr type_) kwargs) then ([ev0; evp; eve], GErr xTypeError)
          else
            match res with
            | Emitted text =>
              let '(tr, rr) := run_entries tpl type_ o r in
              (ev0 :: evp :: eve :: tr,
               match rr with
               | GOk (names, texts) => GOk (nm :: names, text :: texts)
               | GErr k => GErr k
               end)
            | EmitRaises k => ([ev0; evp; eve], GErr k)
            | _ => ([ev0; evp; eve], GErr xUnmodelled)
            end
        end
      end
    end
  end.

(* the loop above is a generator expression consumed by str.join: a StopIteration that escapes
   from its body is turned into RuntimeError by the interpreter (PEP 479) *)
Definition xStopIteration : exn := L "StopIteration".
Definition xRuntimeError : exn := L "RuntimeError".
Definition pep479 (k : exn) : exn := if str_eqb k xStopIteration then xRuntimeError else k.

(* ------------------------------------------------------------------ gen *)
Record gen_in : Type := mkGenIn {
  gi_name_tpl : str;
  gi_input_mapping : str;                  (* dotted location of the mapping *)
  gi_mapping : gout (list entry);          (* what get_module + getattr give for it, entries in iteration order *)
  gi_type : str;
  gi_prepend : option str;
  gi_imports_from_file : option (gout str);  (* text read from the resolved file, or what resolving/reading raised *)
  gi_prepend_eval : option exn;            (* what executing the import statements of prepend raises *)
  gi_opts : gen_opts
}.

Record gen_ok : Type := mkGenOk {
  g_content : str;            (* the assembled text handed to ast.parse *)
  g_hoisted : list top;       (* parsed_ast.body after the hoisting *)
  g_all : list str;           (* global__all__ *)
  g_written : str             (* to_code(parsed_ast), written with mode "a" *)
}.

Definition nonempty (s : str) : bool := match s with [] => false | _ => true end.

(* the `if imports_from_file is None ... else ...` block: events and the `imports` text *)
Definition imports_phase (parse_src : str -> option (list top)) (i : gen_in) : list event * gout str :=
  match gi_imports_from_file i with
  | None => ([], GOk [])
  | Some file =>
    let '(tr1, r1) :=
      match gi_prepend i with
      | Some p =>
        if nonempty p then
          let src := strip p in
          match parse_src src with
          | None => ([EvParseSrc src], GErr xSyntaxError)
          | Some tops =>
            let code := unparse_module (get_at_root_imports tops) in
            ([EvParseSrc src; EvEvalImports code],
             match gi_prepend_eval i with Some k => GErr k | None => GOk tt end)
          end
        else ([], GOk tt)
      | None => ([], GOk tt)
      end in
    match r1 with
    | GErr k => (tr1, GErr k)
    | GOk _ =>
      match file with
      | GErr k => (tr1, GErr k)
      | GOk ftext =>
        match parse_src ftext with
        | None => (tr1 ++ [EvParseSrc ftext], GErr xSyntaxError)
        | Some tops =>
          (* "\n".join(map(to_code, get_at_root(...))): one statement per line, no final newline *)
          (tr1 ++ [EvParseSrc ftext], GOk (join [nl] (map top_text (get_at_root_imports tops))))
        end
      end
    end
  end.

(* input_mapping.rpartition(".")[0] == "" : importlib.import_module("") raises ValueError *)
Definition has_dot (s : str) : bool := mem_c (ch 46) s.

(* the prepend argument of the format call: nothing when prepend is None or empty, otherwise the
   text terminated by a newline (added when it does not end with one) *)
Definition prepend_arg (prepend : option str) : str :=
  match prepend with
  | None => []
  | Some p => if nonempty p then (if endswith [nl] p then p else p ++ [nl]) else []
  end.

(* "{prepend}{imports}\n{functions_and_classes}\n{__all}".format(...) *)
Definition assemble (prepend : option str) (imports : str) (texts names : list str) : str :=
  prepend_arg prepend ++ imports ++ [nl] ++ join [nl; nl] texts ++ [nl] ++ all_text names.

Definition gen (parse_src : str -> option (list top)) (i : gen_in) : list event * gout gen_ok :=
  if negb (known_type (gi_type i)) then ([], GErr xUnmodelled)
  else
  let '(tr1, imp) := imports_phase parse_src i in
  match imp with
  | GErr k => (tr1, GErr k)
  | GOk imports =>
    if negb (has_dot (gi_input_mapping i)) then (tr1, GErr xValueError)
    else
    match gi_mapping i with
    | GErr k => (tr1, GErr k)
    | GOk es =>
      let '(tr2, r2) := run_entries (gi_name_tpl i) (gi_type i) (gi_opts i) es in
      match r2 with
      | GErr k => (tr1 ++ tr2, GErr (pep479 k))
      | GOk (names, texts) =>
        if negb (forallb safe_name names) then (tr1 ++ tr2, GErr xUnmodelled)
        else
        let content := assemble (gi_prepend i) imports texts names in
        let tr3 := tr1 ++ tr2 ++ [EvParseSrc content] in
        match parse_src content with
        | None => (tr3, GErr xSyntaxError)
        | Some body =>
          let hoisted := hoist body in
          let written := unparse_module hoisted in
          (tr3 ++ [EvWrite (L "a") written], GOk (mkGenOk content hoisted names written))
        end
      end
    end
  end.

(* the output file afterwards: mode "a" creates the file or appends to what is there *)
Definition file_after (existing : option str) (r : gout gen_ok) : option str :=
  match r with
  | GOk g => Some ((match existing with Some old => old | None => [] end) ++ g_written g)
  | GErr _ => existing
  end.

(* ------------------------------------------------------------------ the `gen` sub-command *)
Definition is_octal (c : ascii) : bool := Nat.leb 48 (code c) && Nat.leb (code c) 55.
Definition oct_val (c : ascii) : nat := code c - 48.
Definition is_hex (c : ascii) : bool :=
  isdigit c || (Nat.leb 97 (code (lower_c c)) && Nat.leb (code (lower_c c)) 102).
Definition hex_val (c : ascii) : nat := unhex (lower_c c).

Definition simple_escape (c : ascii) : option ascii :=
  let n := code c in
  if Nat.eqb n 92 then Some (ch 92)         (* backslash *)
  else if Nat.eqb n 39 then Some (ch 39)    (* single quote *)
  else if Nat.eqb n 34 then Some (ch 34)    (* double quote *)
  else if Nat.eqb n 98 then Some (ch 8)     (* b *)
  else if Nat.eqb n 102 then Some (ch 12)   (* f *)
  else if Nat.eqb n 116 then Some (ch 9)    (* t *)
  else if Nat.eqb n 110 then Some (ch 10)   (* n *)
  else if Nat.eqb n 114 then Some (ch 13)   (* r *)
  else if Nat.eqb n 118 then Some (ch 11)   (* v *)
  else if Nat.eqb n 97 then Some (ch 7)     (* a *)
  else None.

Definition emit_code (n : nat) (r : gout str) : gout str :=
  if Nat.ltb n 256 then gcons (ch n) r else GErr xUnmodelled.

(* codecs.decode(str(arg), "unicode_escape") on ASCII input; \u \U \N and octal values above 255
   are declined; a truncated \x escape or a trailing backslash is a UnicodeDecodeError (a ValueError) *)
Fixpoint decode_escape (s : str) : gout str :=
  match s with
  | [] => GOk []
  | c :: r =>
    if Nat.leb 128 (code c) then GErr xUnmodelled
    else if negb (ascii_eqb c (ch 92)) then gcons c (decode_escape r)
    else
      match r with
      | [] => GErr xValueError
      | e :: r1 =>
        if ascii_eqb e nl then decode_escape r1
        else
          match simple_escape e with
          | Some v => gcons v (decode_escape r1)
          | None =>
            if is_octal e then
              match r1 with
              | d2 :: r2 =>
                if is_octal d2 then
                  match r2 with
                  | d3 :: r3 =>
                    if is_octal d3 then
                      emit_code (oct_val e * 64 + oct_val d2 * 8 + oct_val d3) (decode_escape r3)
                    else emit_code (oct_val e * 8 + oct_val d2) (decode_escape r2)
                  | [] => emit_code (oct_val e * 8 + oct_val d2) (GOk [])
                  end
                else emit_code (oct_val e) (decode_escape r1)
              | [] => emit_code (oct_val e) (GOk [])
              end
            else if ascii_eqb e (ch 120) then          (* x *)
              match r1 with
              | h1 :: h2 :: r3 =>
                if is_hex h1 && is_hex h2 then emit_code (hex_val h1 * 16 + hex_val h2) (decode_escape r3)
                else GErr xValueError
              | _ => GErr xValueError
              end
            else if mem_c e (L "uUN") then GErr xUnmodelled
            else if Nat.leb 128 (code e) then GErr xUnmodelled
            else gcons c (gcons e (decode_escape r1))  (* unknown escape: kept, with a warning *)
          end
      end
  end.

(* what the user put on the command line after `gen`, by option (None = option absent) *)
Record cli_args : Type := mkCli {
  ca_name_tpl : option str;
  ca_input_mapping : option str;
  ca_type : option str;
  ca_output_filename : option str;
  ca_prepend : option str;              (* raw, before decoding *)
  ca_imports_from_file : option str;
  ca_emit_call : bool;
  ca_decorators : list str              (* every --decorator given, in order *)
}.

(* the keyword arguments main passes to gen (emit_default_doc is not a CLI option) *)
Record gen_call : Type := mkCall {
  gc_name_tpl : str;
  gc_input_mapping : str;
  gc_type : str;
  gc_output_filename : str;
  gc_prepend : option str;
  gc_imports_from_file : option str;
  gc_emit_call : bool;
  gc_decorator_list : option (list str)
}.

Inductive cli_decision : Type :=
| CliUsage                 (* argparse error: message on stderr, SystemExit(2); nothing else happens *)
| CliRaise (k : exn)       (* main raises before calling gen *)
| CliRun (c : gen_call)    (* gen called with args_dict as keyword arguments *)
| CliUnmodelled.

(* __main__.py:_build_parser (the gen sub-parser) and the `elif command == "gen"` branch of main.
   output_exists = path.isfile(args.output_filename) *)
Definition cli_gen (a : cli_args) (output_exists : bool) : cli_decision :=
  match ca_name_tpl a, ca_input_mapping a, ca_type a, ca_output_filename a with
  | Some tpl, Some im, Some ty, Some out =>
    if negb (known_type ty) then CliUsage
    else
      let dec := match ca_prepend a with
                 | None => GOk None
                 | Some raw => match decode_escape raw with
                               | GOk p => GOk (Some p)
                               | GErr k => GErr k
                               end
                 end in
      match dec with
      | GErr k => if str_eqb k xValueError then CliUsage else CliUnmodelled
      | GOk prepend =>
        if output_exists then CliRaise xIOError
        else CliRun (mkCall tpl im ty out prepend (ca_imports_from_file a) (ca_emit_call a)
                            (match ca_decorators a with [] => None | l => Some l end))
      end
  | _, _, _, _ => CliUsage
  end.

(* ------------------------------------------------------------------ wire *)
Definition gopt_bind {A B} (x : option A) (f : A -> option B) : option B :=
  match x with Some a => f a | None => None end.
Notation "'let??' x := e1 'in' e2" := (gopt_bind e1 (fun x => e2))
  (at level 200, x pattern, e1 at level 100, e2 at level 200).

Definition enc_gout {A} (f : A -> sexp) (o : gout A) : sexp :=
  match o with
  | GOk a => SList [sym "ok"; f a]
  | GErr k => SList [sym "err"; Atom k]
  end.

(* exception names travel as bare atoms *)
Definition dec_gout {A} (f : sexp -> option A) (e : sexp) : option (gout A) :=
  match e with
  | SList [t; x] =>
    if is_sym "ok" t then option_map GOk (f x)
    else if is_sym "err" t then match x with Atom k => Some (GErr k) | _ => None end
    else None
  | _ => None
  end.

Definition enc_top (t : top) : sexp :=
  match t with
  | TStr b s d => SList [sym "str"; enc_bool b; enc_str s; enc_str d]
  | TImport m s => SList [sym "import"; enc_option enc_str m; enc_str s]
  | TDef c n s => SList [sym "def"; enc_bool c; enc_str n; enc_str s]
  | TAll ns s => SList [sym "all"; enc_list enc_str ns; enc_str s]
  | TOther s => SList [sym "other"; enc_str s]
  end.

Definition dec_top (e : sexp) : option top :=
  match e with
  | SList [t; a; b; c] =>
    if is_sym "str" t then
      let?? a := dec_bool a in let?? b := dec_str b in let?? c := dec_str c in Some (TStr a b c)
    else if is_sym "def" t then
      let?? a := dec_bool a in let?? b := dec_str b in let?? c := dec_str c in Some (TDef a b c)
    else None
  | SList [t; a; b] =>
    if is_sym "import" t then
      let?? a := dec_option dec_str a in let?? b := dec_str b in Some (TImport a b)
    else if is_sym "all" t then
      let?? a := dec_list dec_str a in let?? b := dec_str b in Some (TAll a b)
    else None
  | SList [t; a] =>
    if is_sym "other" t then let?? a := dec_str a in Some (TOther a) else None
  | _ => None
  end.

(* a finite table of ast.parse results: ((src (some (tops))) | (src none)) ...; a text that is
   not in the table is reported as such, never guessed *)
Definition parse_table := list (str * option (list top)).

Fixpoint lookup_src (tab : parse_table) (s : str) : option (option (list top)) :=
  match tab with
  | [] => None
  | (k, v) :: r => if str_eqb k s then Some v else lookup_src r s
  end.

Definition missing_marker : list top := [TOther (L "<text missing from the parse table>")].

Definition table_parse (tab : parse_table) (s : str) : option (list top) :=
  match lookup_src tab s with
  | Some v => v
  | None => Some missing_marker
  end.

Definition dec_table (e : sexp) : option parse_table :=
  dec_list (dec_pair dec_str (dec_option (dec_list dec_top))) e.

Definition dec_entry_res (e : sexp) : option entry_res :=
  if is_sym "parsed" e then Some Parsed
  else match e with
       | SList [t; x] =>
         if is_sym "parse-raises" t then match x with Atom k => Some (ParseRaises k) | _ => None end
         else if is_sym "emit-raises" t then match x with Atom k => Some (EmitRaises k) | _ => None end
         else if is_sym "emitted" t then option_map Emitted (dec_str x)
         else None
       | _ => None
       end.

Definition dec_entry (e : sexp) : option entry :=
  match e with
  | SList [n; f; r] =>
    let?? n := dec_str n in let?? f := dec_bool f in let?? r := dec_entry_res r in
    Some (mkEntry n f r)
  | _ => None
  end.

Definition dec_exn (e : sexp) : option exn := match e with Atom k => Some k | _ => None end.

Definition dec_opts (e : sexp) : option gen_opts :=
  match e with
  | SList [a; b; c] =>
    let?? a := dec_bool a in let?? b := dec_bool b in let?? c := dec_option (dec_list dec_str) c in
    Some (mkOpts a b c)
  | _ => None
  end.

Definition dec_gen_in (e : sexp) : option gen_in :=
  match e with
  | SList [tpl; im; mp; ty; pre; imf; pev; opts] =>
    let?? tpl := dec_str tpl in
    let?? im := dec_str im in
    let?? mp := dec_gout (dec_list dec_entry) mp in
    let?? ty := dec_str ty in
    let?? pre := dec_option dec_str pre in
    let?? imf := dec_option (dec_gout dec_str) imf in
    let?? pev := dec_option dec_exn pev in
    let?? opts := dec_opts opts in
    Some (mkGenIn tpl im mp ty pre imf pev opts)
  | _ => None
  end.

Definition enc_kwval (v : kwval) : sexp :=
  match v with
  | KStr s => SList [sym "s"; enc_str s]
  | KBool b => SList [sym "b"; enc_bool b]
  | KNone => sym "none"
  | KStrs l => SList [sym "l"; enc_list enc_str l]
  end.

Definition enc_kwargs (kw : list (str * kwval)) : sexp :=
  enc_list (fun p => SList [enc_str (fst p); enc_kwval (snd p)]) kw.

Definition enc_event (e : event) : sexp :=
  match e with
  | EvParseSrc s => SList [sym "parse-src"; enc_str s]
  | EvEvalImports s => SList [sym "eval-imports"; enc_str s]
  | EvGenerating n => SList [sym "generating"; enc_str n]
  | EvCallParse f kw => SList [sym "call-parse"; enc_str f; enc_kwargs kw]
  | EvCallEmit f kw => SList [sym "call-emit"; enc_str f; enc_kwargs kw]
  | EvWrite m t => SList [sym "write"; enc_str m; enc_str t]
  end.

Definition enc_gen_ok (g : gen_ok) : sexp :=
  SList [enc_str (g_content g); enc_list enc_top (g_hoisted g); enc_list enc_str (g_all g);
         enc_str (g_written g)].

Definition dec_cli_args (e : sexp) : option cli_args :=
  match e with
  | SList [a; b; c; d; p; f; ec; ds] =>
    let?? a := dec_option dec_str a in
    let?? b := dec_option dec_str b in
    let?? c := dec_option dec_str c in
    let?? d := dec_option dec_str d in
    let?? p := dec_option dec_str p in
    let?? f := dec_option dec_str f in
    let?? ec := dec_bool ec in
    let?? ds := dec_list dec_str ds in
    Some (mkCli a b c d p f ec ds)
  | _ => None
  end.

Definition enc_cli_decision (d : cli_decision) : sexp :=
  match d with
  | CliUsage => sym "usage"
  | CliRaise k => SList [sym "raise"; Atom k]
  | CliUnmodelled => SList [sym "err"; sym "Unmodelled"]
  | CliRun c =>
    SList [sym "run"; enc_str (gc_name_tpl c); enc_str (gc_input_mapping c); enc_str (gc_type c);
           enc_str (gc_output_filename c); enc_option enc_str (gc_prepend c);
           enc_option enc_str (gc_imports_from_file c); enc_bool (gc_emit_call c);
           enc_option (enc_list enc_str) (gc_decorator_list c)]
  end.

Definition is_unmodelled_exn (k : exn) : bool := str_eqb k xUnmodelled.

(* FAMILY: run_gen *)
Definition run_gen (fn : sexp) (args : list sexp) : option sexp :=
  if is_sym "gen" fn then
    match args with
    | [gi; tab; existing] =>
      let?? gi := dec_gen_in gi in
      let?? tab := dec_table tab in
      let?? existing := dec_option dec_str existing in
      let '(tr, r) := gen (table_parse tab) gi in
      match r with
      | GErr k =>
        if is_unmodelled_exn k then Some (SList [sym "err"; sym "Unmodelled"])
        else Some (SList [sym "gen"; enc_list enc_event tr; enc_gout enc_gen_ok r;
                          enc_option enc_str (file_after existing r)])
      | GOk _ =>
        Some (SList [sym "gen"; enc_list enc_event tr; enc_gout enc_gen_ok r;
                     enc_option enc_str (file_after existing r)])
      end
    | _ => None
    end
  else if is_sym "gen_cli" fn then
    match args with
    | [a; ex] =>
      let?? a := dec_cli_args a in
      let?? ex := dec_bool ex in
      Some (enc_cli_decision (cli_gen a ex))
    | _ => None
    end
  else if is_sym "gen_format_name" fn then
    match args with
    | [tpl; name] =>
      let?? tpl := dec_str tpl in
      let?? name := dec_str name in
      match format_name tpl name with
      | GErr k => if is_unmodelled_exn k then Some (SList [sym "err"; sym "Unmodelled"])
                  else Some (enc_gout enc_str (format_name tpl name))
      | r => Some (enc_gout enc_str r)
      end
    | _ => None
    end
  else if is_sym "gen_decode_escape" fn then
    match args with
    | [s] =>
      let?? s := dec_str s in
      match decode_escape s with
      | GErr k => if is_unmodelled_exn k then Some (SList [sym "err"; sym "Unmodelled"])
                  else Some (enc_gout enc_str (decode_escape s))
      | r => Some (enc_gout enc_str r)
      end
    | _ => None
    end
  else if is_sym "gen_all_text" fn then
    match args with
    | [names] =>
      let?? names := dec_list dec_str names in
      if forallb safe_name names then Some (enc_str (all_text names))
      else Some (SList [sym "err"; sym "Unmodelled"])
    | _ => None
    end
  else None.
