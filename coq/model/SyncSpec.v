(* SyncSpec: finding classes of the sync properties (C09, C10, C11) as a function of what the
   conversion layers answered in the recorded _conform_filename calls of two consecutive runs.
   Each class is the failure of one named law of proofs/SyncFacts.v on this run's instance:
     FIND    the definition named by the search is found when it exists (C15)
     REPLACE a found definition that differs is replaced by the rewrite
     FIX     a definition written by sync is found again and compares equal to its re-emission
   Definitions only. *)
From Coq Require Import List Ascii Bool Arith ZArith.
From Coq Require String.
Import String.StringSyntax.
From DT Require Import PyStr Sexp PyVal FS Sync.
Import ListNotations.

Record call_obs : Type := mkObs {
  ob_existed : bool;      (* the target file existed before the call *)
  ob_found : bool;        (* find_in_ast returned a node *)
  ob_cmp : bool;          (* cmp_ast(original, replacement) *)
  ob_replaced : bool;     (* RewriteAtQuery.replaced *)
  ob_present : bool;      (* independent resolver: the named definition was in the file before the call *)
  ob_enclosing : bool;    (* dotted names: the enclosing class was in the file before the call *)
  ob_rebinding : bool     (* the first node at the target's location that is not a FunctionDef is an assignment to the target's name (X = f(X)), not its class definition *)
}.

Inductive sync_class : Type :=
| K_truth_not_found          (* FIND fails on the truth file: ground_truth parses None *)
| K_found_not_replaced       (* REPLACE fails: FunctionDef targets are never replaced *)
| K_not_found_but_present    (* FIND fails on a target: the definition exists but is not found; a copy is appended *)
| K_dotted_written_top_level (* a method target that is created/appended lands at module level, so FIX fails *)
| K_same_named_binding_replaced (* RewriteAtQuery replaces the first NODE whose location is the searched one: an assignment to the
                                   target's name is replaced by the new definition (and a FunctionDef never is) *)
| K_other_docstring_reformatted (* a whole-module rewrite formats the file with black, which re-indents the docstrings of the OTHER definitions: their docstring constants change *)
| K_module_docstring_reindented (* RENDER_PARSE fails on the module docstring: ast_parse re-indents it on read, so a whole-module rewrite changes that statement *)
| K_written_compares_unequal. (* FIX fails: what sync wrote is found but never compares equal (docstring re-indent) *)

Definition sync_class_name (k : sync_class) : str :=
  match k with
  | K_truth_not_found => L "truth-definition-not-found"
  | K_found_not_replaced => L "found-definition-not-replaced"
  | K_not_found_but_present => L "present-definition-not-found"
  | K_dotted_written_top_level => L "method-target-written-at-module-level"
  | K_module_docstring_reindented => L "module-docstring-reindented"
  | K_other_docstring_reformatted => L "other-docstring-reformatted"
  | K_same_named_binding_replaced => L "same-named-binding-replaced"
  | K_written_compares_unequal => L "written-definition-compares-unequal"
  end.

(* C11: a difference confined to the module docstring statement of a file rewritten as a whole is the
   RENDER_PARSE law failing on docstrings; any other difference is attributed to the target's class *)
Definition classify_frame (only_module_docstring_differs only_docstrings_differ whole_module_rewrite : bool)
           (target_class : option sync_class) : option sync_class :=
  if only_module_docstring_differs && whole_module_rewrite then Some K_module_docstring_reindented
  else if only_docstrings_differ && whole_module_rewrite then Some K_other_docstring_reformatted
  else target_class.

(* what can go wrong when the target is installed (first run): only the call of run 0 matters *)
Definition classify_install (dotted : bool) (c0 : call_obs) : option sync_class :=
  if ob_found c0 && negb (ob_cmp c0) && negb (ob_replaced c0) then Some K_found_not_replaced
  else if ob_found c0 && negb (ob_cmp c0) && ob_replaced c0 && ob_rebinding c0 then Some K_same_named_binding_replaced
  else if negb (ob_found c0) && ob_present c0 then Some K_not_found_but_present
  else if negb (ob_found c0) && dotted then Some K_dotted_written_top_level
  else None.

(* what can go wrong when sync is repeated: the FIX law on the second run's call, judged on that call alone
   (what went wrong at installation and persists is tried separately by the harness, see sync_props.PERSISTS) *)
Definition classify_repeat (dotted : bool) (c0 : call_obs) (c1 : option call_obs) : option sync_class :=
  match c1 with
  | Some c =>
    if ob_found c && negb (ob_cmp c) then
      (* since the comparison goes through the written form (_as_written) only a class nested in another
         class still compares unequal to its re-emission *)
      (if ob_replaced c && dotted then Some K_written_compares_unequal else None)
    else if negb (ob_found c) then
      (* a method written at module level is found again by the lenient lookup unless its class is in the file:
         only then is it appended once more on every run *)
      (if dotted then (if ob_enclosing c then Some K_dotted_written_top_level else None)
       else if ob_present c then Some K_not_found_but_present else None)
    else None
  | None => None
  end.

(* classification of one target from its call in run 0 and (if any) its call in run 1 *)
Definition classify_target (dotted : bool) (c0 : call_obs) (c1 : option call_obs) : option sync_class :=
  classify_repeat dotted c0 c1.

(* the proved region: every law instance holds on both runs *)
Definition guard_sync_target (dotted : bool) (c0 : call_obs) (c1 : option call_obs) : bool :=
  match classify_target dotted c0 c1 with None => true | Some _ => false end.

Definition dec_obs (e : sexp) : option call_obs :=
  match e with
  | SList [a; b; c; d; x; y; z] =>
    match dec_bool a, dec_bool b, dec_bool c, dec_bool d, dec_bool x, dec_bool y, dec_bool z with
    | Some a, Some b, Some c, Some d, Some x, Some y, Some z => Some (mkObs a b c d x y z)
    | _, _, _, _, _, _, _ => None
    end
  | _ => None
  end.

(* FAMILY: run_syncspec *)
Definition run_syncspec (fn : sexp) (args : list sexp) : option sexp :=
  if is_sym "sync_class" fn then
    match args with
    | [d; c0; c1] =>
      match dec_bool d, dec_obs c0, dec_option dec_obs c1 with
      | Some d, Some c0, Some c1 =>
        Some (enc_option (fun k => enc_str (sync_class_name k)) (classify_target d c0 c1))
      | _, _, _ => None
      end
    | _ => None
    end
  else if is_sym "install_class" fn then
    match args with
    | [d; c0] =>
      match dec_bool d, dec_obs c0 with
      | Some d, Some c0 => Some (enc_option (fun k => enc_str (sync_class_name k)) (classify_install d c0))
      | _, _ => None
      end
    | _ => None
    end
  else if is_sym "frame_class" fn then
    match args with
    | [od; ods; wm; d; c0; c1] =>
      match dec_bool od, dec_bool ods, dec_bool wm, dec_bool d, dec_obs c0, dec_option dec_obs c1 with
      | Some od, Some ods, Some wm, Some d, Some c0, Some c1 =>
        Some (enc_option (fun k => enc_str (sync_class_name k))
                         (classify_frame od ods wm (classify_target d c0 c1)))
      | _, _, _, _, _, _ => None
      end
    | _ => None
    end
  else None.
