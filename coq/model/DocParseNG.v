(* DocParseNG: doctrans/docstring_parsers.py, the numpydoc and google path of parse_docstring:
   _scan_phase_numpydoc_and_google, _return_parse_phase_numpydoc_and_google,
   _parse_phase_numpydoc_and_google (both _parse closures, afterward_idx, scanned_afterward,
   _interpolate_defaults_and_force_future_default, the returns expression) and, as used by them,
   _set_name_and_type, _infer_default, emitter_utils.interpolate_defaults (scalar defaults only).
   Transcribed as the code is, defects included.  Definitions only. *)
From Coq Require Import List Ascii Bool Arith ZArith.
From Coq Require String.
Import String.StringSyntax.
From DT Require Import PyStr Sexp PyVal TyExpr PureUtils Defaults PyAst IR Extracted Run.
Import ListNotations.

Inductive ngstyle : Type := SGoogle | SNumpydoc.

Record ngflags : Type := mkFlags {
  f_infer_type : bool;
  f_word_wrap : bool;
  f_emit_default_prop : bool;
  f_emit_default_doc : bool
}.

Definition arg_tokens_of (s : ngstyle) : list str :=
  match s with SGoogle => Extracted.arg_tokens_google | SNumpydoc => Extracted.arg_tokens_numpydoc end.
Definition return_tokens_of (s : ngstyle) : list str :=
  match s with SGoogle => Extracted.return_tokens_google | SNumpydoc => Extracted.return_tokens_numpydoc end.

(* the alphabet of the model: printable ASCII, newline, tab (PyStr.splitlines knows no other line boundary) *)
Definition in_alphabet (c : ascii) : bool :=
  let n := code c in (Nat.leb 32 n && Nat.leb n 126) || Nat.eqb n 10 || Nat.eqb n 9.

Fixpoint strs_eqb (a b : list str) : bool :=
  match a, b with
  | [], [] => true
  | x :: a', y :: b' => str_eqb x y && strs_eqb a' b'
  | _, _ => false
  end.

Definition is_empty {A} (l : list A) : bool := match l with [] => true | _ => false end.

(* count_iter_items(takewhile(str.isspace, line)) *)
Definition indent_of (line : str) : nat := List.length (takewhile isspace line).

(* ---- style detection: parse_docstring lines 91-96 ---- *)
Inductive style3 : Type := StRest | StGoogle | StNumpydoc.

Definition detect_style (docstring : str) : style3 :=
  if existsb (fun t => contains t docstring) Extracted.rest_tokens then StRest
  else if existsb (fun t => contains t docstring) Extracted.google_tokens then StGoogle
  else StNumpydoc.

(* ---- the scanned dict ----
   scanned[return_tokens[0]] holds either a slice of docstring_lines (list of str) or a slice of the
   stacker (list of list of str); the returns expression distinguishes them with isinstance. *)
Inductive retv : Type :=
| RLines (l : list str)
| RUnits (u : list (list str)).

Definition retv_truthy (r : retv) : bool :=
  match r with RLines l => negb (is_empty l) | RUnits u => negb (is_empty u) end.

Record scanned : Type := mkScanned {
  sc_doc : str;
  sc_args : list (list str);          (* scanned[arg_tokens[0]] *)
  sc_ret : retv;                      (* scanned[return_tokens[0]] *)
  sc_afterward : option (list str)    (* the key is only set when the list is non-empty *)
}.

(* stacker[-1].append(line) *)
Fixpoint append_last (stacker : list (list str)) (line : str) : option (list (list str)) :=
  match stacker with
  | [] => None
  | [u] => Some [u ++ [line]]
  | u :: r => option_map (cons u) (append_last r line)
  end.

(* count_iter_items(takewhile(partial(le, return_indent), map(indent, lines))) *)
Definition count_at_least (return_indent : nat) (lines : list str) : nat :=
  List.length (takewhile (fun l => Nat.leb return_indent (indent_of l)) lines).

(* what the `indent < first_indent` branch computes from the lines after the current one
   ([tail] = docstring_lines[line_no + 1 :]):  (value for scanned[return_tokens[0]] if set, scanned_afterward) *)
Definition lookahead (return_tokens : list str) (tail : list str) : option (list str) * option (list str) :=
  if Nat.ltb 2 (List.length tail)
     && existsb (fun t => str_eqb t (nth 0 tail []) && negb (is_empty t)) return_tokens
  then
    let return_indent := indent_of (nth 2 tail []) in
    let n := count_at_least return_indent (skipn 2 tail) in
    (Some (firstn (1 + n) (skipn 1 tail)), Some (skipn (2 + n) tail))
  else
    let afterward := tail in
    if Nat.ltb 1 (List.length afterward) && str_eqb (nth 0 afterward []) (nth 0 return_tokens [])
    then
      let return_indent := indent_of (nth 1 afterward []) in
      let n := count_at_least return_indent (skipn 2 afterward) in
      (Some (firstn (n + 1) (skipn 1 afterward)),
       if Nat.eqb n 0 then None else Some (skipn (n + 2) afterward))
    else (None, Some afterward).

(* the for-loop over docstring_lines.  Result: the stacker at loop exit and, when the loop was left by
   `break`, (the stacker copied into scanned[namespace], look-ahead results). *)
Fixpoint stack_lines (return_tokens : list str) (first_indent : nat) (lines : list str)
         (stacker : list (list str))
  : outcome (list (list str) * option (list (list str) * (option (list str) * option (list str)))) :=
  match lines with
  | [] => Ok (stacker, None)
  | line :: tail =>
    let indent := indent_of line in
    if Nat.eqb indent first_indent then stack_lines return_tokens first_indent tail (stacker ++ [[line]])
    else if Nat.ltb indent first_indent then Ok ([], Some (stacker, lookahead return_tokens tail))
    else match append_last stacker line with
         | None => Err IndexError
         | Some st => stack_lines return_tokens first_indent tail st
         end
  end.

(* _return_parse_phase_numpydoc_and_google, numpydoc branch: the largest i with i - 1 > 0 and
   stacker[i] + stacker[i - 1] == rev_return_token, searching downward from i *)
Fixpoint ret_split_idx (rev_tok : list str) (stacker : list (list str)) (i : nat) : option nat :=
  if Nat.ltb 1 i && strs_eqb (nth i stacker [] ++ nth (i - 1) stacker []) rev_tok then Some i
  else match i with
       | O => None
       | S j => ret_split_idx rev_tok stacker j
       end.

(* returns (new stacker, value set for scanned[return_tokens[0]] if any) *)
Definition return_parse_phase (style : ngstyle) (return_tokens : list str) (stacker : list (list str))
  : list (list str) * option (list (list str)) :=
  match style with
  | SGoogle => (stacker, None)
  | SNumpydoc =>
    match stacker with
    | [] => (stacker, None)
    | _ =>
      let rev_tok := rev (splitlines (nth 0 return_tokens [])) in
      match ret_split_idx rev_tok stacker (List.length stacker - 1) with
      | Some i => (firstn (i - 1) stacker, Some (skipn (i + 1) stacker))
      | None => (stacker, None)
      end
    end
  end.

(* _scan_phase_numpydoc_and_google *)
Definition scan_ng (style : ngstyle) (docstring : str) : outcome scanned :=
  let arg_tokens := arg_tokens_of style in
  let return_tokens := return_tokens_of style in
  match arg_tokens, return_tokens with
  | [_], [_] =>
    let found :=
        match location_within (fun x => x) docstring arg_tokens with
        | Some loc => Some (loc, true)
        | None => match location_within (fun x => x) docstring return_tokens with
                  | Some loc => Some (loc, false)
                  | None => None
                  end
        end in
    match found with
    | None => Ok (mkScanned (strip docstring) [] (RUnits []) None)
    | Some ((start_idx, end_idx, _), ns_is_arg) =>
      let doc := strip (firstn start_idx docstring) in
      let docstring_lines := splitlines (skipn (end_idx + 1) docstring) in
      match docstring_lines with
      | [] => Err IndexError                                   (* docstring_lines[0] *)
      | l0 :: _ =>
        let first_indent := indent_of l0 in
        do r <- stack_lines return_tokens first_indent docstring_lines [];
        let '(stacker, brk) := r in
        (* state after the loop *)
        let '(args0, ret0, aft0) :=
            match brk with
            | None => ([], RUnits [], None)
            | Some (copied, (la_ret, la_aft)) =>
              let args1 := if ns_is_arg then copied else [] in
              let ret1 := if ns_is_arg then RUnits [] else RUnits copied in
              let ret2 := match la_ret with Some l => RLines l | None => ret1 end in
              let aft := match la_aft with
                         | Some (x :: r) => Some (x :: r)
                         | _ => None
                         end in
              (args1, ret2, aft)
            end in
        (* Split out return, if present and not already set *)
        let '(stacker1, ret1) :=
            if negb (retv_truthy ret0) then
              let '(st, set_ret) := return_parse_phase style return_tokens stacker in
              (st, match set_ret with Some u => RUnits u | None => ret0 end)
            else (stacker, ret0) in
        (* if stacker: scanned[namespace] = stacker *)
        let '(args2, ret2) :=
            match stacker1 with
            | [] => (args0, ret1)
            | _ => if ns_is_arg then (stacker1, ret1) else (args0, RUnits stacker1)
            end in
        Ok (mkScanned doc args2 ret2 aft0)
      end
    end
  | _, _ => Err Unmodelled          (* token tuples of another shape than the one-element ones read from the module *)
  end.

(* ---- emitter_utils.interpolate_defaults on scalar defaults ---- *)
Definition interpolate_defaults (p : param) (require_default emit_default_doc : bool) : outcome param :=
  do p1 <- match p_doc p with
           | Missing => Ok p
           | d =>
             do r <- extract_default_fld d true default_announces (fget (p_typ p)) emit_default_doc;
             let '(doc, dflt) := r in
             Ok (mkParam doc (p_typ p)
                         (match dflt with
                          | Some VNone | None => p_default p
                          | Some v => Some (unquote_val v)
                          end))
           end;
  let default_is_none := match p_default p1 with None | Some VNone => true | Some _ => false end in
  if require_default && default_is_none then
    match p_typ p1 with
    | Missing => Ok (mkParam (p_doc p1) (p_typ p1) (Some (VStr NoneStr)))      (* memoryview not in simple_types *)
    | FNone => if Extracted.simple_types_has_None_key
               then Ok (mkParam (p_doc p1) (p_typ p1) (Some VNone)) else Ok (mkParam (p_doc p1) (p_typ p1) (Some (VStr NoneStr)))
    | Has t =>
      if in_simple_types t then
        match simple_type_zero t with
        | Some v => Ok (mkParam (p_doc p1) (p_typ p1) (Some v))
        | None => Err Unmodelled                                                 (* complex: 0j *)
        end
      else Ok (mkParam (p_doc p1) (p_typ p1) (Some (VStr NoneStr)))
    end
  else Ok p1.

(* _interpolate_defaults_and_force_future_default: the function attribute require_default is threaded *)
Definition interpolate_force (p : param) (require_default emit_default_doc : bool) : outcome (param * bool) :=
  do p1 <- interpolate_defaults p require_default emit_default_doc;
  let has_default := match p_default p1 with None | Some VNone => false | Some _ => true end in
  Ok (p1, require_default || has_default).

(* needs_quoting as _infer_default uses it (only whether it raises matters there).  Defaults.needs_quoting declines
   a top-level tuple such as  int, optional ; ast.parse accepts it when every piece is an expression. *)
Definition needs_quoting_ng (typ : option str) : outcome bool :=
  match needs_quoting typ with
  | Err Unmodelled =>
    match typ with
    | Some t =>
      let t' := bracket_fix (strip (replace [nl] [] t)) in
      let pieces := map parse_ty (split (L ", ") t') in
      if Nat.ltb 1 (List.length pieces) && forallb (fun o => match o with Some _ => true | None => false end) pieces
      then Ok (existsb (fun o => match o with Some ty => existsb node_needs_quote (walk ty) | None => false end) pieces)
      else Err Unmodelled
    | None => Err Unmodelled
    end
  | r => r
  end.

(* _infer_default on a param whose "default" key is present with scalar value v *)
Definition infer_default (p : param) (v : pyval) (infer_type : bool) : outcome param :=
  let v1 := if in_none_types v then VStr NoneStr else v in
  let typ1 := if infer_type && (match fget (p_typ p) with Some _ => false | None => true end)
                 && negb (in_none_types v1)
              then Has (type_name v1) else p_typ p in
  do nq <- needs_quoting_ng (fget typ1);
  let v2 := unquote_val v1 in     (* unquote is the identity on non-str values *)
  let is_nonestr := pyval_eqb v2 (VStr NoneStr) in
  let typ2 := match fget typ1 with
              | None => if negb is_nonestr then Has (type_name v2) else typ1
              | Some _ => typ1
              end in
  if negb is_nonestr && code_quoted_val v2 then
    match typ2 with
    | Missing => Err KeyError                            (* del _param[typ] with no such key *)
    | FNone => Err TypeError                             (* "[" not in None *)
    | Has t => if contains [ch 91] t then Ok (mkParam (p_doc p) typ2 (Some v2))
               else Ok (mkParam (p_doc p) Missing (Some v2))
    end
  else Ok (mkParam (p_doc p) typ2 (Some v2)).

Definition google_opt : str := L ", optional".

(* _set_name_and_type((name, _param), infer_type, word_wrap).  doc_is_list: the "doc" value is a non-empty
   list of lines whose "".join is carried in p_doc (the google return entry taken from the stacker). *)
Definition set_name_and_type (name : str) (p : param) (doc_is_list infer_type word_wrap : bool)
  : outcome (str * param) :=
  do np1 <-
     (if endswith (L "kwargs") name || startswith (L "**") name then
        let name' := lstrip_chars [ch 42] name in
        let typ' := match p_typ p with
                    | Missing => Has (L "Optional[dict]")
                    | FNone => FNone
                    | Has t => if str_eqb t (L "dict") then Has (L "Optional[dict]") else Has t
                    end in
        let d' := match p_default p with None => Some (VStr NoneStr) | d => d end in
        Ok (name', mkParam (p_doc p) typ' d')
      else match p_default p with
           | Some v => do p' <- infer_default p v infer_type; Ok (name, p')
           | None => Ok (name, p)
           end);
  let '(name1, p1) := np1 in
  let typ2 := match fget (p_typ p1) with
              | Some t => if endswith google_opt t
                          then Has (L "Optional[" ++ firstn (List.length t - List.length google_opt) t ++ L "]")
                          else p_typ p1
              | None => p_typ p1
              end in
  let doc2 := if doc_is_list then p_doc p1
              else match p_doc p1 with
                   | FNone | Has [] => Missing
                   | d => d
                   end in
  match doc2 with
  | Has doc =>
    let doc3 := if doc_is_list then rstrip doc
                else rstrip (if word_wrap then join [sp] (map strip (split [nl] doc)) else doc) in
    if startswith (L "(Optional)") doc3 || startswith (L "Optional") doc3 then
      match typ2 with
      | Missing => Ok (name1, mkParam (Has doc3) typ2 (p_default p1))
      | FNone => Err AttributeError
      | Has t => if startswith (L "Optional[") t then Ok (name1, mkParam (Has doc3) typ2 (p_default p1))
                 else Ok (name1, mkParam (Has doc3) (Has (L "Optional[" ++ t ++ L "]")) (p_default p1))
      end
    else Ok (name1, mkParam (Has doc3) typ2 (p_default p1))
  | _ => Ok (name1, mkParam doc2 typ2 (p_default p1))
  end.

(* ---- the two _parse closures ---- *)
Inductive parsed : Type :=
| PSome (name : str) (p : param)
| PNone                      (* numpydoc: return None, dropped by filter(None, ...) *)
| PStop                      (* google: next(...) raises StopIteration inside map(): the consumer sees the end of the iterator *)
| PErr (e : err).

(* numpydoc *)
Definition parse_numpydoc (scan : list str) : parsed :=
  match scan with
  | [] => PErr IndexError
  | l0 :: rest =>
    let '(name, _, typ) := partition [ch 58] l0 in
    if is_empty name then PNone
    else if is_empty typ then PSome (rstrip name) (mkParam Missing Missing None)
    else PSome (rstrip name) (mkParam (Has (join [nl] (map lstrip rest))) (Has (lstrip typ)) None)
  end.

(* repr(str) on the alphabet *)
Definition repr_char (q c : ascii) : str :=
  if ascii_eqb c (ch 92) then [ch 92; ch 92]
  else if ascii_eqb c q then [ch 92; q]
  else if ascii_eqb c nl then [ch 92; ch 110]
  else if ascii_eqb c tabch then [ch 92; ch 116]
  else [c].

Definition py_repr (s : str) : str :=
  let q := if mem_c sq s && negb (mem_c dq s) then dq else sq in
  q :: flat_map (repr_char q) s ++ [q].

(* "{}".format(list_of_str) *)
Definition repr_str_list (l : list str) : str := ch 91 :: join (L ", ") (map py_repr l) ++ [ch 93].

(* google *)
Definition parse_google (scan : list str) : parsed :=
  match scan with
  | [] => PErr IndexError
  | l0 :: rest =>
    match find [ch 58] l0 with
    | None => PStop
    | Some offset =>
      let s := lstrip (firstn offset l0) in
      let '(name0, delim, typ0) := partition [ch 40] s in
      let name := rstrip name0 in
      let typ := rstrip (delim ++ typ0) in
      let after := skipn (offset + 1) l0 in
      if is_empty typ then
        PSome name (mkParam (Has (strip (join [nl] (lstrip after :: rest)))) Missing None)
      else if negb (startswith [ch 40] typ && endswith [ch 41] typ) then PErr AssertionError
      else
        let t1 := slice typ 1 (List.length typ - 1) in
        let t2 := if contains (L " or ") t1
                  then L "Union[" ++ join (L ", ") (split (L " or ") t1) ++ L "]" else t1 in
        let e := lstrip after in
        if Nat.ltb 3 (List.length e) && startswith [ch 123] e && endswith [ch 125] e then
          let t3 := L "Literal" ++ repr_str_list (map (strip_chars [sq]) (split (L ", ") (slice e 1 (List.length e - 1)))) in
          (* scan[0] = "" *)
          PSome name (mkParam (Has (strip (join [nl] ([] :: rest)))) (Has t3) None)
        else PSome name (mkParam (Has (strip (join [nl] (e :: rest)))) (Has t2) None)
    end
  end.

Definition parse_unit (style : ngstyle) (scan : list str) : parsed :=
  match style with SGoogle => parse_google scan | SNumpydoc => parse_numpydoc scan end.

(* the lazy pipeline  map(_set_name_and_type, map(_interpolate..., map(pop name, filter(None, map(_parse, ...)))))
   consumed by OrderedDict(): element by element, require_default carried along *)
Fixpoint params_loop (style : ngstyle) (fl : ngflags) (units : list (list str)) (req : bool)
         (acc : list (str * param)) : outcome (list (str * param) * bool) :=
  match units with
  | [] => Ok (acc, req)
  | u :: r =>
    match parse_unit style u with
    | PStop => Ok (acc, req)
    | PErr e => Err e
    | PNone => params_loop style fl r req acc
    | PSome name p =>
      do pr <- interpolate_force p req (f_emit_default_doc fl);
      let '(p1, req1) := pr in
      do np <- set_name_and_type name p1 false (f_infer_type fl) (f_word_wrap fl);
      params_loop style fl r req1 (acc ++ [np])
    end
  end.

(* index of the first unit whose first line ends with ":" *)
Fixpoint afterward_index (units : list (list str)) (i : nat) : option nat :=
  match units with
  | [] => None
  | u :: r => if endswith [ch 58] (nth 0 u []) then Some i else afterward_index r (S i)
  end.

Definition afterward_text (units : list (list str)) : str :=
  join [nl] (map (fun l => join [nl] (map (fun s => if endswith [ch 58] s then s else tab ++ s) l)) units).

Definition nlnlnl : str := [nl; nl; nl].

(* the dict given to _set_name_and_type for the return entry: (param, doc_is_list) *)
Definition return_dict (style : ngstyle) (r : retv) : outcome (param * bool) :=
  match style with
  | SGoogle =>
    match r with
    | RLines [a; b] =>
      Ok (mkParam (Has (lstrip b)) (Has (lstrip (firstn (List.length a - 1) a))) None, false)
    | RLines (a :: _) =>
      if str_isspace a then Ok (mkParam Missing Missing None, false)
      else Ok (mkParam (Has (lstrip a)) Missing None, false)
    | RLines [] => Err IndexError
    | RUnits (u :: _) => Ok (mkParam (Has (concat u)) Missing None, true)
    | RUnits [] => Err IndexError
    end
  | SNumpydoc =>
    match r with
    | RUnits ((a :: b :: _) :: _) => Ok (mkParam (Has (lstrip b)) (Has a) None, false)
    | RUnits _ => Err IndexError
    | RLines ((a :: b :: _) :: _) => Ok (mkParam (Has (lstrip [b])) (Has [a]) None, false)
    | RLines _ => Err IndexError
    end
  end.

Definition gp (p : param) : gparam := gparam_of_param p.

(* _parse_phase_numpydoc_and_google: returns (doc, params, returns) *)
Definition parse_phase_ng (style : ngstyle) (fl : ngflags) (sc : scanned)
  : outcome (str * list (str * param) * fld param) :=
  let scanned_params0 := sc_args sc in
  let '(scanned_params, doc1) :=
      match afterward_index scanned_params0 0 with
      | Some (S k) =>
        (firstn (S k) scanned_params0,
         sc_doc sc ++ nlnlnl ++ afterward_text (skipn (S k) scanned_params0))
      | _ => (scanned_params0, sc_doc sc)
      end in
  let doc2 := match sc_afterward sc with
              | Some l => doc1 ++ nlnlnl ++ join [nl] l
              | None => doc1
              end in
  do pr <- params_loop style fl scanned_params false [];
  let '(pairs, req) := pr in
  let params := od_of_pairs pairs in
  if retv_truthy (sc_ret sc) then
    do rd <- return_dict style (sc_ret sc);
    let '(rp, is_list) := rd in
    do np <- set_name_and_type (L "return_type") rp is_list (f_infer_type fl) (f_word_wrap fl);
    do pr2 <- interpolate_force (snd np) req (f_emit_default_doc fl);
    Ok (doc2, params, Has (fst pr2))
  else Ok (doc2, params, FNone).

Fixpoint map_o {A B} (f : A -> outcome B) (l : list A) : outcome (list B) :=
  match l with
  | [] => Ok []
  | x :: r => do y <- f x; do ys <- map_o f r; Ok (y :: ys)
  end.

Definition ir_empty : ir := mkIR FNone (Has (L "static")) (Has []) [] FNone None.

Definition remove_defaults (params : list (str * param)) : outcome (list (str * param)) :=
  map_o (fun np => do p <- remove_default_from_param (snd np) false; Ok (fst np, p)) params.

(* parse_docstring, given the style it detected (google or numpydoc) *)
Definition parse_ng (style : ngstyle) (fl : ngflags) (docstring : str) : outcome ir :=
  if negb (forallb in_alphabet docstring) then Err Unmodelled
  else if is_empty docstring then Ok ir_empty
  else
    do sc <- scan_ng style docstring;
    do r <- parse_phase_ng style fl sc;
    let '(doc, params, returns) := r in
    do params' <- (if f_emit_default_prop fl then Ok params else remove_defaults params);
    do returns' <- (if f_emit_default_prop fl then Ok returns
                    else match returns with
                         | Has p => do p' <- remove_default_from_param p false; Ok (Has p')
                         | x => Ok x
                         end);
    Ok (mkIR FNone (Has (L "static")) (Has doc) (map (fun np => (fst np, gp (snd np))) params')
             (match returns' with Has p => Has (gp p) | FNone => FNone | Missing => Missing end) None).

(* parse_docstring on a str: style detection first; the ReST path is modelled elsewhere *)
Definition parse_docstring_ng (fl : ngflags) (docstring : str) : outcome ir :=
  match detect_style docstring with
  | StRest => Err Unmodelled
  | StGoogle => parse_ng SGoogle fl docstring
  | StNumpydoc => parse_ng SNumpydoc fl docstring
  end.

(* ---- wire ---- *)
Definition dec_ngstyle (e : sexp) : option ngstyle :=
  if is_sym "google" e then Some SGoogle else if is_sym "numpydoc" e then Some SNumpydoc else None.

Definition enc_retv (r : retv) : sexp :=
  match r with
  | RLines [] => SList [sym "units"; SList []]
  | RLines l => SList [sym "lines"; enc_list enc_str l]
  | RUnits u => SList [sym "units"; enc_list (enc_list enc_str) u]
  end.

Definition enc_scanned (s : scanned) : sexp :=
  SList [enc_str (sc_doc s); enc_list (enc_list enc_str) (sc_args s); enc_retv (sc_ret s);
         enc_option (enc_list enc_str) (sc_afterward s)].

Definition enc_style3 (s : style3) : sexp :=
  match s with StRest => sym "rest" | StGoogle => sym "google" | StNumpydoc => sym "numpydoc" end.

Definition dec_flags (a b c d : sexp) : option ngflags :=
  match dec_bool a, dec_bool b, dec_bool c, dec_bool d with
  | Some a, Some b, Some c, Some d => Some (mkFlags a b c d)
  | _, _, _, _ => None
  end.

(* FAMILY: run_docparseng *)
Definition run_docparseng (fn : sexp) (args : list sexp) : option sexp :=
  if is_sym "ng_parse" fn then
    match args with
    | [st; a; b; c; d; text] =>
      let? st := dec_ngstyle st in
      let? fl := dec_flags a b c d in
      let? text := dec_str text in
      Some (enc_outcome enc_ir (parse_ng st fl text))
    | _ => None
    end
  else if is_sym "ng_parse_docstring" fn then
    match args with
    | [a; b; c; d; text] =>
      let? fl := dec_flags a b c d in
      let? text := dec_str text in
      Some (enc_outcome enc_ir (parse_docstring_ng fl text))
    | _ => None
    end
  else if is_sym "ng_scan" fn then
    match args with
    | [st; text] =>
      let? st := dec_ngstyle st in
      let? text := dec_str text in
      Some (if negb (forallb in_alphabet text) then enc_outcome enc_scanned (Err Unmodelled)
            else enc_outcome enc_scanned (scan_ng st text))
    | _ => None
    end
  else if is_sym "ng_detect_style" fn then
    match args with
    | [text] => let? text := dec_str text in Some (enc_style3 (detect_style text))
    | _ => None
    end
  else None.
