(* C17Spec: the statement of property C17 over the model of defaults_utils, the boolean guard
   of its proved region and the finding classes that make up the guard's complement.
   Definitions only (executable: the harness evaluates them through the driver). *)
From Coq Require Import List Ascii Bool Arith ZArith.
From Coq Require String.
Import String.StringSyntax.
From DT Require Import PyStr Sexp PyVal TyExpr PureUtils Defaults.
Import ListNotations.

(* the four announcement phrases as they are written by a documentation author *)
Inductive announce : Type := ADefaultsTo | ADefaultsToNl | ADefaultValueIs | ADefaultColon.

Definition announce_text (a : announce) : str :=
  match a with
  | ADefaultsTo => L "Defaults to "
  | ADefaultsToNl => L "Defaults to" ++ [nl]
  | ADefaultValueIs => L "Default value is "
  | ADefaultColon => L "Default:"
  end.

Definition fld_of_opt {A} (o : option A) : fld A := match o with Some a => Has a | None => Missing end.

(* the text of the value as set_default_doc writes it (quoted when the declared type asks for it) *)
Definition shown_value (v : pyval) (t : option str) : outcome str :=
  let v' := if pyval_eqb v (VStr NoneStr) then VNone else v in
  do s <- shown_default v' t;
  Ok (py_str s).

(* the sentence.  For ADefaultsTo it is whatever set_default_doc writes (the real writer, name "x");
   for the other three phrases, which doctrans only reads, it is prose + space + phrase + value text. *)
Definition render (a : announce) (d : str) (v : pyval) (t : option str) : outcome str :=
  match a with
  | ADefaultsTo =>
    do p <- set_default_doc (L "x") (mkParam (Has d) (fld_of_opt t) (Some v)) true;
    match p_doc p with
    | Has line => if startswith (d ++ L " Defaults to ") line then Ok line else Err ValueError
    | _ => Err ValueError
    end
  | _ =>
    do s <- shown_value v t;
    Ok (d ++ [sp] ++ announce_text a ++ s)
  end.

(* prose that announces nothing *)
Definition no_announce (line : str) : bool :=
  forallb (fun a => negb (contains (casefold a) (casefold line))) default_announces.

(* "same value with the same Python type".  v' is what extract_default returned; its consumer
   interpolate_defaults stores unquote(v').  None travels as None, "None" or NoneStr in doctrans IRs. *)
Definition none_like (v : pyval) : bool := in_none_types v.
Definition same_default (v v' : pyval) : bool :=
  pyval_eqb v (unquote_val v') || (none_like v && none_like v').

(* the domain of the property: non-empty prose that does not itself announce a default *)
Definition C17_domain (d : str) : bool :=
  negb (match d with [] => true | _ => false end) && no_announce d.

(* the property at one point *)
Definition C17_at (a : announce) (d : str) (v : pyval) (t : option str) : Prop :=
  exists line,
    render a d v t = Ok line
    /\ (exists v', extract_default line true default_announces t true = Ok (line, Some v')
                   /\ same_default v v' = true)
    /\ (exists v', extract_default line true default_announces t false = Ok (d, Some v')
                   /\ same_default v v' = true).

(* executable form of the same, used by the harness on model outputs *)
Definition C17_at_b (a : announce) (d : str) (v : pyval) (t : option str) : bool :=
  match render a d v t with
  | Ok line =>
    (match extract_default line true default_announces t true with
     | Ok (l', Some v') => str_eqb l' line && same_default v v'
     | _ => false
     end)
    && (match extract_default line true default_announces t false with
        | Ok (d', Some v') => str_eqb d' d && same_default v v'
        | _ => false
        end)
  | Err _ => false
  end.

Definition is_unmodelled {A} (o : outcome A) : bool :=
  match o with Err Unmodelled => true | _ => false end.

(* does evaluating the property at this point leave the modelled fragment? *)
Definition c17_touches_unmodelled (a : announce) (d : str) (v : pyval) (t : option str) : bool :=
  match render a d v t with
  | Ok line => is_unmodelled (extract_default line true default_announces t true)
               || is_unmodelled (extract_default line true default_announces t false)
  | Err Unmodelled => true
  | Err _ => false
  end.

(* ---- finding classes (the complement of the guard), most specific first ---- *)
Inductive c17_class : Type :=
| K_prose_no_terminal         (* a full stop is inserted before the sentence and never taken back *)
| K_prose_mentions_defaults   (* "defaults"/"Defaults" anywhere in the prose suppresses writing the sentence *)
| K_value_announces           (* the value text contains an announcement phrase of higher priority *)
| K_scan_cut                  (* value text has a full stop not followed by a digit at bracket depth 0, or brackets before one *)
| K_strip_changes             (* value text begins/ends with space, tab or back-tick (code-quoted values lose their quoting) *)
| K_paren_rule                (* value text ends with ")." and does not start with "(" *)
| K_str_reads_as_other        (* an undeclared str value that reads as int/bool/float *)
| K_typed_literal             (* declared scalar type: literal_eval of the text is not the value (bare words, quotes inside) *)
| K_unmodelled.               (* outside the modelled fragment of float()/literal_eval/type syntax *)

Definition class_name (k : c17_class) : str :=
  match k with
  | K_prose_no_terminal => L "prose-no-terminal-punctuation"
  | K_prose_mentions_defaults => L "prose-mentions-defaults"
  | K_value_announces => L "value-contains-announcement"
  | K_scan_cut => L "value-cut-at-full-stop"
  | K_strip_changes => L "value-stripped"
  | K_paren_rule => L "value-paren-rule"
  | K_str_reads_as_other => L "str-reads-as-other-type"
  | K_typed_literal => L "typed-literal-mismatch"
  | K_unmodelled => L "unmodelled"
  end.

Definition is_err {A} (o : outcome A) : bool := match o with Err _ => true | Ok _ => false end.

Definition ends_with_terminal (d : str) : bool :=
  match last_c d with Some c => ascii_eqb c (ch 46) || ascii_eqb c (ch 44) | None => false end.

Definition strip_set : str := L " `" ++ [tabch].

(* within  phrase ++ value  the search (priority order, first occurrence) lands on the phrase itself *)
Definition value_announce_ok (a : announce) (s : str) : bool :=
  match location_within casefold (announce_text a ++ s) default_announces with
  | Some (0, e, _) => Nat.eqb e (List.length (announce_text a))
  | _ => false
  end.

Definition finding_class_C17 (a : announce) (d : str) (v : pyval) (t : option str) : option c17_class :=
  if negb (ends_with_terminal d) then Some K_prose_no_terminal
  else if contains (L "Defaults") d || contains (L "defaults") d then Some K_prose_mentions_defaults
  else
    match shown_value v t with
    | Err _ => Some K_unmodelled
    | Ok s =>
      if negb (value_announce_ok a s) then Some K_value_announces
      else if negb (str_eqb (scan_default s 0) s) then Some K_scan_cut
      else if negb (str_eqb (strip_chars strip_set s) s) then Some K_strip_changes
      else if negb (startswith [ch 40] s) && endswith (L ").") s then Some K_paren_rule
      else
        match coerce_default t s with
        | Err Unmodelled => Some K_unmodelled
        | Err _ => Some K_typed_literal
        | Ok v2 =>
          if same_default v v2 then None
          else match v, t with
               | VStr _, None => Some K_str_reads_as_other
               | _, _ => Some K_typed_literal
               end
        end
    end.

(* the proved region: in the domain and outside every class *)
Definition guard_C17 (a : announce) (d : str) (v : pyval) (t : option str) : bool :=
  C17_domain d && match finding_class_C17 a d v t with None => true | Some _ => false end.

(* wire *)
Definition dec_announce (e : sexp) : option announce :=
  if is_sym "defaults-to" e then Some ADefaultsTo
  else if is_sym "defaults-to-nl" e then Some ADefaultsToNl
  else if is_sym "default-value-is" e then Some ADefaultValueIs
  else if is_sym "default-colon" e then Some ADefaultColon
  else None.

(* FAMILY: run_c17 *)
Definition run_c17 (fn : sexp) (args : list sexp) : option sexp :=
  match args with
  | [a; d; v; t] =>
    match dec_announce a, dec_str d, dec_pyval v, dec_option dec_str t with
    | Some a, Some d, Some v, Some t =>
      if is_sym "c17_class" fn then
        Some (if negb (C17_domain d) then sym "out-of-domain"
              else enc_option (fun k => enc_str (class_name k)) (finding_class_C17 a d v t))
      else if is_sym "c17_render" fn then Some (enc_outcome enc_str (render a d v t))
      else if is_sym "c17_holds" fn then
        Some (if c17_touches_unmodelled a d v t then sym "unmodelled" else enc_bool (C17_at_b a d v t))
      else None
    | _, _, _, _ => None
    end
  | [line] =>
    if is_sym "c17_no_announce" fn then option_map (fun l => enc_bool (no_announce l)) (dec_str line) else None
  | _ => None
  end.
