(* C18Spec2: the C18 classifier refined by what the READER does with default sentences (definitions only).

   finding_class_C18 (model/C18Spec.v) calls a wrapped default sentence fragile only in the return entry or in a parameter
   without a :type line: a typed parameter is re-joined before the sentence is searched again.  That is right when the
   reader keeps the sentence (parse.docstring(..., emit_default_doc=True)): the pass made when the :type line arrives
   re-extracts from the re-joined prose.  With emit_default_doc=False the first pass, made on the still wrapped :param
   value, already removes the sentence and stores the broken value (theorem C18_default_split_typed_witness in
   props/C18Ext.v: the default comes back with the line break inside, as on the real code), and no later pass sees the
   sentence again - so there EVERY entry whose wrapped line announces a default is fragile.  *)
From Coq Require Import List Ascii Bool Arith.
From Coq Require String.
Import String.StringSyntax.
From DT Require Import PyStr Sexp PyVal IR C18Spec.
Import ListNotations.

Definition finding_class_C18_r (keep_sentence : bool) (w : nat) (e : emitter) (i : ir) : option c18_class :=
  match finding_class_C18 w e i with
  | Some k => Some k
  | None =>
    if negb keep_sentence
       && existsb (fun bl => Nat.ltb w (flat_len (snd bl)) && default_sentence_fragile true (snd bl))
                  (pc_prose (pieces_of e i))
    then Some K18_default_wrapped
    else None
  end.

Definition guard_C18_r (keep_sentence : bool) (w : nat) (e : emitter) (i : ir) : bool :=
  Nat.ltb 0 w && match finding_class_C18_r keep_sentence w e i with None => true | Some _ => false end.

(* FAMILY: run_c18r *)
Definition run_c18r (fn : sexp) (args : list sexp) : option sexp :=
  if is_sym "c18_class_r" fn then
    match args with
    | [k; w; e; i] =>
      match dec_bool k, dec_nat w, dec_emitter e, dec_ir i with
      | Some k, Some w, Some e, Some i =>
        Some (enc_option (fun c => enc_str (class_name18 c)) (finding_class_C18_r k w e i))
      | _, _, _, _ => None
      end
    | _ => None
    end
  else None.
