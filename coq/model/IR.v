(* IR: doctrans' intermediate representation as data.  A parameter's default may be a scalar, an AST
   node (func_arg2param puts the raw node there until _infer_default converts it) or another Python
   object carried by its repr.  Definitions and wire codec only. *)
From Coq Require Import List Ascii Bool Arith ZArith.
From Coq Require String.
Import String.StringSyntax.
From DT Require Import PyStr Sexp PyVal PureUtils Defaults PyAst.
Import ListNotations.

Inductive dval : Type :=
| DV (v : pyval)
| DE (e : expr)
| DO (repr : str).      (* [] () {} set() and anything else: Python repr *)

Record gparam : Type := mkG {
  g_doc : fld str;
  g_typ : fld str;
  g_default : option dval
}.

Definition dval_eqb (a b : dval) : bool :=
  match a, b with
  | DV x, DV y => pyval_eqb x y
  | DE x, DE y => expr_eqb x y
  | DO x, DO y => str_eqb x y
  | _, _ => false
  end.

Definition gparam_of_param (p : param) : gparam :=
  mkG (p_doc p) (p_typ p) (option_map DV (p_default p)).

(* only defined when the default is a scalar *)
Definition param_of_gparam (g : gparam) : option param :=
  match g_default g with
  | None => Some (mkParam (g_doc g) (g_typ g) None)
  | Some (DV v) => Some (mkParam (g_doc g) (g_typ g) (Some v))
  | Some _ => None
  end.

Record internal : Type := mkInternal {
  in_body : list stmt;
  in_from_name : fld str;
  in_from_type : fld str
}.

Record ir : Type := mkIR {
  ir_name : fld str;
  ir_type : fld str;
  ir_doc : fld str;
  ir_params : list (str * gparam);        (* OrderedDict, insertion order *)
  ir_returns : fld gparam;                (* Has p  =  OrderedDict((("return_type", p),)) *)
  ir_internal : option internal
}.

(* OrderedDict operations on params *)
Fixpoint od_get {A} (k : str) (d : list (str * A)) : option A :=
  match d with
  | [] => None
  | (k', v) :: r => if str_eqb k k' then Some v else od_get k r
  end.

(* d[k] = v : replace in place if present, else append *)
Fixpoint od_set {A} (k : str) (v : A) (d : list (str * A)) : list (str * A) :=
  match d with
  | [] => [(k, v)]
  | (k', v') :: r => if str_eqb k k' then (k, v) :: r else (k', v') :: od_set k v r
  end.

Fixpoint od_pop {A} (k : str) (d : list (str * A)) : list (str * A) :=
  match d with
  | [] => []
  | (k', v') :: r => if str_eqb k k' then r else (k', v') :: od_pop k r
  end.

Definition od_keys {A} (d : list (str * A)) : list str := map fst d.

(* OrderedDict(pairs): later duplicates overwrite the value but keep the first position *)
Definition od_of_pairs {A} (l : list (str * A)) : list (str * A) :=
  fold_left (fun d kv => od_set (fst kv) (snd kv) d) l [].

(* ---- wire ---- *)
Definition enc_dval (d : dval) : sexp :=
  match d with
  | DV v => SList [sym "dv"; enc_pyval v]
  | DE e => SList [sym "de"; enc_expr e]
  | DO r => SList [sym "do"; enc_str r]
  end.
Definition dec_dval (e : sexp) : option dval :=
  match e with
  | SList [t; x] =>
    if is_sym "dv" t then option_map DV (dec_pyval x)
    else if is_sym "de" t then option_map DE (dec_expr x)
    else if is_sym "do" t then option_map DO (dec_str x)
    else None
  | _ => None
  end.

Definition enc_gparam (p : gparam) : sexp :=
  SList [enc_fld enc_str (g_doc p); enc_fld enc_str (g_typ p); enc_option enc_dval (g_default p)].
Definition dec_gparam (e : sexp) : option gparam :=
  match e with
  | SList [d; t; v] =>
    match dec_fld dec_str d, dec_fld dec_str t, dec_option dec_dval v with
    | Some d', Some t', Some v' => Some (mkG d' t' v')
    | _, _, _ => None
    end
  | _ => None
  end.

Definition enc_internal (i : internal) : sexp :=
  SList [SList (map enc_stmt (in_body i)); enc_fld enc_str (in_from_name i); enc_fld enc_str (in_from_type i)].
Definition dec_internal (e : sexp) : option internal :=
  match e with
  | SList [b; n; t] =>
    match dec_list dec_stmt b, dec_fld dec_str n, dec_fld dec_str t with
    | Some b', Some n', Some t' => Some (mkInternal b' n' t')
    | _, _, _ => None
    end
  | _ => None
  end.

Definition enc_ir (i : ir) : sexp :=
  SList [enc_fld enc_str (ir_name i); enc_fld enc_str (ir_type i); enc_fld enc_str (ir_doc i);
         enc_list (enc_pair enc_str enc_gparam) (ir_params i);
         enc_fld enc_gparam (ir_returns i);
         enc_option enc_internal (ir_internal i)].
Definition dec_ir (e : sexp) : option ir :=
  match e with
  | SList [n; t; d; ps; r; i] =>
    match dec_fld dec_str n, dec_fld dec_str t, dec_fld dec_str d,
          dec_list (dec_pair dec_str dec_gparam) ps, dec_fld dec_gparam r, dec_option dec_internal i with
    | Some n', Some t', Some d', Some ps', Some r', Some i' => Some (mkIR n' t' d' ps' r' i')
    | _, _, _, _, _, _ => None
    end
  | _ => None
  end.
