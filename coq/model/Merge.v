(* Merge: doctrans/parser_utils.py (ir_merge, _join_non_none) over IR.ir, transcribed as the code is
   now (after fix 5000c02: parameters missing from the target are appended in `other`'s own order).
   Every remaining iteration over a Python set takes an explicit permutation parameter
   pi : list str -> list str applied to a canonical listing of the set.  Definitions only. *)
From Coq Require Import List Ascii Bool Arith ZArith.
From Coq Require String.
Import String.StringSyntax.
From DT Require Import PyStr Sexp PyVal PureUtils Defaults PyAst IR.
Import ListNotations.

(* a set iteration order: the list actually visited, given a canonical listing of the set *)
Definition perm : Type := list str -> list str.

(* bool(d.get(k)) for a str-valued key: missing, None and the empty string are falsy *)
Definition fld_truthy (f : fld str) : bool :=
  match f with Has (_ :: _) => true | _ => false end.

(* d.get(k) is None *)
Definition fld_is_none {A} (f : fld A) : bool :=
  match f with Has _ => false | _ => true end.

(* `k in d` *)
Definition fld_present {A} (f : fld A) : bool :=
  match f with Missing => false | _ => true end.

Fixpoint mem_str (k : str) (l : list str) : bool :=
  match l with
  | [] => false
  | x :: r => str_eqb k x || mem_str k r
  end.

Fixpoint dedup (l : list str) : list str :=
  match l with
  | [] => []
  | x :: r => if mem_str x r then dedup r else x :: dedup r
  end.

(* does one of the characters [cs] occur outside string quotes in a repr? *)
Fixpoint unquoted_mem (cs : str) (s : str) (q : option ascii) : bool :=
  match s with
  | [] => false
  | c :: r =>
    match q with
    | Some qc =>
      if ascii_eqb c (ch 92) then (match r with [] => false | _ :: r' => unquoted_mem cs r' q end)
      else if ascii_eqb c qc then unquoted_mem cs r None
      else unquoted_mem cs r q
    | None =>
      if mem_c c cs then true
      else if ascii_eqb c sq || ascii_eqb c dq then unquoted_mem cs r (Some c)
      else unquoted_mem cs r None
    end
  end.

(* a colon outside quotes: the mark of a dict display *)
Definition unquoted_colon (s : str) (q : option ascii) : bool := unquoted_mem [ch 58] s q.

(* is the Python object behind a DO (carried by its repr) accepted by `x in frozenset(...)`?
   (a set is: it is looked up as a frozenset.)  None = the model declines *)
Definition do_hashable (r : str) : option bool :=
  match r with
  | c :: _ =>
    if ascii_eqb c (ch 91) then Some false                                     (* list *)
    else if ascii_eqb c (ch 123) then
      Some (negb (str_eqb r (L "{}") || unquoted_colon r None))                 (* dict : set display *)
    else if startswith (L "bytearray(") r then Some false
    else if ascii_eqb c (ch 40) then                                            (* tuple *)
      (if contains (L "set(") r || contains (L "bytearray(") r then None
       else Some (negb (unquoted_mem [ch 91; ch 123] r None)))
    else if startswith (L "b'") r || startswith [ch 98; ch 34] r || str_eqb r (L "Ellipsis")
            || endswith (L "j") r || startswith (L "frozenset(") r || str_eqb r (L "set()")
    then Some true
    else None
  | [] => None
  end.

Definition dval_modelled_hash (d : option dval) : bool :=
  match d with
  | Some (DO r) => match do_hashable r with Some _ => true | None => false end
  | _ => true
  end.

Definition params_modelled (ps : list (str * gparam)) : bool :=
  forallb (fun kv => dval_modelled_hash (g_default (snd kv))) ps.

(* target_params[name].get("default") in none_types   (none_types is a tuple: `in` compares with ==) *)
Definition default_in_none_types (d : option dval) : bool :=
  match d with
  | None => in_none_types VNone
  | Some (DV v) => in_none_types v
  | Some _ => false
  end.

(* x not in frozenset((None, "None", "(None)")) : hashes x *)
Definition not_in_none_frozenset (d : dval) : outcome bool :=
  match d with
  | DV VNone => Ok false
  | DV (VStr s) => Ok (negb (str_eqb s (L "None") || str_eqb s (L "(None)")))
  | DV _ => Ok true
  | DE _ => Ok true                      (* ast nodes hash by identity *)
  | DO r => match do_hashable r with
            | Some true => Ok true
            | Some false => Err TypeError
            | None => Err Unmodelled     (* excluded up front by params_modelled *)
            end
  end.

(* the body of the first loop of ir_merge for one name present in both maps *)
Definition merge_param (t o : gparam) : outcome gparam :=
  let t1 := if negb (fld_truthy (g_doc t)) && fld_truthy (g_doc o)
            then mkG (g_doc o) (g_typ t) (g_default t) else t in
  let t2 := if fld_is_none (g_typ t1) && fld_truthy (g_typ o)
            then mkG (g_doc t1) (g_typ o) (g_default t1) else t1 in
  if default_in_none_types (g_default t2) then
    match g_default o with
    | None => Ok t2
    | Some od => do nin <- not_in_none_frozenset od;
                 Ok (if nin then mkG (g_doc t2) (g_typ t2) (Some od) else t2)
    end
  else Ok t2.

(* canonical listing of  other_params.keys() & target_params.keys() *)
Definition inter_keys (op tp : list (str * gparam)) : list str :=
  dedup (filter (fun k => mem_str k (od_keys tp)) (od_keys op)).

Definition inter_step (op : list (str * gparam)) (name : str) (tp : list (str * gparam))
  : outcome (list (str * gparam)) :=
  match od_get name tp, od_get name op with
  | Some t, Some o => do t' <- merge_param t o; Ok (od_set name t' tp)
  | _, _ => Err KeyError          (* unreachable for names of the intersection *)
  end.

Fixpoint fold_outcome {A B} (f : B -> A -> outcome A) (l : list B) (a : A) : outcome A :=
  match l with
  | [] => Ok a
  | x :: r => do a' <- f x a; fold_outcome f r a'
  end.

(* for name in <set>: ...   visited in the order [names] *)
Definition inter_loop (names : list str) (op tp : list (str * gparam)) : outcome (list (str * gparam)) :=
  fold_outcome (inter_step op) names tp.

(* for name in other_params.keys(): if name not in target_params: target_params[name] = other_params[name] *)
Definition append_missing (op tp : list (str * gparam)) : list (str * gparam) :=
  fold_left (fun d kv => match od_get (fst kv) d with
                         | Some _ => d
                         | None => od_set (fst kv) (snd kv) d
                         end) op tp.

Definition merge_params (pi : perm) (tp op : list (str * gparam)) : outcome (list (str * gparam)) :=
  match tp with
  | [] => Ok op
  | _ :: _ =>
    match op with
    | [] => Ok tp
    | _ :: _ => do tp1 <- inter_loop (pi (inter_keys op tp)) op tp; Ok (append_missing op tp1)
    end
  end.

(* ---- _join_non_none ---- *)
Definition key_doc : str := L "doc".
Definition key_typ : str := L "typ".
Definition key_default : str := L "default".

Definition gparam_empty (p : gparam) : bool :=
  negb (fld_present (g_doc p)) && negb (fld_present (g_typ p))
  && match g_default p with None => true | Some _ => false end.

Definition default_is_none (d : option dval) : bool :=
  match d with None => true | Some (DV VNone) => true | Some _ => false end.

(* canonical listing of frozenset(chain(primacy.keys(), other.keys())) *)
Definition join_keys (p o : gparam) : list str :=
  (if fld_present (g_doc p) || fld_present (g_doc o) then [key_doc] else [])
  ++ (if fld_present (g_typ p) || fld_present (g_typ o) then [key_typ] else [])
  ++ (match g_default p, g_default o with None, None => [] | _, _ => [key_default] end).

(* if primacy.get(key) is None and other.get(key) is not None: primacy[key] = other[key] *)
Definition join_step (o : gparam) (key : str) (p : gparam) : gparam :=
  if str_eqb key key_doc then
    (if fld_is_none (g_doc p) && negb (fld_is_none (g_doc o)) then mkG (g_doc o) (g_typ p) (g_default p) else p)
  else if str_eqb key key_typ then
    (if fld_is_none (g_typ p) && negb (fld_is_none (g_typ o)) then mkG (g_doc p) (g_typ o) (g_default p) else p)
  else if str_eqb key key_default then
    (if default_is_none (g_default p) && negb (default_is_none (g_default o))
     then mkG (g_doc p) (g_typ p) (g_default o) else p)
  else p.

Definition join_non_none (pj : perm) (primacy other : gparam) : gparam :=
  if gparam_empty primacy then other
  else if gparam_empty other then primacy
  else fold_left (fun p key => join_step other key p) (pj (join_keys primacy other)) primacy.

(* ---- returns ---- *)
Definition merge_returns (pj : perm) (tr orr : fld gparam) : outcome (fld gparam) :=
  match tr with
  | Has t =>
    match orr with
    | Missing => Err KeyError            (* other["returns"] *)
    | FNone => Ok tr
    | Has o => Ok (Has (join_non_none pj t o))
    end
  | _ =>
    match orr with
    | Missing => Err KeyError
    | _ => Ok orr
    end
  end.

(* ---- _internal ---- *)
Definition fld_override {A} (o t : fld A) : fld A :=
  match o with Missing => t | _ => o end.

Definition merge_internal (ti oi : option internal) : option internal :=
  match oi with
  | Some o =>
    match in_body o with
    | [] => ti
    | _ :: _ =>
      match ti with
      | Some t => Some (mkInternal (in_body o) (fld_override (in_from_name o) (in_from_name t))
                                   (fld_override (in_from_type o) (in_from_type t)))
      | None => Some o
      end
    end
  | None => ti
  end.

(* parser_utils.py:ir_merge(target, other); pi = order of the key intersection, pj = order of the
   key union inside _join_non_none *)
Definition ir_merge (pi pj : perm) (target other : ir) : outcome ir :=
  if negb (params_modelled (ir_params target) && params_modelled (ir_params other)) then Err Unmodelled
  else
    do params <- merge_params pi (ir_params target) (ir_params other);
    do returns <- merge_returns pj (ir_returns target) (ir_returns other);
    Ok (mkIR (ir_name target) (ir_type target) (ir_doc target) params returns
             (merge_internal (ir_internal target) (ir_internal other))).

(* ---- permutations over the wire: a priority list; names in it come first, in its order ---- *)
Definition perm_of_order (order : list str) : perm :=
  fun l => filter (fun k => mem_str k l) (dedup order) ++ filter (fun k => negb (mem_str k order)) l.

Definition opt_bind' {A B} (x : option A) (f : A -> option B) : option B :=
  match x with Some a => f a | None => None end.

(* FAMILY: run_merge *)
Definition run_merge (fn : sexp) (args : list sexp) : option sexp :=
  if is_sym "ir_merge" fn then
    match args with
    | [pi; pj; t; o] =>
      opt_bind' (dec_list dec_str pi) (fun pi =>
      opt_bind' (dec_list dec_str pj) (fun pj =>
      opt_bind' (dec_ir t) (fun t =>
      opt_bind' (dec_ir o) (fun o =>
      Some (enc_outcome enc_ir (ir_merge (perm_of_order pi) (perm_of_order pj) t o))))))
    | _ => None
    end
  else if is_sym "join_non_none" fn then
    match args with
    | [pj; p; o] =>
      opt_bind' (dec_list dec_str pj) (fun pj =>
      opt_bind' (dec_gparam p) (fun p =>
      opt_bind' (dec_gparam o) (fun o =>
      Some (enc_gparam (join_non_none (perm_of_order pj) p o)))))
    | _ => None
    end
  else if is_sym "inter_keys" fn then
    match args with
    | [t; o] =>
      opt_bind' (dec_ir t) (fun t =>
      opt_bind' (dec_ir o) (fun o =>
      Some (enc_list enc_str (inter_keys (ir_params o) (ir_params t)))))
    | _ => None
    end
  else None.
