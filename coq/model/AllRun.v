(* AllRun: the list of request families served by the extracted driver. *)
From Coq Require Import List.
From DT Require Import PyStr Sexp Run C17Spec.
Import ListNotations.

Definition all_families := families ++ [run_c17].

Definition handle_all (line : str) : str := handle_line_with all_families line.
