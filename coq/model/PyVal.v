(* PyVal: the Python scalar values that occur as defaults, exceptions as data, and the
   CPython conversions doctrans applies to them (str(), float(), int(), literal_eval on scalars).
   Definitions only. *)
From Coq Require Import List Ascii Bool Arith ZArith.
From Coq Require String.
Import String.StringSyntax.
From DT Require Import PyStr Sexp.
Import ListNotations.

Inductive err : Type :=
| AttributeError | IndexError | ValueError | SyntaxError | TypeError | AssertionError
| NotImplementedError | KeyError | StopIteration | IOError | Unmodelled.

Inductive outcome (A : Type) : Type :=
| Ok (a : A)
| Err (e : err).
Arguments Ok {A} a.
Arguments Err {A} e.

Definition bind {A B} (x : outcome A) (f : A -> outcome B) : outcome B :=
  match x with Ok a => f a | Err e => Err e end.
Notation "'do' x <- e1 ; e2" := (bind e1 (fun x => e2)) (at level 200, x name, e1 at level 100, e2 at level 200).

(* A float is carried as its canonical repr() text; the model never does float arithmetic. *)
Inductive pyval : Type :=
| VNone
| VBool (b : bool)
| VInt (z : Z)
| VFloat (r : str)
| VStr (s : str).

Definition pyval_eqb (a b : pyval) : bool :=
  match a, b with
  | VNone, VNone => true
  | VBool x, VBool y => Bool.eqb x y
  | VInt x, VInt y => Z.eqb x y
  | VFloat x, VFloat y => str_eqb x y
  | VStr x, VStr y => str_eqb x y
  | _, _ => false
  end.

(* "{}".format(v) / str(v) *)
Definition py_str (v : pyval) : str :=
  match v with
  | VNone => L "None"
  | VBool true => L "True"
  | VBool false => L "False"
  | VInt z => dec_of_Z z
  | VFloat r => r
  | VStr s => s
  end.

(* type(v).__name__ *)
Definition type_name (v : pyval) : str :=
  match v with
  | VNone => L "NoneType"
  | VBool _ => L "bool"
  | VInt _ => L "int"
  | VFloat _ => L "float"
  | VStr _ => L "str"
  end.

(* bool(v) *)
Definition truthy (v : pyval) : bool :=
  match v with
  | VNone => false
  | VBool b => b
  | VInt z => negb (Z.eqb z 0)
  | VFloat r => negb (str_eqb r (L "0.0") || str_eqb r (L "-0.0"))
  | VStr s => match s with [] => false | _ => true end
  end.

(* ---- float() ---- *)

(* digitpart ::= digit ("_"? digit)*  ; returns the remainder after the longest digitpart *)
Fixpoint digitpart_rest (s : str) (seen_digit : bool) : option str :=
  match s with
  | [] => if seen_digit then Some [] else None
  | c :: r =>
    if isdigit c then digitpart_rest r true
    else if ascii_eqb c (ch 95) then
      (if seen_digit then
         match r with
         | d :: _ => if isdigit d then digitpart_rest r false else None
         | [] => None
         end
       else None)
    else if seen_digit then Some s else None
  end.

Definition exponent_ok (s : str) : bool :=
  match s with
  | [] => true
  | e :: r =>
    if ascii_eqb (lower_c e) (ch 101) then
      let r' := match r with
                | c :: r'' => if ascii_eqb c (ch 43) || ascii_eqb c (ch 45) then r'' else r
                | [] => r
                end in
      match digitpart_rest r' false with Some [] => true | _ => false end
    else false
  end.

Definition unsigned_float_syntax (s : str) : bool :=
  let w := casefold s in
  if str_eqb w (L "inf") || str_eqb w (L "infinity") || str_eqb w (L "nan") then true
  else
    match s with
    | c :: r =>
      if ascii_eqb c (ch 46) then
        match digitpart_rest r false with Some rest => exponent_ok rest | None => false end
      else
        match digitpart_rest s false with
        | None => false
        | Some rest =>
          match rest with
          | d :: rest' =>
            if ascii_eqb d (ch 46) then
              match rest' with
              | [] => true
              | x :: _ => if isdigit x then
                            match digitpart_rest rest' false with
                            | Some rest'' => exponent_ok rest''
                            | None => false
                            end
                          else exponent_ok rest'
              end
            else exponent_ok rest
          | [] => true
          end
        end
    | [] => false
    end.

(* does float(s) succeed? (ASCII) *)
Definition float_syntax (s : str) : bool :=
  let t := strip s in
  match t with
  | c :: r => if ascii_eqb c (ch 43) || ascii_eqb c (ch 45) then unsigned_float_syntax r
              else unsigned_float_syntax t
  | [] => false
  end.

(* canonical repr of the float denoted by plain decimal text [sign] int [. frac], when the
   number of significant digits is <= 15 and 1e-4 <= |x| < 1e16 or x = 0; None = not modelled *)
Definition strip_leading_zeros (s : str) : str :=
  match dropwhile (ascii_eqb (ch 48)) s with [] => [ch 48] | t => t end.
Definition strip_trailing_zeros (s : str) : str :=
  match rev (dropwhile (ascii_eqb (ch 48)) (rev s)) with [] => [ch 48] | t => t end.

Definition strip_trailing_zeros_nz (s : str) : str := rev (dropwhile (ascii_eqb (ch 48)) (rev s)).

Definition canon_plain (neg : bool) (ip fp : str) : option str :=
  if forallb isdigit ip && forallb isdigit fp && negb (Nat.eqb (length ip + length fp) 0) then
    let ip' := strip_leading_zeros ip in
    let fp' := strip_trailing_zeros fp in
    let sig := dropwhile (ascii_eqb (ch 48)) (ip' ++ (if str_eqb fp' [ch 48] then [] else fp')) in
    let is_zero := match sig with [] => true | _ => false end in
    let small := str_eqb ip' [ch 48] && Nat.leb 4 (length (takewhile (ascii_eqb (ch 48)) fp'))
                 && negb is_zero in
    if Nat.leb (length (strip_trailing_zeros_nz sig)) 15 && Nat.leb (length ip') 16 && negb small
    then Some ((if neg then [ch 45] else []) ++ ip' ++ ch 46 :: fp')
    else None
  else None.

(* text that already is a canonical exponent-form repr: d[.ddd]e(+|-)XX with exponent < -4 or >= 16,
   at most 15 significant digits, magnitude well inside the double range *)
Definition canon_exp (u : str) : bool :=
  let '(m, e, x) := partition [ch 101] u in
  match e, x with
  | _ :: _, sgn :: xd =>
    let '(ip, dot, fp) := partition [ch 46] m in
    let neg_e := ascii_eqb sgn (ch 45) in
    (ascii_eqb sgn (ch 45) || ascii_eqb sgn (ch 43))
    && (match ip with [c] => isdigit c && negb (ascii_eqb c (ch 48)) | _ => false end)
    && (match dot with
        | [] => true
        | _ => forallb isdigit fp && negb (Nat.eqb (List.length fp) 0)
               && negb (endswith [ch 48] fp) && Nat.leb (List.length fp) 14
        end)
    && isdecimal xd && Nat.leb 2 (List.length xd) && Nat.leb (List.length xd) 3
    && (negb (startswith [ch 48] xd) || Nat.eqb (List.length xd) 2)
    && (let n := N.to_nat (N_of_dec xd) in
        Nat.leb n 300 && (if neg_e then Nat.leb 5 n else Nat.leb 16 n))
  | _, _ => false
  end.

(* float(s): Err ValueError when s is not float syntax, Err Unmodelled when it is but outside the
   canonicalisable fragment, Ok r (canonical repr) otherwise *)
Definition float_of_str (s : str) : outcome str :=
  if negb (float_syntax s) then Err ValueError
  else
    let t := strip s in
    let '(neg, u) := match t with
                     | c :: r => if ascii_eqb c (ch 45) then (true, r)
                                 else if ascii_eqb c (ch 43) then (false, r) else (false, t)
                     | [] => (false, t)
                     end in
    let w := casefold u in
    if str_eqb w (L "inf") || str_eqb w (L "infinity") then Ok ((if neg then [ch 45] else []) ++ L "inf")
    else if str_eqb w (L "nan") then Ok (L "nan")
    else
      if canon_exp u then Ok ((if neg then [ch 45] else []) ++ u)
      else
      let '(ip, _, fp) := partition [ch 46] u in
      match canon_plain neg ip fp with
      | Some r => Ok r
      | None => Err Unmodelled
      end.

(* float(int) for |z| < 10^15 *)
Definition float_of_Z (z : Z) : outcome str :=
  if (Z.abs z <? 1000000000000000)%Z then Ok (dec_of_Z z ++ L ".0") else Err Unmodelled.

(* int(float) for canonical plain reprs: truncation *)
Definition Z_of_dec_signed (s : str) : option Z :=
  match s with
  | c :: r => if ascii_eqb c (ch 45) then (if isdecimal r then Some (- Z.of_N (N_of_dec r))%Z else None)
              else if ascii_eqb c (ch 43) then (if isdecimal r then Some (Z.of_N (N_of_dec r)) else None)
              else if isdecimal s then Some (Z.of_N (N_of_dec s)) else None
  | [] => None
  end.

Definition int_of_float_repr (r : str) : outcome Z :=
  let '(ip, dot, _) := partition [ch 46] r in
  match dot, Z_of_dec_signed ip with
  | _ :: _, Some z => Ok z
  | _, _ => Err Unmodelled   (* inf/nan raise Overflow/ValueError; exponent forms not modelled *)
  end.

(* ast.literal_eval restricted to scalar source text: ints (signed), plain floats, quoted strings
   without backslashes or embedded quote marks, True/False/None.  Anything else is Unmodelled. *)
Definition quoted_simple (s : str) : option str :=
  match s with
  | q :: r =>
    if ascii_eqb q (ch 34) || ascii_eqb q (ch 39) then
      match rev r with
      | q' :: body_rev =>
        let body := rev body_rev in
        if ascii_eqb q q' && negb (mem_c q body) && negb (mem_c (ch 92) body) && negb (mem_c nl body)
        then Some body else None
      | [] => None
      end
    else None
  | [] => None
  end.

Definition py_keywords : list str :=
  [L "and"; L "as"; L "assert"; L "async"; L "await"; L "break"; L "class"; L "continue"; L "def"; L "del"; L "elif"; L "else"; L "except"; L "finally"; L "for"; L "from"; L "global"; L "if"; L "import"; L "in"; L "is"; L "lambda"; L "nonlocal"; L "not"; L "or"; L "pass"; L "raise"; L "return"; L "try"; L "while"; L "with"; L "yield"].

(* identifiers and dotted names (other than the three constants): ast.literal_eval raises ValueError *)
Definition is_bare_word (s : str) : bool :=
  match s with
  | c :: _ => (isalpha_c c || ascii_eqb c (ch 95))
              && forallb (fun x => isalnum_c x || ascii_eqb x (ch 95)) s
              && negb (existsb (str_eqb s) py_keywords)
  | [] => false
  end.

Definition literal_eval_scalar (s0 : str) : outcome pyval :=
  let s := strip_by (fun c => ascii_eqb c sp || ascii_eqb c tabch) s0 in
  if str_eqb s (L "None") then Ok VNone
  else if str_eqb s (L "True") then Ok (VBool true)
  else if str_eqb s (L "False") then Ok (VBool false)
  else if is_bare_word s then Err ValueError      (* a Name / Attribute node: malformed node or string *)
  else match quoted_simple s with
       | Some body => Ok (VStr body)
       | None =>
         match Z_of_dec_signed s with
         | Some z =>
           (* leading zeros ("007") are a SyntaxError in Python; keep them out of the fragment *)
           if str_eqb (dec_of_Z (Z.abs z)) (match s with
                                            | c :: r => if isdigit c then s else r
                                            | [] => s end)
           then Ok (VInt z) else Err Unmodelled
         | None =>
           if forallb (fun c => isdigit c || ascii_eqb c (ch 46) || ascii_eqb c (ch 45) || ascii_eqb c (ch 43)) s
              && float_syntax s && negb (str_eqb s s0 && false)
           then (do r <- float_of_str s; Ok (VFloat r))
           else Err Unmodelled
         end
       end.

(* the constructors doctrans applies after literal_eval: {"bool": bool, "int": int, ...}[typ](lit) *)
Definition coerce (typ : str) (v : pyval) : outcome pyval :=
  if str_eqb typ (L "bool") then Ok (VBool (truthy v))
  else if str_eqb typ (L "str") then Ok (VStr (py_str v))
  else if str_eqb typ (L "int") then
    match v with
    | VInt z => Ok (VInt z)
    | VBool b => Ok (VInt (if b then 1 else 0)%Z)
    | VFloat r => do z <- int_of_float_repr r; Ok (VInt z)
    | VStr s => match Z_of_dec_signed (strip s) with Some z => Ok (VInt z) | None => Err Unmodelled end
    | VNone => Err TypeError
    end
  else if str_eqb typ (L "float") then
    match v with
    | VInt z => do r <- float_of_Z z; Ok (VFloat r)
    | VBool b => Ok (VFloat (if b then L "1.0" else L "0.0"))
    | VFloat r => Ok (VFloat r)
    | VStr s => do r <- float_of_str s; Ok (VFloat r)
    | VNone => Err TypeError
    end
  else Err Unmodelled.  (* complex *)

(* wire encoding *)
Definition enc_pyval (v : pyval) : sexp :=
  match v with
  | VNone => sym "None"
  | VBool b => SList [sym "bool"; enc_bool b]
  | VInt z => SList [sym "int"; enc_Z z]
  | VFloat r => SList [sym "float"; enc_str r]
  | VStr s => SList [sym "str"; enc_str s]
  end.

Definition dec_pyval (e : sexp) : option pyval :=
  if is_sym "None" e then Some VNone
  else match e with
       | SList [t; x] =>
         if is_sym "bool" t then option_map VBool (dec_bool x)
         else if is_sym "int" t then option_map VInt (dec_Z x)
         else if is_sym "float" t then option_map VFloat (dec_str x)
         else if is_sym "str" t then option_map VStr (dec_str x)
         else None
       | _ => None
       end.

Definition enc_err (e : err) : sexp :=
  match e with
  | AttributeError => sym "AttributeError" | IndexError => sym "IndexError"
  | ValueError => sym "ValueError" | SyntaxError => sym "SyntaxError"
  | TypeError => sym "TypeError" | AssertionError => sym "AssertionError"
  | NotImplementedError => sym "NotImplementedError" | KeyError => sym "KeyError"
  | StopIteration => sym "StopIteration" | IOError => sym "IOError"
  | Unmodelled => sym "Unmodelled"
  end.

Definition enc_outcome {A} (f : A -> sexp) (o : outcome A) : sexp :=
  match o with
  | Ok a => SList [sym "ok"; f a]
  | Err e => SList [sym "err"; enc_err e]
  end.
