(* C13Spec: conversions do not interfere through a shared IR.  Each emit call is a function
   ir -> outcome (artefact * ir) (the IR as the call leaves it); run_shared threads one IR through a list
   of calls, run_fresh gives every call the original.  Definitions only.

   The docstring layer (to_docstring, emit.docstring) is another builder's model: here it is a parameter
   of the section (td, dsf, doc_op), as it is an explicit input of the EmitAst emitters.  What EmitAst
   itself writes into the shared IR is modelled exactly:
   - emit.class_ : nothing (it deep-copies its argument first);
   - emit.function : only what to_docstring writes;
   - emit.argparse_function : param2argparse_param's setdefault("typ", "Any"), the "<class '..'>" unwrapping
     of typ, and setdefault("doc", ""). *)
From Coq Require Import List Ascii Bool Arith ZArith.
From Coq Require String.
Import String.StringSyntax.
From DT Require Import PyStr Sexp PyVal TyExpr PureUtils Defaults PyAst IR EmitAst.
Import ListNotations.

Record td_opts : Type := mkTdOpts {
  td_emit_default_doc : bool;
  td_indent_level : nat;
  td_emit_types : bool;
  td_emit_separating_tab : bool;
  td_word_wrap : bool
}.

Record doc_opts : Type := mkDocOpts {
  do_word_wrap : bool;
  do_emit_default_doc : bool
}.

Inductive op : Type :=
| OpClass (emit_call : bool) (class_name : str) (bases decos : list str) (word_wrap emit_default_doc : bool)
| OpFunction (name type : option str) (word_wrap emit_default_doc : bool) (indent_level : nat)
             (emit_separating_tab inline_types emit_as_kwonlyargs : bool)
| OpArgparse (emit_default_doc : bool) (name type : option str) (wrap_description word_wrap : bool)
| OpDocstring (o : doc_opts).

Inductive artefact : Type :=
| AStmt (s : stmt)
| AText (t : str).

Definition is_argparse (o : op) : bool := match o with OpArgparse _ _ _ _ _ => true | _ => false end.
Definition is_class (o : op) : bool := match o with OpClass _ _ _ _ _ _ => true | _ => false end.
Definition uses_shared_docstring (o : op) : bool :=
  match o with OpFunction _ _ _ _ _ _ _ _ | OpDocstring _ => true | _ => false end.

(* what param2argparse_param leaves in a param dict *)
Definition argparse_footprint (g : gparam) : gparam :=
  let t1 := match g_typ g with
            | Missing => Has (L "Any")
            | Has t => if startswith class_prefix t
                       then Has (slice t (List.length class_prefix) (List.length t - 2)) else Has t
            | FNone => FNone
            end in
  mkG (match g_doc g with Missing => Has [] | d => d end) t1 (g_default g).

Definition param_argparse_stable (g : gparam) : bool :=
  match g_typ g with
  | Missing => false
  | Has t => negb (startswith class_prefix t)
  | FNone => true
  end
  && match g_doc g with Missing => false | _ => true end.

(* every parameter has a typ key (not of the "<class '..'>" form) and a doc key *)
Definition argparse_stable (i : ir) : bool := forallb (fun kv => param_argparse_stable (snd kv)) (ir_params i).

Section C13.
  Variable pt : ptable.
  (* to_docstring(ir, opts): text and the IR as left behind *)
  Variable td : td_opts -> ir -> outcome (str * ir).
  (* emit.docstring(argparse_doc_ir ir, word_wrap=..) inside argparse_function (its argument is a fresh dict) *)
  Variable dsf : bool -> ir -> outcome str.
  (* emit.docstring(ir, opts) as a call on the shared IR *)
  Variable doc_op : doc_opts -> ir -> outcome (str * ir).

  Definition run_op (o : op) (i : ir) : outcome (artefact * ir) :=
    match o with
    | OpClass ec cn bs ds ww edd =>
      (* to_docstring sees class_'s private copy, with the return entry folded into the params *)
      do r <- emit_class pt i ec cn bs ds ww (td (mkTdOpts edd 1 false true ww) (class_fold_returns i));
      Ok (AStmt (fst r), snd r)
    | OpFunction n t ww edd il tab it kw =>
      do r <- emit_function pt i n t it kw (td (mkTdOpts edd il (negb it) tab ww) i);
      Ok (AStmt (fst r), snd r)
    | OpArgparse edd n t wd ww =>
      do r <- emit_argparse pt i edd n t wd ww (dsf ww (argparse_doc_ir i));
      Ok (AStmt (fst r), snd r)
    | OpDocstring o => do r <- doc_op o i; Ok (AText (fst r), snd r)
    end.

  (* one IR object handed to every call in turn *)
  Fixpoint run_shared (ops : list op) (i : ir) : outcome (list artefact) :=
    match ops with
    | [] => Ok []
    | o :: r => do x <- run_op o i; do rest <- run_shared r (snd x); Ok (fst x :: rest)
    end.

  (* every call gets (a copy of) the original *)
  Fixpoint run_fresh (ops : list op) (i : ir) : outcome (list artefact) :=
    match ops with
    | [] => Ok []
    | o :: r => do x <- run_op o i; do rest <- run_fresh r i; Ok (fst x :: rest)
    end.

  (* the same as a fold, as in the design text *)
  Definition run_shared_fold (ops : list op) (i : ir) : outcome (list artefact * ir) :=
    fold_left (fun acc o => do st <- acc; do x <- run_op o (snd st); Ok (fst st ++ [fst x], snd x))
              ops (Ok ([], i)).

  (* the docstring layer leaves this IR as it found it *)
  Definition td_stable_on (i : ir) : Prop :=
    (forall o t i', td o i = Ok (t, i') -> i' = i)
    /\ (forall o t i', doc_op o i = Ok (t, i') -> i' = i).
End C13.

Definition C13_statement : Prop :=
  forall pt td dsf doc_op ops i, run_shared pt td dsf doc_op ops i = run_fresh pt td dsf doc_op ops i.

(* ------------------------------------------------------------------ guard and finding classes *)
Inductive c13_class : Type :=
| K_docstring_rewrites_ir      (* to_docstring / emit.docstring changed doc/default of the shared param dicts (observed) *)
| K_argparse_setdefault.       (* argparse_function wrote typ="Any" / unwrapped "<class ..>" / doc="" into the shared params *)

Definition c13_class_name (k : c13_class) : str :=
  match k with
  | K_docstring_rewrites_ir => L "docstring-rewrites-shared-ir"
  | K_argparse_setdefault => L "argparse-setdefault-leaks"
  end.

(* td_mutated: did a docstring-layer call on the shared object change it in this run (observed by the harness) *)
Definition finding_class_C13 (ops : list op) (i : ir) (td_mutated : bool) : option c13_class :=
  if existsb is_argparse ops && negb (argparse_stable i) then Some K_argparse_setdefault
  else if td_mutated then Some K_docstring_rewrites_ir
  else None.

Definition guard_C13 (ops : list op) (i : ir) : bool :=
  negb (existsb is_argparse ops) || argparse_stable i.

(* ------------------------------------------------------------------ wire *)
Definition dec_op (e : sexp) : option op :=
  match e with
  | SList [t; ec; cn; bs; ds; ww; edd] =>
    if is_sym "class" t then
      match dec_bool ec, dec_str cn, dec_list dec_str bs, dec_list dec_str ds, dec_bool ww, dec_bool edd with
      | Some ec, Some cn, Some bs, Some ds, Some ww, Some edd => Some (OpClass ec cn bs ds ww edd)
      | _, _, _, _, _, _ => None
      end
    else None
  | SList [t; n; ty; ww; edd; il; tab; it; kw] =>
    if is_sym "function" t then
      match dec_option dec_str n, dec_option dec_str ty, dec_bool ww, dec_bool edd, dec_nat il, dec_bool tab,
            dec_bool it, dec_bool kw with
      | Some n, Some ty, Some ww, Some edd, Some il, Some tab, Some it, Some kw =>
        Some (OpFunction n ty ww edd il tab it kw)
      | _, _, _, _, _, _, _, _ => None
      end
    else None
  | SList [t; edd; n; ty; wd; ww] =>
    if is_sym "argparse" t then
      match dec_bool edd, dec_option dec_str n, dec_option dec_str ty, dec_bool wd, dec_bool ww with
      | Some edd, Some n, Some ty, Some wd, Some ww => Some (OpArgparse edd n ty wd ww)
      | _, _, _, _, _ => None
      end
    else None
  | SList [t; ww; edd] =>
    if is_sym "docstring" t then
      match dec_bool ww, dec_bool edd with
      | Some ww, Some edd => Some (OpDocstring (mkDocOpts ww edd))
      | _, _ => None
      end
    else None
  | _ => None
  end.

(* FAMILY: run_c13 *)
Definition run_c13 (fn : sexp) (args : list sexp) : option sexp :=
  if is_sym "c13_class" fn then
    match args with
    | [ops; i; m] =>
      match dec_list dec_op ops, dec_ir i, dec_bool m with
      | Some ops, Some i, Some m =>
        Some (enc_option (fun k => enc_str (c13_class_name k)) (finding_class_C13 ops i m))
      | _, _, _ => None
      end
    | _ => None
    end
  else if is_sym "c13_argparse_footprint" fn then
    match args with
    | [g] => match dec_gparam g with Some g => Some (enc_gparam (argparse_footprint g)) | None => None end
    | _ => None
    end
  else None.
