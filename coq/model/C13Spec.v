(* C13Spec: conversions do not interfere through a shared IR.  Each emit call is a function
   ir -> outcome (artefact * ir) (the IR as the call leaves it); run_shared threads one IR through a list
   of calls, run_fresh gives every call the original.  Definitions only.

   What the EmitAst emitters write into the shared IR (modelled exactly, compared with the caller's IR after
   every call by the emitast correspondence family):
   - emit.class_ : nothing (it deep-copies its argument first);
   - emit.function : nothing (to_docstring works on copies of the param dicts);
   - emit.argparse_function : nothing (param2argparse_param works on a copy of the param dict).
   The docstring layer is another builder's model: the TEXT to_docstring / emit.docstring return is a
   parameter (td, dsf), and emit.docstring as a fourth call on the shared IR is the abstract doc_op, which
   returns the IR as it leaves it (emit_param_str -> set_default_doc still writes into the param dicts). *)
From Coq Require Import List Ascii Bool Arith ZArith.
From Coq Require String.
Import String.StringSyntax.
From DT Require Import PyStr Sexp PyVal TyExpr PureUtils Defaults PyAst IR EmitAst.
Import ListNotations.

Record td_opts : Type := mkTdOpts {
  td_emit_default_doc : bool;
  td_indent_level : nat;
  td_emit_types : bool;
  td_emit_separating_tab : bool;
  td_word_wrap : bool
}.

Record doc_opts : Type := mkDocOpts {
  do_word_wrap : bool;
  do_emit_default_doc : bool
}.

Inductive op : Type :=
| OpClass (emit_call : bool) (class_name : str) (bases decos : list str) (word_wrap emit_default_doc : bool)
| OpFunction (name type : option str) (word_wrap emit_default_doc : bool) (indent_level : nat)
             (emit_separating_tab inline_types emit_as_kwonlyargs : bool)
| OpArgparse (emit_default_doc : bool) (name type : option str) (wrap_description word_wrap : bool)
| OpDocstring (o : doc_opts).

Inductive artefact : Type :=
| AStmt (s : stmt)
| AText (t : str).

Definition is_argparse (o : op) : bool := match o with OpArgparse _ _ _ _ _ => true | _ => false end.
Definition is_class (o : op) : bool := match o with OpClass _ _ _ _ _ _ => true | _ => false end.
Definition is_docstring (o : op) : bool := match o with OpDocstring _ => true | _ => false end.

Section C13.
  Variable pt : ptable.
  (* to_docstring(ir, opts): the text *)
  Variable td : td_opts -> ir -> outcome str.
  (* emit.docstring(argparse_doc_ir ir, word_wrap=..) inside argparse_function (its argument is a fresh dict) *)
  Variable dsf : bool -> ir -> outcome str.
  (* emit.docstring(ir, opts) as a call on the shared IR *)
  Variable doc_op : doc_opts -> ir -> outcome (str * ir).

  Definition run_op (o : op) (i : ir) : outcome (artefact * ir) :=
    match o with
    | OpClass ec cn bs ds ww edd =>
      (* to_docstring sees class_'s private copy, with the return entry folded into the params *)
      do r <- emit_class pt i ec cn bs ds ww (td (mkTdOpts edd 1 false true ww) (class_fold_returns i));
      Ok (AStmt (fst r), snd r)
    | OpFunction n t ww edd il tab it kw =>
      do r <- emit_function pt i n t it kw (td (mkTdOpts edd il (negb it) tab ww) i);
      Ok (AStmt (fst r), snd r)
    | OpArgparse edd n t wd ww =>
      do r <- emit_argparse pt i edd n t wd ww (dsf ww (argparse_doc_ir i));
      Ok (AStmt (fst r), snd r)
    | OpDocstring o => do r <- doc_op o i; Ok (AText (fst r), snd r)
    end.

  (* one IR object handed to every call in turn *)
  Fixpoint run_shared (ops : list op) (i : ir) : outcome (list artefact) :=
    match ops with
    | [] => Ok []
    | o :: r => do x <- run_op o i; do rest <- run_shared r (snd x); Ok (fst x :: rest)
    end.

  (* every call gets (a copy of) the original *)
  Fixpoint run_fresh (ops : list op) (i : ir) : outcome (list artefact) :=
    match ops with
    | [] => Ok []
    | o :: r => do x <- run_op o i; do rest <- run_fresh r i; Ok (fst x :: rest)
    end.

  (* the same as a fold, as in the design text *)
  Definition run_shared_fold (ops : list op) (i : ir) : outcome (list artefact * ir) :=
    fold_left (fun acc o => do st <- acc; do x <- run_op o (snd st); Ok (fst st ++ [fst x], snd x))
              ops (Ok ([], i)).

  (* emit.docstring leaves this IR as it found it *)
  Definition doc_stable_on (i : ir) : Prop := forall o t i', doc_op o i = Ok (t, i') -> i' = i.
End C13.

(* emit.docstring never writes into the IR it is given *)
Definition doc_pure (doc_op : doc_opts -> ir -> outcome (str * ir)) : Prop :=
  forall o i t i', doc_op o i = Ok (t, i') -> i' = i.

(* the full statement: every call of every sequence (any length, any options) over the four emitters gives
   the artefact it gives on a fresh copy; whatever text the docstring layer returns *)
Definition C13_statement : Prop :=
  forall pt td dsf doc_op, doc_pure doc_op ->
    forall ops i, run_shared pt td dsf doc_op ops i = run_fresh pt td dsf doc_op ops i.

(* the three AST emitters alone: no assumption at all *)
Definition C13_emitters_statement : Prop :=
  forall pt td dsf doc_op ops i, existsb is_docstring ops = false ->
    run_shared pt td dsf doc_op ops i = run_fresh pt td dsf doc_op ops i.

(* ------------------------------------------------------------------ finding classes *)
Inductive c13_class : Type :=
| K_docstring_rewrites_ir.     (* emit.docstring (emit_param_str -> set_default_doc) rewrote doc/default of the shared
                                  param dicts: doc_pure is false of the implementation (observed by the harness) *)

Definition c13_class_name (k : c13_class) : str :=
  match k with
  | K_docstring_rewrites_ir => L "docstring-rewrites-shared-ir"
  end.

(* doc_mutated: did an emit.docstring call on the shared object change it in this run (observed by the harness) *)
Definition finding_class_C13 (ops : list op) (i : ir) (doc_mutated : bool) : option c13_class :=
  if existsb is_docstring ops && doc_mutated then Some K_docstring_rewrites_ir else None.

Definition guard_C13 (ops : list op) : bool := negb (existsb is_docstring ops).

(* ------------------------------------------------------------------ wire *)
Definition dec_op (e : sexp) : option op :=
  match e with
  | SList [t; ec; cn; bs; ds; ww; edd] =>
    if is_sym "class" t then
      match dec_bool ec, dec_str cn, dec_list dec_str bs, dec_list dec_str ds, dec_bool ww, dec_bool edd with
      | Some ec, Some cn, Some bs, Some ds, Some ww, Some edd => Some (OpClass ec cn bs ds ww edd)
      | _, _, _, _, _, _ => None
      end
    else None
  | SList [t; n; ty; ww; edd; il; tab; it; kw] =>
    if is_sym "function" t then
      match dec_option dec_str n, dec_option dec_str ty, dec_bool ww, dec_bool edd, dec_nat il, dec_bool tab,
            dec_bool it, dec_bool kw with
      | Some n, Some ty, Some ww, Some edd, Some il, Some tab, Some it, Some kw =>
        Some (OpFunction n ty ww edd il tab it kw)
      | _, _, _, _, _, _, _, _ => None
      end
    else None
  | SList [t; edd; n; ty; wd; ww] =>
    if is_sym "argparse" t then
      match dec_bool edd, dec_option dec_str n, dec_option dec_str ty, dec_bool wd, dec_bool ww with
      | Some edd, Some n, Some ty, Some wd, Some ww => Some (OpArgparse edd n ty wd ww)
      | _, _, _, _, _ => None
      end
    else None
  | SList [t; ww; edd] =>
    if is_sym "docstring" t then
      match dec_bool ww, dec_bool edd with
      | Some ww, Some edd => Some (OpDocstring (mkDocOpts ww edd))
      | _, _ => None
      end
    else None
  | _ => None
  end.

(* FAMILY: run_c13 *)
Definition run_c13 (fn : sexp) (args : list sexp) : option sexp :=
  if is_sym "c13_class" fn then
    match args with
    | [ops; i; m] =>
      match dec_list dec_op ops, dec_ir i, dec_bool m with
      | Some ops, Some i, Some m =>
        Some (enc_option (fun k => enc_str (c13_class_name k)) (finding_class_C13 ops i m))
      | _, _, _ => None
      end
    | _ => None
    end
  else None.
