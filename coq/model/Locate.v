(* Locate: doctrans.ast_utils  annotate_ancestry / find_in_ast / RewriteAtQuery / emit_arg /
   emit_ann_assign / get_value (on the nodes those reach) / set_arg, transcribed over PyAst, plus the
   independent specification [resolve] (mirror of harness/gen_module.py:resolve).
   Definitions only.

   How Python state is represented
   * [_location], [_idx] and the [default] attribute that find_in_ast attaches are explicit fields of a
     parallel annotated tree ([astmt], [aarg]); [None] = the attribute is absent (hasattr is False).
   * Object identity ([is]) is the field [id]: the tree position of the node at the time
     [annotate] ran ([path], see the scheme at [annotate_stmt]).  Nodes created later (set_arg) carry
     the empty path.  A node keeps its id when RewriteAtQuery moves it into another tree.
   * Mutation is returned: find_in_ast returns the log of [default] attributes it attached,
     RewriteAtQuery returns the new tree, the flag [replaced] and its (mutated) [replacement_node].

   Not modelled (stated, and declined syntactically where it could be observed)
   * the [_location] that annotate_ancestry gives to Constant nodes ([parent_location + [value]]);
     a RewriteAtQuery whose search could hit such a constant is declined ([const_hazard]);
   * statements whose class carries a [name] that PyAst keeps only as text
     (AsyncFunctionDef, Try/TryStar handlers, Match patterns, TypeAlias, and the FunctionDef/ClassDef
     shapes astwire encodes as [other]): [supported] is false and every entry point declines. *)
From Coq Require Import List Ascii Bool Arith ZArith.
From Coq Require String.
Import String.StringSyntax.
From DT Require Import PyStr Sexp PyVal PureUtils PyAst.
Import ListNotations.

Definition loc := list str.
Definition path := list nat.

Definition loc_eqb : loc -> loc -> bool := list_eqb str_eqb.
Definition path_eqb : path -> path -> bool := list_eqb Nat.eqb.

(* hasattr(n, "_location") and n._location == l *)
Definition oloc_eqb (a : option loc) (l : loc) : bool :=
  match a with Some x => loc_eqb x l | None => false end.

(* ------------------------------------------------------------------ annotated tree *)
Record aarg : Type := mkAArg {
  aa_id : path;
  aa_loc : option loc;          (* _location *)
  aa_idx : option Z;            (* _idx *)
  aa_default : option expr;     (* .default, attached by find_in_ast *)
  aa_name : str;
  aa_ann : option expr
}.

(* what can sit in arguments.defaults after RewriteAtQuery.visit_FunctionDef ran:
   an expression, the raw str NoneStr (get_value of an AnnAssign without value), or an ast.arg
   (get_value of an arg returns the arg itself) *)
Inductive adefault : Type :=
| DExpr (e : expr)
| DRaw (s : str)
| DArg (a : aarg).

Record aarguments : Type := mkAArguments {
  aar_args : list aarg;
  aar_defaults : list adefault;
  aar_kwonly : list aarg;
  aar_kw_defaults : list (option expr);
  aar_vararg : option arg;
  aar_kwarg : option arg
}.

Inductive astmt : Type :=
| AFunc (id : path) (l : option loc) (name : str) (args : aarguments) (body : list astmt)
        (decos : list expr) (returns : option expr)
| AClass (id : path) (l : option loc) (name : str) (bases : list expr) (body : list astmt)
         (decos : list expr)
| AAnnAssign (id : path) (l : option loc) (target : expr) (ann : expr) (value : option expr)
| AAssign (id : path) (l : option loc) (targets : list expr) (value : expr)
| AExpr (id : path) (e : expr)
| AReturn (id : path) (e : option expr)
| AOther (id : path) (tag : str) (head : str) (blocks : list (list astmt))
| AArgS (a : aarg).     (* an ast.arg sitting in a statement list (RewriteAtQuery.generic_visit put it there) *)

Definition amodule := list astmt.

Inductive anode : Type :=
| NMod (m : amodule)
| NStmt (s : astmt)
| NArg (a : aarg).

Definition stmt_loc (s : astmt) : option loc :=
  match s with
  | AFunc _ l _ _ _ _ _ => l
  | AClass _ l _ _ _ _ => l
  | AAnnAssign _ l _ _ _ => l
  | AAssign _ l _ _ => l
  | AExpr _ _ => None
  | AReturn _ _ => None
  | AOther _ _ _ _ => None
  | AArgS a => aa_loc a
  end.

Definition stmt_id (s : astmt) : path :=
  match s with
  | AFunc i _ _ _ _ _ _ => i
  | AClass i _ _ _ _ _ => i
  | AAnnAssign i _ _ _ _ => i
  | AAssign i _ _ _ => i
  | AExpr i _ => i
  | AReturn i _ => i
  | AOther i _ _ _ => i
  | AArgS a => aa_id a
  end.

(* hasattr(s, "name"): FunctionDef and ClassDef (the other named classes are excluded by [supported]) *)
Definition astmt_name (s : astmt) : option str :=
  match s with
  | AFunc _ _ n _ _ _ _ => Some n
  | AClass _ _ n _ _ _ => Some n
  | _ => None
  end.

(* ------------------------------------------------------------------ supported fragment *)
Definition declined_tags : list str :=
  [L "FunctionDef"; L "AsyncFunctionDef"; L "ClassDef"; L "Try"; L "TryStar"; L "Match"; L "TypeAlias"].

Fixpoint supported_stmt (s : stmt) : bool :=
  match s with
  | SFunc _ args body _ _ =>
    (* ast invariant: one kw_defaults entry per keyword-only argument (find_in_ast indexes it) *)
    Nat.eqb (List.length (ar_kw_defaults args)) (List.length (ar_kwonly args)) && forallb supported_stmt body
  | SClass _ _ body _ => forallb supported_stmt body
  | SOther tag _ blocks =>
    negb (existsb (str_eqb tag) declined_tags)
    && forallb (fun b => forallb supported_stmt b) blocks
  | _ => true
  end.

Definition supported (m : module) : bool := forallb supported_stmt m.

(* ------------------------------------------------------------------ annotate_ancestry *)
(* ast_utils.py:annotate_ancestry.  [pname] is [name] of the loop: [[_node.name]] when the parent
   has a name, [[]] otherwise.  Locations are therefore parent-name + child-name only.
   Identity scheme: module statement j -> root ++ [j]; class body j -> p ++ [j];
   function: args.args k -> p ++ [0;k], kwonlyargs k -> p ++ [1;k], body j -> p ++ [2;j];
   other: block b statement j -> p ++ [b;j]. *)
Definition is_self_cls (s : str) : bool := str_eqb s (L "self") || str_eqb s (L "cls").

Fixpoint annotate_args (floc : loc) (p : path) (k : nat) (idx : Z) (l : list arg) : list aarg :=
  match l with
  | [] => []
  | a :: r =>
    mkAArg (p ++ [k]) (Some (floc ++ [a_name a])) (Some idx) None (a_name a) (a_ann a)
    :: annotate_args floc p (S k) (idx + 1)%Z r
  end.

Definition args_start (l : list arg) : Z :=
  match l with
  | a :: _ => if is_self_cls (a_name a) then (-1)%Z else 0%Z
  | [] => 0%Z
  end.

Definition annotate_arguments (floc : loc) (p : path) (a : arguments) : aarguments :=
  mkAArguments (annotate_args floc (p ++ [0]) 0 (args_start (ar_args a)) (ar_args a))
               (map DExpr (ar_defaults a))
               (annotate_args floc (p ++ [1]) 0 0%Z (ar_kwonly a))
               (ar_kw_defaults a) (ar_vararg a) (ar_kwarg a).

Definition name_id (e : expr) : option str := match e with EName i => Some i | _ => None end.

(* the _location of an Assign: every target a Name -> name + [last target id] (the loop overwrites) *)
Fixpoint assign_last_name (ts : list expr) (acc : option str) : option str :=
  match ts with
  | [] => acc
  | t :: r => match name_id t with Some i => assign_last_name r (Some i) | None => None end
  end.

Fixpoint annotate_stmt (pname : list str) (p : path) (s : stmt) : astmt :=
  match s with
  | SFunc name args body decos ret =>
    let l := pname ++ [name] in
    AFunc p (Some l) name (annotate_arguments l p args)
          ((fix go (j : nat) (b : list stmt) : list astmt :=
              match b with [] => [] | x :: r => annotate_stmt [name] (p ++ [2; j]) x :: go (S j) r end) 0 body)
          decos ret
  | SClass name bases body decos =>
    AClass p (Some (pname ++ [name])) name bases
           ((fix go (j : nat) (b : list stmt) : list astmt :=
               match b with [] => [] | x :: r => annotate_stmt [name] (p ++ [j]) x :: go (S j) r end) 0 body)
           decos
  | SAnnAssign target ann value =>
    AAnnAssign p (option_map (fun i => pname ++ [i]) (name_id target)) target ann value
  | SAssign targets value =>
    AAssign p (option_map (fun i => pname ++ [i]) (assign_last_name targets None)) targets value
  | SExpr e => AExpr p e
  | SReturn e => AReturn p e
  | SOther tag head blocks =>
    AOther p tag head
           ((fix gob (bi : nat) (bl : list (list stmt)) : list (list astmt) :=
               match bl with
               | [] => []
               | b :: r =>
                 ((fix go (j : nat) (b : list stmt) : list astmt :=
                     match b with [] => [] | x :: r' => annotate_stmt [] (p ++ [bi; j]) x :: go (S j) r' end) 0 b)
                 :: gob (S bi) r
               end) 0 blocks)
  end.

Fixpoint annotate_body (pname : list str) (p : path) (j : nat) (b : list stmt) : list astmt :=
  match b with
  | [] => []
  | x :: r => annotate_stmt pname (p ++ [j]) x :: annotate_body pname p (S j) r
  end.

Definition annotate_at (root : path) (m : module) : amodule := annotate_body [] root 0 m.
Definition annotate (m : module) : amodule := annotate_at [] m.

(* ------------------------------------------------------------------ erasure (annotated -> PyAst) *)
Definition erase_arg (a : aarg) : arg := mkArg (aa_name a) (aa_ann a).

(* an adefault that is not an expression has no PyAst counterpart: it is shown as an opaque marker *)
Definition erase_default (d : adefault) : expr :=
  match d with
  | DExpr e => e
  | DRaw s => EOpaque (L "<raw str>")
  | DArg _ => EOpaque (L "<arg>")
  end.

Definition erase_arguments (a : aarguments) : arguments :=
  mkArguments (map erase_arg (aar_args a)) (map erase_default (aar_defaults a))
              (map erase_arg (aar_kwonly a)) (aar_kw_defaults a) (aar_vararg a) (aar_kwarg a).

Fixpoint erase_stmt (s : astmt) : stmt :=
  match s with
  | AFunc _ _ n a b d r => SFunc n (erase_arguments a) (map erase_stmt b) d r
  | AClass _ _ n bs b d => SClass n bs (map erase_stmt b) d
  | AAnnAssign _ _ t a v => SAnnAssign t a v
  | AAssign _ _ ts v => SAssign ts v
  | AExpr _ e => SExpr e
  | AReturn _ e => SReturn e
  | AOther _ t h bl => SOther t h (map (map erase_stmt) bl)
  | AArgS a => SOther (L "arg") (aa_name a) []
  end.

Definition erase (m : amodule) : module := map erase_stmt m.

(* ------------------------------------------------------------------ find_in_ast *)
(* the variable cursor: always a statement list (Module.body or a ClassDef body) *)
Inductive cursor : Type :=
| CList (l : list astmt).

Definition dlog := list (path * expr).   (* setattr(arg, "default", e) events, newest first *)

Inductive for_res : Type :=
| FReturn (n : anode) (log : dlog)       (* return <node> inside the loop *)
| FNone (log : dlog)                     (* return None inside the loop *)
| FErr (e : err)
| FDone (cs : list str) (cur : cursor) (last : option astmt) (log : dlog).

Definition with_default (a : aarg) (e : expr) : aarg :=
  mkAArg (aa_id a) (aa_loc a) (aa_idx a) (Some e) (aa_name a) (aa_ann a).

(* next(filter(lambda idx_arg: idx_arg[1].arg == query, enumerate(args)), None) *)
Fixpoint find_arg_named (q : str) (i : nat) (l : list aarg) : option (nat * aarg) :=
  match l with
  | [] => None
  | a :: r => if str_eqb (aa_name a) q then Some (i, a) else find_arg_named q (S i) r
  end.

(* the body of  [for child_node in cursor]  (ast_utils.py:find_in_ast), over the list the loop
   iterates.  [query]/[cs] are query/current_search, [cur] the variable cursor (reassigning it does
   not change the list being iterated), [last] the loop variable child_node.  (Code as of /repo 6d00342.) *)
Fixpoint find_for (search : loc) (kids : list astmt) (query : str) (cs : list str) (cur : cursor)
         (last : option astmt) (log : dlog) : for_res :=
  match kids with
  | [] => FDone cs cur last log
  | c :: rest =>
    if oloc_eqb (stmt_loc c) search then FReturn (NStmt c) log
    else
      match c with
      | AFunc _ _ name args _ _ _ =>
        (* only the function named by the current segment owns the next segment; any other FunctionDef, or this
           one when no segment is left, is passed over *)
        match cs with
        | [] => find_for search rest query cs cur (Some c) log
        | query' :: cs' =>
          if negb (str_eqb name query) then find_for search rest query cs cur (Some c) log
          else
            (* the loop ends here: the argument when it is the last segment, else None *)
            let ret (a : aarg) (log' : dlog) : for_res :=
                match cs' with [] => FReturn (NArg a) log' | _ => FNone log' end in
            match find_arg_named query' 0 (aar_args args) with
            | Some (i, a) =>
              match nth_error (aar_defaults args) i with      (* len(defaults) > i : indexed from the front *)
              | Some (DExpr e) => ret (with_default a e) ((aa_id a, e) :: log)
              | Some _ => FErr Unmodelled       (* a default that is not an expression: only after a rewrite *)
              | None => ret a log
              end
            | None =>
              match find_arg_named query' 0 (aar_kwonly args) with
              | Some (i, a) =>
                match nth_error (aar_kw_defaults args) i with   (* kw_defaults[i] *)
                | Some (Some e) => ret (with_default a e) ((aa_id a, e) :: log)
                | Some None => ret a log
                | None => FErr IndexError
                end
              | None => FNone log
              end
            end
        end
      | AAnnAssign _ _ target _ _ =>
        match name_id target with
        | Some i => if str_eqb i query then FReturn (NStmt c) log
                    else find_for search rest query cs cur (Some c) log
        | None => find_for search rest query cs cur (Some c) log
        end
      | AClass _ _ name _ body _ =>
        if str_eqb name query then FDone cs (CList body) (Some c) log      (* cursor = child_node.body; break *)
        else find_for search rest query cs cur (Some c) log
      | _ => find_for search rest query cs cur (Some c) log
      end
  end.

(* the  while len(current_search)  loop.  Every iteration pops one segment, so [length search]
   iterations suffice; running out of fuel is unreachable (LocateFacts.find_while_fuel). *)
Fixpoint find_while (fuel : nat) (search : loc) (child : option astmt) (cur : cursor)
         (cs : list str) (log : dlog) : outcome (option anode * dlog) :=
  match fuel with
  | O => Err Unmodelled
  | S fuel' =>
    match cs with
    | [] => Ok (None, log)                                  (* falls off the loop: returns None *)
    | query :: cs1 =>
      let name_hit :=
          match cs1, child with
          | [], Some c => match astmt_name c with Some n => str_eqb n query | None => false end
          | _, _ => false
          end in
      match name_hit, child with
      | true, Some c => Ok (Some (NStmt c), log)
      | _, _ =>
        match cur with
        | CList kids =>
          match find_for search kids query cs1 cur child log with
          | FReturn n log' => Ok (Some n, log')
          | FNone log' => Ok (None, log')
          | FErr e => Err e
          | FDone cs2 cur' child' log' => find_while fuel' search child' cur' cs2 log'
          end
        end
      end
    end
  end.



(* the tree after the call: every logged default attached to the arg with that identity *)
Definition map_arguments (f : aarg -> aarg) (a : aarguments) : aarguments :=
  mkAArguments (map f (aar_args a)) (aar_defaults a) (map f (aar_kwonly a))
               (aar_kw_defaults a) (aar_vararg a) (aar_kwarg a).

(* apply [f] to every ast.arg of every FunctionDef of the tree (and to args sitting in bodies) *)
Fixpoint map_args_stmt (f : aarg -> aarg) (s : astmt) : astmt :=
  match s with
  | AFunc i l n a b d r => AFunc i l n (map_arguments f a) (map (map_args_stmt f) b) d r
  | AClass i l n bs b d => AClass i l n bs (map (map_args_stmt f) b) d
  | AOther i t h bl => AOther i t h (map (map (map_args_stmt f)) bl)
  | AArgS a => AArgS (f a)
  | _ => s
  end.

(* a default attached by an earlier call stays; a later call overwrites it with the same rule *)
Definition attach_default (log : dlog) (a : aarg) : aarg :=
  match List.find (fun ev => path_eqb (fst ev) (aa_id a)) log with
  | Some ev => mkAArg (aa_id a) (aa_loc a) (aa_idx a) (Some (snd ev)) (aa_name a) (aa_ann a)
  | None => a
  end.

Definition apply_dlog (log : dlog) (m : amodule) : amodule := map (map_args_stmt (attach_default log)) m.

(* find_in_ast(search, node) for node a Module (its _location is [], never equal to a non-empty search).
   The returned node is the live object: it shows the defaults the call attached on the way *)
Definition apply_dlog_node (log : dlog) (n : anode) : anode :=
  match n with
  | NMod m => NMod (apply_dlog log m)
  | NStmt s => NStmt (map_args_stmt (attach_default log) s)
  | NArg a => NArg (attach_default log a)
  end.

Definition find_in_ast_log (search : loc) (m : amodule) : outcome (option anode * dlog) :=
  match search with
  | [] => Ok (Some (NMod m), [])
  | _ =>
    do r <- find_while (S (List.length search)) search None (CList m) search [];
    Ok (option_map (apply_dlog_node (snd r)) (fst r), snd r)
  end.

Definition find_in_ast (search : loc) (m : amodule) : outcome (option anode) :=
  do r <- find_in_ast_log search m; Ok (fst r).

(* ------------------------------------------------------------------ set_arg / emit_arg / emit_ann_assign / get_value *)
(* ast_utils.py:set_arg — a new node: no _location, no _idx, no default *)
Definition set_arg (name : str) (ann : option expr) : aarg := mkAArg [] None None None name ann.

(* ast_utils.py:emit_arg *)
Definition emit_arg (n : anode) : outcome aarg :=
  match n with
  | NArg a => Ok a
  | NStmt (AArgS a) => Ok a
  | NStmt (AAnnAssign _ _ target ann _) =>
    match name_id target with
    | Some i => Ok (set_arg i (Some ann))
    | None => Err NotImplementedError
    end
  | NStmt (AAssign _ _ [t] _) =>
    match name_id t with
    | Some i => Ok (set_arg i None)
    | None => Err NotImplementedError
    end
  | _ => Err NotImplementedError
  end.

(* ast_utils.py:emit_ann_assign — the new AnnAssign has no _location; value = arg.default if attached.
   An arg without annotation gives AnnAssign(annotation=None), which PyAst cannot carry: declined. *)
Definition ann_assign_of_arg (a : aarg) : outcome astmt :=
  match aa_ann a with
  | Some e => Ok (AAnnAssign [] None (EName (aa_name a)) e (aa_default a))
  | None => Err Unmodelled
  end.

Definition emit_ann_assign (n : anode) : outcome astmt :=
  match n with
  | NStmt (AAnnAssign i l t a v) => Ok (AAnnAssign i l t a v)
  | NArg a => ann_assign_of_arg a
  | NStmt (AArgS a) => ann_assign_of_arg a
  | _ => Err NotImplementedError
  end.

(* ast_utils.py:get_value as RewriteAtQuery.visit_FunctionDef uses it: on an AnnAssign it is
   NoneStr (a raw str) when value is None, else the value node; on an ast.arg it is the arg itself *)
Definition get_value_default (n : anode) : option adefault :=
  match n with
  | NStmt (AAnnAssign _ _ _ _ None) => Some (DRaw NoneStr)
  | NStmt (AAnnAssign _ _ _ _ (Some e)) => Some (DExpr e)
  | NArg a => Some (DArg a)
  | NStmt (AArgS a) => Some (DArg a)
  | _ => None
  end.

(* ------------------------------------------------------------------ RewriteAtQuery *)
Record rw_state : Type := mkRw { rw_replaced : bool; rw_node : anode }.

(* what  return self.replacement_node  puts into a statement list *)
Definition node_as_stmt (n : anode) : outcome astmt :=
  match n with
  | NStmt s => Ok s
  | NArg a => Ok (AArgS a)
  | NMod _ => Err Unmodelled
  end.

Definition is_arg_node (n : anode) : bool :=
  match n with NArg _ => true | NStmt (AArgS _) => true | _ => false end.

(* next((_arg._idx for _arg in args if _arg.arg == target.id and hasattr(_arg, "_idx")), None)
   — target.id is evaluated for every arg reached: AttributeError when the target is not a Name *)
Fixpoint idx_for_annassign (target : expr) (l : list aarg) : outcome (option Z) :=
  match l with
  | [] => Ok None
  | a :: r =>
    match name_id target with
    | None => Err AttributeError
    | Some i =>
      if str_eqb (aa_name a) i then
        match aa_idx a with Some z => Ok (Some z) | None => idx_for_annassign target r end
      else idx_for_annassign target r
    end
  end.

(* next(filter(None, (_arg._idx if _arg.arg == target.id else None
                       for target in targets for _arg in args if hasattr(_arg, "_idx"))), None)
   — filter(None, ...) drops index 0 as well as None *)
Fixpoint idx_for_assign_inner (target : expr) (l : list aarg) : outcome (option Z) :=
  match l with
  | [] => Ok None
  | a :: r =>
    match aa_idx a with
    | None => idx_for_assign_inner target r
    | Some z =>
      match name_id target with
      | None => Err AttributeError
      | Some i =>
        if str_eqb (aa_name a) i && negb (Z.eqb z 0) then Ok (Some z)
        else idx_for_assign_inner target r
      end
    end
  end.

Fixpoint idx_for_assign (targets : list expr) (l : list aarg) : outcome (option Z) :=
  match targets with
  | [] => Ok None
  | t :: r =>
    do o <- idx_for_assign_inner t l;
    match o with Some z => Ok (Some z) | None => idx_for_assign r l end
  end.

Fixpoint set_nth {A} (n : nat) (x : A) (l : list A) : list A :=
  match l, n with
  | [], _ => []
  | _ :: r, O => x :: r
  | y :: r, S n' => y :: set_nth n' x r
  end.

(* if idx is not None and len(defaults) > idx: defaults[idx] = new_default   (Python indexing:
   a negative idx counts from the end; IndexError when it is still out of range) *)
Definition update_defaults (idx : option Z) (nd : option adefault) (ds : list adefault)
  : outcome (list adefault) :=
  match idx, nd with
  | Some z, Some d =>
    let n := Z.of_nat (List.length ds) in
    if (z <? n)%Z then
      let z' := if (z <? 0)%Z then (z + n)%Z else z in
      if (z' <? 0)%Z then Err IndexError
      else Ok (set_nth (Z.to_nat z') d ds)
    else Ok ds
  | _, _ => Ok ds
  end.

(* for idx in range(len(arg_l)): if hasattr(_location) and _location == search: arg_l[idx] = r; replaced; break *)
Fixpoint replace_first_arg (search : loc) (r : aarg) (l : list aarg) : list aarg * bool :=
  match l with
  | [] => ([], false)
  | a :: rest =>
    if oloc_eqb (aa_loc a) search then (r :: rest, true)
    else let '(rest', b) := replace_first_arg search r rest in (a :: rest', b)
  end.

(* ast_utils.py:RewriteAtQuery.visit_FunctionDef.  Returns the FunctionDef without visiting its children. *)
Definition visit_FunctionDef (search : loc) (st : rw_state) (s : astmt) : outcome (astmt * rw_state) :=
  match s with
  | AFunc i l name args body decos ret =>
    if negb (rw_replaced st) && oloc_eqb l (removelast search) then
      (* conversion of an AnnAssign / Assign replacement, with the side effect on defaults *)
      do conv <-
         match rw_node st with
         | NStmt (AAnnAssign _ _ target _ _) =>
           do idx <- idx_for_annassign target (aar_args args);
           do ds <- update_defaults idx (get_value_default (rw_node st)) (aar_defaults args);
           do a <- emit_arg (rw_node st);
           Ok (NArg a, ds)
         | NStmt (AAssign _ _ targets value) =>
           do idx <- idx_for_assign targets (aar_args args);
           do r1 <- match targets with
                    | t :: _ => match name_id t with
                                | Some n => Ok (set_arg n (Some value))      (* annotation = the assigned value *)
                                | None => Err AttributeError
                                end
                    | [] => Err IndexError
                    end;
           do ds <- update_defaults idx (Some (DArg r1)) (aar_defaults args);
           Ok (NArg r1, ds)
         | n => Ok (n, aar_defaults args)
         end;
      let '(node', ds) := conv in
      if negb (is_arg_node node') then Err AssertionError
      else
        do r <- emit_arg node';
        let '(args1, b1) := replace_first_arg search r (aar_args args) in
        let '(kw1, b2) := replace_first_arg search r (aar_kwonly args) in
        Ok (AFunc i l name
                  (mkAArguments args1 ds kw1 (aar_kw_defaults args) (aar_vararg args) (aar_kwarg args))
                  body decos ret,
            mkRw (rw_replaced st || b1 || b2) node')
    else Ok (s, st)
  | _ => Ok (s, st)
  end.

(* RewriteAtQuery.visit on a statement: visit_FunctionDef for FunctionDef, generic_visit otherwise
   (first match by _location, else NodeTransformer.generic_visit: children in field order). *)
Fixpoint visit_stmt (search : loc) (st : rw_state) (s : astmt) : outcome (astmt * rw_state) :=
  match s with
  | AFunc _ _ _ _ _ _ _ => visit_FunctionDef search st s
  | _ =>
    if negb (rw_replaced st) && oloc_eqb (stmt_loc s) search then
      do r <- node_as_stmt (rw_node st);
      Ok (r, mkRw true (rw_node st))
    else
      match s with
      | AClass i l n bs body d =>
        do r <- (fix go (st : rw_state) (b : list astmt) : outcome (list astmt * rw_state) :=
                   match b with
                   | [] => Ok ([], st)
                   | x :: rest =>
                     do x' <- visit_stmt search st x;
                     do r' <- go (snd x') rest;
                     Ok (fst x' :: fst r', snd r')
                   end) st body;
        Ok (AClass i l n bs (fst r) d, snd r)
      | AOther i t h blocks =>
        do r <- (fix gob (st : rw_state) (bl : list (list astmt)) : outcome (list (list astmt) * rw_state) :=
                   match bl with
                   | [] => Ok ([], st)
                   | b :: rest =>
                     do b' <- (fix go (st : rw_state) (b : list astmt) : outcome (list astmt * rw_state) :=
                                 match b with
                                 | [] => Ok ([], st)
                                 | x :: rest' =>
                                   do x' <- visit_stmt search st x;
                                   do r' <- go (snd x') rest';
                                   Ok (fst x' :: fst r', snd r')
                                 end) st b;
                     do r' <- gob (snd b') rest;
                     Ok (fst b' :: fst r', snd r')
                   end) st blocks;
        Ok (AOther i t h (fst r), snd r)
      | _ => Ok (s, st)
      end
  end.

Fixpoint visit_list (search : loc) (st : rw_state) (b : list astmt) : outcome (list astmt * rw_state) :=
  match b with
  | [] => Ok ([], st)
  | x :: rest =>
    do x' <- visit_stmt search st x;
    do r' <- visit_list search (snd x') rest;
    Ok (fst x' :: fst r', snd r')
  end.

(* RewriteAtQuery(search, replacement).visit(module): the Module's own _location is [] *)
Definition rewrite_visit (search : loc) (repl : anode) (m : amodule) : outcome (anode * rw_state) :=
  match search with
  | [] => Ok (repl, mkRw true repl)
  | _ =>
    do r <- visit_list search (mkRw false repl) m;
    Ok (NMod (fst r), snd r)
  end.

(* ---- declining searches that could hit a Constant's _location (not modelled) ----
   A constant outside every FunctionDef (RewriteAtQuery never enters one) gets
   parent_location + [value]; it can equal the search only if the value is the last segment.
   Visible string constants are compared exactly; text the wire keeps opaque is a hazard when it holds a
   string literal at all and the segment occurs in it (or could occur escaped). *)
Definition is_quote (c : ascii) : bool := ascii_eqb c (ch 34) || ascii_eqb c (ch 39).

(* characters that ast.unparse does not write verbatim inside a string literal *)
Definition needs_escape (c : ascii) : bool :=
  is_quote c || ascii_eqb c (ch 92) || ascii_eqb c (ch 123) || ascii_eqb c (ch 125)
  || Nat.ltb (code c) 32 || Nat.leb 127 (code c).

Definition text_hazard (seg : str) (text : str) : bool :=
  existsb is_quote text && (contains seg text || existsb needs_escape seg).

Fixpoint expr_hazard (seg : str) (e : expr) : bool :=
  match e with
  | EConst (VStr s) => str_eqb s seg
  | EConst VNone => str_eqb seg NoneStr
  | EConst _ => false
  | EName _ => false
  | EAttr e' _ => expr_hazard seg e'
  | ESub a b => expr_hazard seg a || expr_hazard seg b
  | ETuple es => existsb (expr_hazard seg) es
  | EList es => existsb (expr_hazard seg) es
  | EDict ks vs => existsb (expr_hazard seg) ks || existsb (expr_hazard seg) vs
  | ECall f args kws => expr_hazard seg f || existsb (expr_hazard seg) args
                        || existsb (fun p => expr_hazard seg (snd p)) kws
  | EUnary _ e' => expr_hazard seg e'
  | EOpaque src => text_hazard seg src
  end.

Definition oexpr_hazard (seg : str) (o : option expr) : bool :=
  match o with Some e => expr_hazard seg e | None => false end.

Fixpoint stmt_hazard (seg : str) (s : astmt) : bool :=
  match s with
  | AFunc _ _ _ _ _ _ _ => false
  | AClass _ _ _ bs body d =>
    existsb (expr_hazard seg) bs || existsb (expr_hazard seg) d || existsb (stmt_hazard seg) body
  | AAnnAssign _ _ t a v => expr_hazard seg t || expr_hazard seg a || oexpr_hazard seg v
  | AAssign _ _ ts v => existsb (expr_hazard seg) ts || expr_hazard seg v
  | AExpr _ e => expr_hazard seg e
  | AReturn _ e => oexpr_hazard seg e
  | AOther _ _ h bl => text_hazard seg h || existsb (fun b => existsb (stmt_hazard seg) b) bl
  | AArgS a => oexpr_hazard seg (aa_ann a)
  end.

Definition const_hazard (search : loc) (m : amodule) : bool :=
  match search with
  | [] => false
  | _ => existsb (stmt_hazard (last search [])) m
  end.

(* ------------------------------------------------------------------ resolve (specification) *)
(* Independent of everything above; mirrors harness/gen_module.py:resolve over PyAst.
   Follows qualified paths only; returns the tree position (same scheme as [annotate_stmt]) and the node. *)
Inductive pnode : Type :=
| PMod (m : module)
| PStmt (s : stmt)
| PArg (a : arg).

(* gen_module._members: is [s] a member called [seg] of the Module/ClassDef whose body holds it *)
Definition is_member (seg : str) (s : stmt) : bool :=
  match s with
  | SFunc n _ _ _ _ => str_eqb n seg
  | SClass n _ _ _ => str_eqb n seg
  | SAnnAssign t _ _ => match name_id t with Some i => str_eqb i seg | None => false end
  | SAssign ts _ => existsb (fun t => match name_id t with Some i => str_eqb i seg | None => false end) ts
  | _ => false
  end.

Fixpoint find_plain_arg (seg : str) (k : nat) (l : list arg) : option (nat * arg) :=
  match l with
  | [] => None
  | a :: r => if str_eqb (a_name a) seg then Some (k, a) else find_plain_arg seg (S k) r
  end.

(* gen_module._func_args: args then kwonlyargs (posonlyargs are outside the wire fragment) *)
Definition resolve_arg (seg : str) (p : path) (a : arguments) : option (path * pnode) :=
  match find_plain_arg seg 0 (ar_args a) with
  | Some (k, x) => Some (p ++ [0; k], PArg x)
  | None =>
    match find_plain_arg seg 0 (ar_kwonly a) with
    | Some (k, x) => Some (p ++ [1; k], PArg x)
    | None => None
    end
  end.

(* [q] = the segments still to follow once [s] (at position [p]) has been reached *)
Fixpoint resolve_stmt (q : list str) (p : path) (s : stmt) : option (path * pnode) :=
  match q with
  | [] => Some (p, PStmt s)
  | seg :: q' =>
    match s with
    | SClass _ _ body _ =>
      (fix first_member (j : nat) (b : list stmt) : option (path * pnode) :=
         match b with
         | [] => None
         | x :: r => if is_member seg x then resolve_stmt q' (p ++ [j]) x else first_member (S j) r
         end) 0 body
    | SFunc _ args _ _ _ =>
      match q' with
      | [] => resolve_arg seg p args
      | _ => None
      end
    | _ => None
    end
  end.

Fixpoint resolve_body (seg : str) (q' : list str) (p : path) (j : nat) (b : list stmt) : option (path * pnode) :=
  match b with
  | [] => None
  | x :: r => if is_member seg x then resolve_stmt q' (p ++ [j]) x else resolve_body seg q' p (S j) r
  end.

(* positions counted from [root] (the module itself is always position []) *)
Definition resolve_at (root : path) (q : list str) (m : module) : option (path * pnode) :=
  match q with
  | [] => Some ([], PMod m)
  | seg :: q' => resolve_body seg q' root 0 m
  end.

Definition resolve (q : list str) (m : module) : option (path * pnode) := resolve_at [] q m.

(* the position and PyAst content of what find_in_ast returned, for comparison with [resolve] *)
Definition node_view (n : anode) : path * pnode :=
  match n with
  | NMod m => ([], PMod (erase m))
  | NStmt s => (stmt_id s, PStmt (erase_stmt s))
  | NArg a => (aa_id a, PArg (erase_arg a))
  end.

Definition find_view_at (root : path) (search : loc) (m : module) : outcome (option (path * pnode)) :=
  do r <- find_in_ast search (annotate_at root m); Ok (option_map node_view r).

Definition find_view (search : loc) (m : module) : outcome (option (path * pnode)) := find_view_at [] search m.

(* node at a tree position (used by the harness to name a replacement node) *)
Definition find_arg_by_id (p : path) (l : list aarg) : option aarg :=
  List.find (fun a => path_eqb (aa_id a) p) l.

Fixpoint node_at_stmt (p : path) (s : astmt) : option anode :=
  if path_eqb (stmt_id s) p then Some (NStmt s)
  else
    match s with
    | AFunc _ _ _ args body _ _ =>
      match find_arg_by_id p (aar_args args) with
      | Some a => Some (NArg a)
      | None =>
        match find_arg_by_id p (aar_kwonly args) with
        | Some a => Some (NArg a)
        | None =>
          (fix go (b : list astmt) : option anode :=
             match b with
             | [] => None
             | x :: r => match node_at_stmt p x with Some n => Some n | None => go r end
             end) body
        end
      end
    | AClass _ _ _ _ body _ =>
      (fix go (b : list astmt) : option anode :=
         match b with
         | [] => None
         | x :: r => match node_at_stmt p x with Some n => Some n | None => go r end
         end) body
    | AOther _ _ _ blocks =>
      (fix gob (bl : list (list astmt)) : option anode :=
         match bl with
         | [] => None
         | b :: rest =>
           match (fix go (b : list astmt) : option anode :=
                    match b with
                    | [] => None
                    | x :: r => match node_at_stmt p x with Some n => Some n | None => go r end
                    end) b with
           | Some n => Some n
           | None => gob rest
           end
         end) blocks
    | _ => None
    end.

Fixpoint node_at (p : path) (m : amodule) : option anode :=
  match m with
  | [] => None
  | x :: r => match node_at_stmt p x with Some n => Some n | None => node_at p r end
  end.

(* ------------------------------------------------------------------ wire *)
Definition enc_path (p : path) : sexp := SList (map enc_nat p).
Definition dec_path (e : sexp) : option path := dec_list dec_nat e.
Definition enc_loc (l : loc) : sexp := SList (map enc_str l).
Definition dec_loc (e : sexp) : option loc := dec_list dec_str e.

(* [ids = false] blanks identities (families that cannot observe them) *)
Definition enc_id (ids : bool) (p : path) : sexp := if ids then enc_path p else SList [].

Definition enc_aarg (ids : bool) (a : aarg) : sexp :=
  SList [sym "aarg"; enc_id ids (aa_id a); enc_option enc_loc (aa_loc a); enc_option enc_Z (aa_idx a);
         enc_option enc_expr (aa_default a); enc_str (aa_name a); enc_option enc_expr (aa_ann a)].

Definition enc_adefault (ids : bool) (d : adefault) : sexp :=
  match d with
  | DExpr e => SList [sym "dexpr"; enc_expr e]
  | DRaw s => SList [sym "draw"; enc_str s]
  | DArg a => SList [sym "darg"; enc_aarg ids a]
  end.

Definition enc_aarguments (ids : bool) (a : aarguments) : sexp :=
  SList [enc_list (enc_aarg ids) (aar_args a); enc_list (enc_adefault ids) (aar_defaults a);
         enc_list (enc_aarg ids) (aar_kwonly a); enc_list (enc_option enc_expr) (aar_kw_defaults a);
         enc_option enc_arg (aar_vararg a); enc_option enc_arg (aar_kwarg a)].

Fixpoint enc_astmt (ids : bool) (s : astmt) : sexp :=
  match s with
  | AFunc i l n a b d r =>
    SList [sym "afunc"; enc_id ids i; enc_option enc_loc l; enc_str n; enc_aarguments ids a;
           SList (map (enc_astmt ids) b); enc_list enc_expr d; enc_option enc_expr r]
  | AClass i l n bs b d =>
    SList [sym "aclass"; enc_id ids i; enc_option enc_loc l; enc_str n; enc_list enc_expr bs;
           SList (map (enc_astmt ids) b); enc_list enc_expr d]
  | AAnnAssign i l t a v =>
    SList [sym "aannassign"; enc_id ids i; enc_option enc_loc l; enc_expr t; enc_expr a; enc_option enc_expr v]
  | AAssign i l ts v =>
    SList [sym "aassign"; enc_id ids i; enc_option enc_loc l; enc_list enc_expr ts; enc_expr v]
  | AExpr i e => SList [sym "aexpr"; enc_id ids i; enc_expr e]
  | AReturn i e => SList [sym "areturn"; enc_id ids i; enc_option enc_expr e]
  | AOther i t h bl =>
    SList [sym "aother"; enc_id ids i; enc_str t; enc_str h;
           SList (map (fun b => SList (map (enc_astmt ids) b)) bl)]
  | AArgS a => SList [sym "argstmt"; enc_aarg ids a]
  end.

Definition enc_amodule (ids : bool) (m : amodule) : sexp := SList (map (enc_astmt ids) m).

Definition enc_anode (ids : bool) (n : anode) : sexp :=
  match n with
  | NMod m => SList [sym "module"; enc_amodule ids m]
  | NStmt s => SList [sym "stmt"; enc_astmt ids s]
  | NArg a => SList [sym "arg"; enc_aarg ids a]
  end.

Definition enc_pnode (n : pnode) : sexp :=
  match n with
  | PMod m => SList [sym "module"; enc_module m]
  | PStmt s => SList [sym "stmt"; enc_stmt s]
  | PArg a => SList [sym "arg"; enc_arg a]
  end.

Definition enc_view (v : path * pnode) : sexp := SList [enc_path (fst v); enc_pnode (snd v)].

Definition opt_bind {A B} (x : option A) (f : A -> option B) : option B :=
  match x with Some a => f a | None => None end.
Notation "'let?' x := e1 'in' e2" := (opt_bind e1 (fun x => e2)) (at level 200, x pattern, e1 at level 100, e2 at level 200).

Definition unmodelled : sexp := enc_outcome (fun x : sexp => x) (Err Unmodelled).

(* FAMILY: run_locate *)
Definition run_locate (fn : sexp) (args : list sexp) : option sexp :=
  if is_sym "annotate" fn then
    match args with
    | [m] =>
      let? m := dec_module m in
      Some (if supported m then enc_outcome (enc_amodule true) (Ok (annotate m)) else unmodelled)
    | _ => None
    end
  else if is_sym "find_in_ast" fn then
    match args with
    | [q; m] =>
      let? q := dec_loc q in
      let? m := dec_module m in
      Some (if supported m then
              enc_outcome (fun r => SList [enc_option (enc_anode true) (fst r);
                                           enc_amodule true (apply_dlog (snd r) (annotate m))])
                          (find_in_ast_log q (annotate m))
            else unmodelled)
    | _ => None
    end
  else if is_sym "find_view" fn then
    match args with
    | [q; m] =>
      let? q := dec_loc q in
      let? m := dec_module m in
      Some (if supported m then enc_outcome (enc_option enc_view) (find_view q m) else unmodelled)
    | _ => None
    end
  else if is_sym "resolve" fn then
    match args with
    | [q; m] =>
      let? q := dec_loc q in
      let? m := dec_module m in
      Some (if supported m then enc_outcome (enc_option enc_view) (Ok (resolve q m)) else unmodelled)
    | _ => None
    end
  else if is_sym "emit_arg" fn then
    (* emit_arg(find_in_ast(q, tree)) *)
    match args with
    | [q; m] =>
      let? q := dec_loc q in
      let? m := dec_module m in
      Some (if supported m then
              enc_outcome (enc_aarg true)
                          (do r <- find_in_ast q (annotate m);
                           match r with Some (NMod _) => Err NotImplementedError | Some n => emit_arg n | None => Err NotImplementedError end)
            else unmodelled)
    | _ => None
    end
  else if is_sym "emit_ann_assign" fn then
    match args with
    | [q; m] =>
      let? q := dec_loc q in
      let? m := dec_module m in
      Some (if supported m then
              enc_outcome (enc_astmt true)
                          (do r <- find_in_ast q (annotate m);
                           match r with Some n => emit_ann_assign n | None => Err NotImplementedError end)
            else unmodelled)
    | _ => None
    end
  else if is_sym "rewrite" fn then
    (* (rewrite search output-module replacement-module replacement-position) *)
    match args with
    | [q; m; rm; rp] =>
      let? q := dec_loc q in
      let? m := dec_module m in
      let? rm := dec_module rm in
      let? rp := dec_path rp in
      Some (if supported m && supported rm then
              let am := annotate_at [0] m in
              match node_at rp (annotate_at [1] rm) with
              | None => unmodelled
              | Some repl =>
                if const_hazard q am then unmodelled
                else enc_outcome (fun r => SList [enc_anode true (fst r); enc_bool (rw_replaced (snd r));
                                                  enc_anode true (rw_node (snd r))])
                                 (rewrite_visit q repl am)
              end
            else unmodelled)
    | _ => None
    end
  else None.
