(* C14Spec2: the C14 classifier refined by one failure of the real sync_properties that finding_class_C14
   (model/C14Spec.v) leaves unnamed (definitions only).  Found by the strengthened generators, inside guard_C14,
   recorded as a finding rather than repaired.

   other-docstring-reformatted   sync_properties writes the whole output module back through emit.file, which formats
                                 the text with black; black re-indents docstrings and strips the blanks that end
                                 their lines, so the docstring constant of a function / class / module that was NOT
                                 addressed changes value ('g doc   \n    more' comes back 'g doc\n    more').  The
                                 model stops at the tree handed to emit.file (the write event), where the frame holds
                                 (C14_frame); the difference is made afterwards.  C11 records the same defect of sync
                                 under the same name (SyncSpec.K_other_docstring_reformatted).

   The refined classifier is given, besides the call, the module that the output file REALLY holds afterwards.  It
   keeps every old class and adds the new one only where the old classifier is silent and the two files, with the
   addressed positions masked, differ and are equal once every docstring constant is replaced by its normal form
   (blanks that end a line dropped, inspect.cleandoc): any other difference stays unnamed. *)
From Coq Require Import List Ascii Bool Arith ZArith.
From Coq Require String.
Import String.StringSyntax.
From DT Require Import PyStr Sexp PyVal PureUtils PyAst Locate SyncProps C15Spec C14Spec.
Import ListNotations.

Inductive c14_class_r : Type :=
| K14r_old (k : c14_class)
| K14r_other_docstring_reformatted.

Definition class_name_C14_r (k : c14_class_r) : str :=
  match k with
  | K14r_old k0 => class_name_C14 k0
  | K14r_other_docstring_reformatted => L "other-docstring-reformatted"
  end.

(* what formatting may change of a docstring: the blanks that end its lines, the indentation the lines after the
   first have in common, the blanks before the first line, empty lines at both ends.  Text outside what the model
   of cleandoc covers (SyncProps.doc_char_ok: printable ASCII and the line feed) is left as it is. *)
Definition norm_doc (s : str) : str :=
  if forallb doc_char_ok s then cleandoc (join [nl] (map rstrip (split_nl s))) else s.

(* a body whose first statement is a string constant: that constant is the docstring *)
Definition norm_head (b : list stmt) : list stmt :=
  match b with
  | SExpr (EConst (VStr s)) :: r => SExpr (EConst (VStr (norm_doc s))) :: r
  | _ => b
  end.

(* every function and class definition, wherever it sits (ast.walk) *)
Fixpoint norm_stmt (s : stmt) : stmt :=
  match s with
  | SFunc n a b d r => SFunc n a (norm_head (map norm_stmt b)) d r
  | SClass n bs b d => SClass n bs (norm_head (map norm_stmt b)) d
  | SOther t h bl => SOther t h (map (map norm_stmt) bl)
  | _ => s
  end.

Definition norm_module (m : module) : module := norm_head (map norm_stmt m).

(* the written file t against the original output module, addressed positions masked: they differ, and only in
   docstring constants that have the same normal form *)
Definition docstrings_only_differ (x : c14_input) (t : module) : bool :=
  let ps := somes (out_positions x) in
  let a := mask_module ps (ci_out x) in
  let b := mask_module ps t in
  negb (list_eqb stmt_eqb a b) && list_eqb stmt_eqb (norm_module a) (norm_module b).

Definition new_class_C14 (x : c14_input) (after : option module) : option c14_class_r :=
  match after with
  | Some t => if addresses_resolve x && docstrings_only_differ x t then Some K14r_other_docstring_reformatted else None
  | None => None
  end.

Definition finding_class_C14_r (x : c14_input) (after : option module) : option c14_class_r :=
  match finding_class_C14 x with
  | Some k => Some (K14r_old k)
  | None => new_class_C14 x after
  end.

Definition guard_C14_r (x : c14_input) (after : option module) : bool :=
  C14_domain x && match finding_class_C14_r x after with None => true | Some _ => false end.

(* FAMILY: run_c14r *)
(* c14_class_r: the refined class.  c14_docstrings_only: the test of the new class on its own, whatever the old
   classifier says (the oracle uses it to tell a call on which the model's tree and the written file part ways only
   through the formatter from a broken correspondence). *)
Definition run_c14r (fn : sexp) (args : list sexp) : option sexp :=
  if is_sym "c14_class_r" fn || is_sym "c14_docstrings_only" fn then
    match args with
    | [env; ev; im; ips; om; ops; w; evs; after] =>
      let? env := dec_env env in
      let? ev := dec_bool ev in
      let? im := dec_module im in
      let? ips := dec_list dec_str ips in
      let? om := dec_module om in
      let? ops := dec_list dec_str ops in
      let? w := dec_option dec_str w in
      let? evs := dec_list dec_evald evs in
      let? after := dec_option dec_module after in
      let x := mkC14 env ev im ips om ops w evs in
      Some (if is_sym "c14_docstrings_only" fn then
              enc_bool (match after with
                        | Some t => addresses_resolve x && docstrings_only_differ x t
                        | None => false
                        end)
            else if negb (C14_domain x) then sym "out-of-domain"
            else enc_option (fun k => enc_str (class_name_C14_r k)) (finding_class_C14_r x after))
    | _ => None
    end
  else None.
