(* PyAst: the fragment of Python's ast that doctrans builds or inspects, plus opaque carriers for
   everything else (identity = canonical source text, with nested statement blocks kept so that
   walks descend into them).  Definitions and wire codec only. *)
From Coq Require Import List Ascii Bool Arith ZArith.
From Coq Require String.
Import String.StringSyntax.
From DT Require Import PyStr Sexp PyVal.
Import ListNotations.

Inductive expr : Type :=
| EConst (v : pyval)
| EName (id : str)
| EAttr (e : expr) (attr : str)
| ESub (e : expr) (slice : expr)
| ETuple (es : list expr)
| EList (es : list expr)
| EDict (ks : list expr) (vs : list expr)
| ECall (f : expr) (args : list expr) (kws : list (option str * expr))
| EUnary (op : str) (e : expr)
| EOpaque (src : str).               (* any other expression: ast.unparse text *)

Record arg : Type := mkArg { a_name : str; a_ann : option expr }.

Record arguments : Type := mkArguments {
  ar_args : list arg;
  ar_defaults : list expr;
  ar_kwonly : list arg;
  ar_kw_defaults : list (option expr);
  ar_vararg : option arg;
  ar_kwarg : option arg
}.

Inductive stmt : Type :=
| SFunc (name : str) (args : arguments) (body : list stmt) (decos : list expr) (returns : option expr)
| SClass (name : str) (bases : list expr) (body : list stmt) (decos : list expr)
| SAnnAssign (target : expr) (ann : expr) (value : option expr)
| SAssign (targets : list expr) (value : expr)
| SExpr (e : expr)
| SReturn (e : option expr)
| SOther (tag : str) (head : str) (blocks : list (list stmt)).
   (* If/For/While/With/Try/Import/...: tag = node class, head = canonical text of the non-block part *)

Definition module := list stmt.

Definition no_arguments : arguments := mkArguments [] [] [] [] None None.

(* ---- structural equality (cmp_ast on this fragment) ---- *)
Definition list_eqb {A} (f : A -> A -> bool) : list A -> list A -> bool :=
  fix go (a b : list A) : bool :=
    match a, b with
    | [], [] => true
    | x :: a', y :: b' => f x y && go a' b'
    | _, _ => false
    end.

Definition option_eqb {A} (f : A -> A -> bool) (a b : option A) : bool :=
  match a, b with
  | None, None => true
  | Some x, Some y => f x y
  | _, _ => false
  end.

Fixpoint expr_eqb (a b : expr) : bool :=
  match a, b with
  | EConst x, EConst y => pyval_eqb x y
  | EName x, EName y => str_eqb x y
  | EAttr e1 x, EAttr e2 y => expr_eqb e1 e2 && str_eqb x y
  | ESub e1 s1, ESub e2 s2 => expr_eqb e1 e2 && expr_eqb s1 s2
  | ETuple x, ETuple y => list_eqb expr_eqb x y
  | EList x, EList y => list_eqb expr_eqb x y
  | EDict k1 v1, EDict k2 v2 => list_eqb expr_eqb k1 k2 && list_eqb expr_eqb v1 v2
  | ECall f1 a1 k1, ECall f2 a2 k2 =>
    expr_eqb f1 f2 && list_eqb expr_eqb a1 a2
    && list_eqb (fun p q => match p, q with
                             | (o1, e1), (o2, e2) => option_eqb str_eqb o1 o2 && expr_eqb e1 e2
                             end) k1 k2
  | EUnary o1 e1, EUnary o2 e2 => str_eqb o1 o2 && expr_eqb e1 e2
  | EOpaque x, EOpaque y => str_eqb x y
  | _, _ => false
  end.

Definition arg_eqb (a b : arg) : bool :=
  str_eqb (a_name a) (a_name b) && option_eqb expr_eqb (a_ann a) (a_ann b).

Definition arguments_eqb (a b : arguments) : bool :=
  list_eqb arg_eqb (ar_args a) (ar_args b)
  && list_eqb expr_eqb (ar_defaults a) (ar_defaults b)
  && list_eqb arg_eqb (ar_kwonly a) (ar_kwonly b)
  && list_eqb (option_eqb expr_eqb) (ar_kw_defaults a) (ar_kw_defaults b)
  && option_eqb arg_eqb (ar_vararg a) (ar_vararg b)
  && option_eqb arg_eqb (ar_kwarg a) (ar_kwarg b).

Fixpoint stmt_eqb (a b : stmt) : bool :=
  match a, b with
  | SFunc n1 a1 b1 d1 r1, SFunc n2 a2 b2 d2 r2 =>
    str_eqb n1 n2 && arguments_eqb a1 a2 && list_eqb stmt_eqb b1 b2
    && list_eqb expr_eqb d1 d2 && option_eqb expr_eqb r1 r2
  | SClass n1 bs1 b1 d1, SClass n2 bs2 b2 d2 =>
    str_eqb n1 n2 && list_eqb expr_eqb bs1 bs2 && list_eqb stmt_eqb b1 b2 && list_eqb expr_eqb d1 d2
  | SAnnAssign t1 a1 v1, SAnnAssign t2 a2 v2 =>
    expr_eqb t1 t2 && expr_eqb a1 a2 && option_eqb expr_eqb v1 v2
  | SAssign t1 v1, SAssign t2 v2 => list_eqb expr_eqb t1 t2 && expr_eqb v1 v2
  | SExpr e1, SExpr e2 => expr_eqb e1 e2
  | SReturn e1, SReturn e2 => option_eqb expr_eqb e1 e2
  | SOther t1 h1 b1, SOther t2 h2 b2 =>
    str_eqb t1 t2 && str_eqb h1 h2 && list_eqb (list_eqb stmt_eqb) b1 b2
  | _, _ => false
  end.

(* ---- helpers mirroring ast / doctrans.ast_utils accessors ---- *)
Definition stmt_name (s : stmt) : option str :=
  match s with
  | SFunc n _ _ _ _ => Some n
  | SClass n _ _ _ => Some n
  | _ => None
  end.

(* ast.get_docstring(node, clean=False) presence test: first statement is Expr(Constant(str)) *)
Definition docstring_of (body : list stmt) : option str :=
  match body with
  | SExpr (EConst (VStr s)) :: _ => Some s
  | _ => None
  end.

(* ---- wire ---- *)
Fixpoint enc_expr (e : expr) : sexp :=
  match e with
  | EConst v => SList [sym "const"; enc_pyval v]
  | EName id => SList [sym "name"; enc_str id]
  | EAttr e a => SList [sym "attr"; enc_expr e; enc_str a]
  | ESub e s => SList [sym "sub"; enc_expr e; enc_expr s]
  | ETuple es => SList [sym "tuple"; SList (map enc_expr es)]
  | EList es => SList [sym "list"; SList (map enc_expr es)]
  | EDict ks vs => SList [sym "dict"; SList (map enc_expr ks); SList (map enc_expr vs)]
  | ECall f args kws =>
    SList [sym "call"; enc_expr f; SList (map enc_expr args);
           SList (map (fun p => SList [enc_option enc_str (fst p); enc_expr (snd p)]) kws)]
  | EUnary op e => SList [sym "unary"; enc_str op; enc_expr e]
  | EOpaque src => SList [sym "opaque"; enc_str src]
  end.

Definition enc_arg (a : arg) : sexp := SList [enc_str (a_name a); enc_option enc_expr (a_ann a)].

Definition enc_arguments (a : arguments) : sexp :=
  SList [enc_list enc_arg (ar_args a); enc_list enc_expr (ar_defaults a);
         enc_list enc_arg (ar_kwonly a); enc_list (enc_option enc_expr) (ar_kw_defaults a);
         enc_option enc_arg (ar_vararg a); enc_option enc_arg (ar_kwarg a)].

Fixpoint enc_stmt (s : stmt) : sexp :=
  match s with
  | SFunc n a b d r =>
    SList [sym "func"; enc_str n; enc_arguments a; SList (map enc_stmt b); enc_list enc_expr d;
           enc_option enc_expr r]
  | SClass n bs b d =>
    SList [sym "class"; enc_str n; enc_list enc_expr bs; SList (map enc_stmt b); enc_list enc_expr d]
  | SAnnAssign t a v => SList [sym "annassign"; enc_expr t; enc_expr a; enc_option enc_expr v]
  | SAssign ts v => SList [sym "assign"; enc_list enc_expr ts; enc_expr v]
  | SExpr e => SList [sym "expr"; enc_expr e]
  | SReturn e => SList [sym "return"; enc_option enc_expr e]
  | SOther t h bl =>
    SList [sym "other"; enc_str t; enc_str h; SList (map (fun b => SList (map enc_stmt b)) bl)]
  end.

Definition enc_module (m : module) : sexp := SList (map enc_stmt m).

(* decoding: fuel-indexed because sexp is a nested inductive; fuel = depth bound, the harness
   passes terms far shallower than the fuel used by callers (sexp_depth) *)
Fixpoint sexp_depth (e : sexp) : nat :=
  match e with
  | Atom _ => 1
  | SList l => S (fold_right (fun x n => Nat.max (sexp_depth x) n) 0 l)
  end.

Fixpoint dec_expr_f (fuel : nat) (e : sexp) : option expr :=
  match fuel with
  | O => None
  | S f =>
    let de := dec_expr_f f in
    match e with
    | SList [t; x] =>
      if is_sym "const" t then option_map EConst (dec_pyval x)
      else if is_sym "name" t then option_map EName (dec_str x)
      else if is_sym "tuple" t then option_map ETuple (dec_list de x)
      else if is_sym "list" t then option_map EList (dec_list de x)
      else if is_sym "opaque" t then option_map EOpaque (dec_str x)
      else None
    | SList [t; x; y] =>
      if is_sym "attr" t then
        match de x, dec_str y with Some a, Some b => Some (EAttr a b) | _, _ => None end
      else if is_sym "sub" t then
        match de x, de y with Some a, Some b => Some (ESub a b) | _, _ => None end
      else if is_sym "dict" t then
        match dec_list de x, dec_list de y with Some a, Some b => Some (EDict a b) | _, _ => None end
      else if is_sym "unary" t then
        match dec_str x, de y with Some a, Some b => Some (EUnary a b) | _, _ => None end
      else None
    | SList [t; x; y; z] =>
      if is_sym "call" t then
        match de x, dec_list de y, dec_list (dec_pair (dec_option dec_str) de) z with
        | Some a, Some b, Some c => Some (ECall a b c)
        | _, _, _ => None
        end
      else None
    | _ => None
    end
  end.

Definition dec_expr (e : sexp) : option expr := dec_expr_f (sexp_depth e) e.

Definition dec_arg (e : sexp) : option arg :=
  match e with
  | SList [n; a] =>
    match dec_str n, dec_option dec_expr a with
    | Some n', Some a' => Some (mkArg n' a')
    | _, _ => None
    end
  | _ => None
  end.

Definition dec_arguments (e : sexp) : option arguments :=
  match e with
  | SList [a; d; k; kd; va; kw] =>
    match dec_list dec_arg a, dec_list dec_expr d, dec_list dec_arg k,
          dec_list (dec_option dec_expr) kd, dec_option dec_arg va, dec_option dec_arg kw with
    | Some a', Some d', Some k', Some kd', Some va', Some kw' => Some (mkArguments a' d' k' kd' va' kw')
    | _, _, _, _, _, _ => None
    end
  | _ => None
  end.

Fixpoint dec_stmt_f (fuel : nat) (e : sexp) : option stmt :=
  match fuel with
  | O => None
  | S f =>
    let ds := dec_stmt_f f in
    match e with
    | SList [t; n; a; b; d; r] =>
      if is_sym "func" t then
        match dec_str n, dec_arguments a, dec_list ds b, dec_list dec_expr d, dec_option dec_expr r with
        | Some n', Some a', Some b', Some d', Some r' => Some (SFunc n' a' b' d' r')
        | _, _, _, _, _ => None
        end
      else None
    | SList [t; n; bs; b; d] =>
      if is_sym "class" t then
        match dec_str n, dec_list dec_expr bs, dec_list ds b, dec_list dec_expr d with
        | Some n', Some bs', Some b', Some d' => Some (SClass n' bs' b' d')
        | _, _, _, _ => None
        end
      else None
    | SList [t; x; y; z] =>
      if is_sym "annassign" t then
        match dec_expr x, dec_expr y, dec_option dec_expr z with
        | Some a, Some b, Some c => Some (SAnnAssign a b c)
        | _, _, _ => None
        end
      else if is_sym "other" t then
        match dec_str x, dec_str y, dec_list (dec_list ds) z with
        | Some a, Some b, Some c => Some (SOther a b c)
        | _, _, _ => None
        end
      else None
    | SList [t; x; y] =>
      if is_sym "assign" t then
        match dec_list dec_expr x, dec_expr y with Some a, Some b => Some (SAssign a b) | _, _ => None end
      else None
    | SList [t; x] =>
      if is_sym "expr" t then option_map SExpr (dec_expr x)
      else if is_sym "return" t then option_map SReturn (dec_option dec_expr x)
      else None
    | _ => None
    end
  end.

Definition dec_stmt (e : sexp) : option stmt := dec_stmt_f (sexp_depth e) e.
Definition dec_module (e : sexp) : option module := dec_list dec_stmt e.
