(* C12Spec: the statement of property C12 (output is a deterministic function of the input) over the
   model of the docstring/signature merge.  Every iteration over a Python set in the modelled code takes
   an explicit order parameter; determinism = the result does not depend on those parameters.
   Independence of earlier calls / call order is immediate for these conversions: each modelled entry
   point is a Gallina function of its arguments only (the transcribed Python functions read no module
   or function-object state), so  conv st x = conv st' x  holds by reflexivity for any notion of state;
   that the transcription is right about this is checked by the oracle's shuffled call orders.
   Definitions only. *)
From Coq Require Import List Ascii Bool Arith ZArith Permutation.
From Coq Require String.
Import String.StringSyntax.
From DT Require Import PyStr Sexp PyVal PureUtils Defaults PyAst IR Merge ParseSig.
Import ListNotations.

(* an admissible iteration order: visits exactly the elements of the set, each once *)
Definition perm_ok (pi : perm) : Prop := forall l, Permutation (pi l) l.

Definition id_perm : perm := fun l => l.

Definition C12_join_statement : Prop :=
  forall pj pj' p o, perm_ok pj -> perm_ok pj' -> join_non_none pj p o = join_non_none pj' p o.

Definition C12_merge_statement : Prop :=
  forall pi pi' pj pj' t o, perm_ok pi -> perm_ok pi' -> perm_ok pj -> perm_ok pj' ->
    ir_merge pi pj t o = ir_merge pi' pj' t o.

Definition C12_function_statement : Prop :=
  forall pi pi' pj pj' d fd it ww ft fnm, perm_ok pi -> perm_ok pi' -> perm_ok pj -> perm_ok pj' ->
    parse_function pi pj d fd it ww ft fnm = parse_function pi' pj' d fd it ww ft fnm.

Definition C12_inner_statement : Prop :=
  forall p1 p1' q1 q1' p2 p2' q2 q2' c it t n d,
    perm_ok p1 -> perm_ok p1' -> perm_ok q1 -> perm_ok q1' ->
    perm_ok p2 -> perm_ok p2' -> perm_ok q2 -> perm_ok q2' ->
    merge_inner_function p1 q1 p2 q2 c it t n d = merge_inner_function p1' q1' p2' q2' c it t n d.

(* a process state, whatever it contains: the modelled conversions do not take it *)
Definition with_state {S A B} (f : A -> B) : S -> A -> B := fun _ x => f x.

Definition C12_state_statement : Prop :=
  forall (S : Type) (st st' : S) pi pj d fd it ww ft fnm,
    with_state (fun x => parse_function pi pj d x it ww ft fnm) st fd
    = with_state (fun x => parse_function pi pj d x it ww ft fnm) st' fd.

Definition C12_statement : Prop :=
  C12_join_statement /\ C12_merge_statement /\ C12_function_statement /\ C12_inner_statement
  /\ C12_state_statement.

(* ---- the code before fix 5000c02, kept to document what the fix removed ----
   for name in other_params.keys() - target_params.keys(): target_params[name] = other_params[name] *)
Definition diff_keys (op tp : list (str * gparam)) : list str :=
  dedup (filter (fun k => negb (mem_str k (od_keys tp))) (od_keys op)).

Definition append_missing_old (pd : perm) (op tp : list (str * gparam)) : list (str * gparam) :=
  fold_left (fun d k => match od_get k op with Some v => od_set k v d | None => d end) (pd (diff_keys op tp)) tp.

Definition rev_perm : perm := fun l => rev l.

(* the old loop depends on the order exactly when two or more names are missing from the target *)
Definition old_loop_order_dependent (op tp : list (str * gparam)) : bool :=
  Nat.leb 2 (List.length (diff_keys op tp)).

(* ---- the ways the emitted TEXT still varies between processes ----
   A raw ast node left as a default is formatted by the emitters with "{}".format(node), which prints the
   object's address.  After fix 14f8a19 _infer_default no longer leaves one under a str-like type; the
   remaining source is a non-** parameter whose name ends in "kwargs": _set_name_and_type takes its
   kwargs branch and never calls _infer_default (C07 class non-star-parameter-named-kwargs).  The model
   carries the node as structure (DE e), so the IR it computes is the same in every run; the address is
   below the model.  Recorded as a class so that the oracle's failures are attributed. *)
Definition gparam_has_node (p : gparam) : bool :=
  match g_default p with Some (DE _) => true | _ => false end.

Definition ir_has_node_default (r : ir) : bool :=
  existsb (fun kv => gparam_has_node (snd kv)) (ir_params r)
  || match ir_returns r with Has p => gparam_has_node p | _ => false end.

(* a second leak, in the argparse emitter (not modelled here): a back-tick quoted one-element list default
   such as [a + b] or [*a] is re-parsed by _parse_default_from_ast, which takes get_value(elts[0]) - a raw
   node for anything but a constant or a name - as the argparse default.  Over-approximated on the IR:
   some default is back-tick quoted source of a list display. *)
Definition gparam_has_list_code (p : gparam) : bool :=
  match g_default p with
  | Some (DV (VStr s)) => code_quoted s && startswith (L "```[") s
  | _ => false
  end.

Definition ir_has_list_code_default (r : ir) : bool :=
  existsb (fun kv => gparam_has_list_code (snd kv)) (ir_params r).

Inductive c12_class : Type := K12_node_default | K12_list_code_default.

Definition c12_class_name (k : c12_class) : str :=
  match k with
  | K12_node_default => L "raw-ast-node-default-printed-with-its-address"
  | K12_list_code_default => L "quoted-list-default-expanded-to-raw-node-by-argparse-emitter"
  end.

Definition finding_class_C12_ir (r : ir) : option c12_class :=
  if ir_has_node_default r then Some K12_node_default
  else if ir_has_list_code_default r then Some K12_list_code_default
  else None.

Definition finding_class_C12 (d : option ir) (fd : stmt) : option c12_class :=
  match parse_function id_perm id_perm d fd false true None None with
  | Ok r => finding_class_C12_ir r
  | Err _ => None
  end.

(* every default of the IR has a process-independent text *)
Definition ir_printable (r : ir) : Prop :=
  (forall k p, In (k, p) (ir_params r) -> forall e, g_default p <> Some (DE e))
  /\ (forall p, ir_returns r = Has p -> forall e, g_default p <> Some (DE e)).

(* wire: the oracle asks for the model's verdict on a definition / on an IR *)
(* FAMILY: run_c12 *)
Definition run_c12 (fn : sexp) (args : list sexp) : option sexp :=
  if is_sym "c12_class" fn then
    match args with
    | [d; s] =>
      match dec_option dec_ir d, dec_stmt s with
      | Some d, Some fd =>
        Some (match parse_function id_perm id_perm d fd false true None None with
              | Ok r => enc_option (fun k => enc_str (c12_class_name k)) (finding_class_C12_ir r)
              | Err Unmodelled => sym "unmodelled"
              | Err _ => sym "raises"
              end)
      | _, _ => None
      end
    | _ => None
    end
  else if is_sym "c12_class_ir" fn then
    match args with
    | [r] => match dec_ir r with
             | Some r => Some (enc_option (fun k => enc_str (c12_class_name k)) (finding_class_C12_ir r))
             | None => None
             end
    | _ => None
    end
  else None.
