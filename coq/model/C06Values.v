(* C06Values: value-level specs and guards for the class and argparse emitters (extension of C06Spec).
   What the IR says about a class attribute (name, annotation = the parse of the type text, value = the
   constant of the default) and about an argparse option (option string, type, choices, action, help,
   required, default), as lists computed from the IR alone; and the executable guards inside which the
   emitters are proved to produce exactly that (proofs/C06ValuesFacts.v).  Definitions only. *)
From Coq Require Import List Ascii Bool Arith ZArith.
From Coq Require String.
Import String.StringSyntax.
From DT Require Import PyStr Sexp PyVal TyExpr Extracted PureUtils Defaults C17Spec PyAst IR Fill EmitAst ParseAst.
From DT Require Import C02Spec C02Codec C04Spec C04Codec C06Spec.
Import ListNotations.

(* ================================================================== class *)

(* a name Python mangles inside a class body (class-private-name-mangled) *)
Definition private_name (n : str) : bool := startswith (L "__") n && negb (endswith (L "__") n).

(* a declared type param2ast handles inside the model without repairing it: needs_quoting decides, brackets
   balanced (ast_parse_fix leaves it alone), not one of the special spellings (dict, *x, complex) *)
Definition class_typ_ok (t : str) : bool :=
  is_Ok_bool (needs_quoting (Some t))
  && str_eqb (bracket_fix t) t
  && negb (str_eqb t (L "dict")) && negb (startswith [ch 42] t) && negb (str_eqb t (L "complex")).

(* what the IR says the value is: the three spellings of None are None *)
Definition ir_value (v : pyval) : pyval := if in_none_types v then VNone else v.

(* the neutral value of a declared type: the zero of a scalar type, None otherwise.  An attribute the IR gives
   no default is initialised with it (the oracle demands nothing of such an attribute's value). *)
Definition neutral_value (t : str) : pyval := match zero_of t with Ok z => z | Err _ => VNone end.

(* a str default that is not code, not a spelling of None, and that quote / set_value leave alone *)
Definition plain_str (s : str) : bool :=
  negb (code_quoted s) && negb (in_none_types (VStr s))
  && str_eqb (set_value_str s) s && str_eqb (set_value_str (quote s)) s.

(* complement, by clause:
     None / NoneStr under a scalar type, a falsy value that is not the type's zero   class-falsy-default-becomes-zero
     the str None, a code-quoted str                                                 code-default-emitted-as-string
     a str that quote / set_value change                                             str-default-requoted
     a str under a generic type that needs no quoting                                class-str-default-parsed-as-code
     a truthy non-str under a type that needs quoting                                class-quote-of-non-str-default
     a default that is an AST node or another object                                 (outside the property's domain) *)
Definition class_default_ok (t : str) (d : option dval) : bool :=
  match d with
  | None => true
  | Some (DV v) =>
    let nq := Ok_true (needs_quoting (Some t)) in
    let simple := in_simple_types t in
    if is_none_default v then negb simple
    else if in_none_types v then false
    else if truthy v then
           match v with
           | VStr s => (nq || simple) && plain_str s
           | _ => negb nq
           end
         else if nq || simple then pyval_eqb v (neutral_value t)
              else match v with VStr _ => false | _ => true end
  | Some _ => false
  end.

(* typ absent or None: class-annotation-from-default / class-NoneType-annotation *)
Definition class_param_ok (kv : str * gparam) : bool :=
  negb (private_name (fst kv))
  && match g_typ (snd kv) with
     | Has t => class_typ_ok t && class_default_ok t (g_default (snd kv))
     | _ => false
     end.

(* over the parameters with the return entry folded in (what emit.class_ iterates over) *)
Definition guard_C06_class (i : ir) : bool := forallb class_param_ok (ir_params (class_fold_returns i)).

(* ---- the spec: computed from the IR (and the parse of its type and code texts) ---- *)
(* the constant of a default that is not code *)
Definition class_plain_value (t : str) (d : option dval) : expr :=
  match d with
  | Some (DV v) => EConst (ir_value v)
  | Some (DE e) => e
  | _ => EConst (neutral_value t)
  end.

(* what the IR says the value is: None for the spellings of None, the expression for a back-tick quoted code
   default, the constant otherwise; an attribute without default gets the neutral value of its type *)
Definition class_spec_value (pt : ptable) (t : str) (d : option dval) : outcome expr :=
  match d with
  | None => Ok (EConst (neutral_value t))
  | Some (DV v) =>
    if in_none_types v then Ok (EConst VNone)
    else match v with
         | VStr s => if code_quoted s then parse_expr_src pt (strip_chars [bt] s) else Ok (EConst v)
         | _ => Ok (EConst v)
         end
  | Some (DE e) => Ok e
  | Some (DO _) => Err Unmodelled
  end.

Definition spec_class_attr (pt : ptable) (kv : str * gparam) : outcome (str * expr * option expr) :=
  match g_typ (snd kv) with
  | Has t => do ann <- parse_expr_src pt t;
             do v <- class_spec_value pt t (g_default (snd kv));
             Ok (fst kv, ann, Some v)
  | _ => Err Unmodelled                 (* no declared type: the IR says nothing about the annotation *)
  end.

Definition spec_class_attrs (pt : ptable) (i : ir) : outcome (list (str * expr * option expr)) :=
  map_outcome (spec_class_attr pt) (ir_params (class_fold_returns i)).

(* the same at one point, as a computation *)
Definition attr_eqb (a b : str * expr * option expr) : bool :=
  str_eqb (fst (fst a)) (fst (fst b)) && expr_eqb (snd (fst a)) (snd (fst b)) && option_eqb expr_eqb (snd a) (snd b).

Definition C06_class_holds_b (pt : ptable) (i : ir) (ec : bool) (ww : bool) (text : str) : bool :=
  match emit_class pt i ec (L "C") [] [] ww (Ok text), spec_class_attrs pt i with
  | Ok (s, _), Ok sp => list_eqb attr_eqb (class_attrs_of s) sp
  | _, _ => false
  end.

(* the statement at full strength (false of the faithful model) *)
Definition C06_class_statement : Prop :=
  forall pt i ec cn bs ds ww tds s i',
    emit_class pt i ec cn bs ds ww tds = Ok (s, i') ->
    spec_class_attrs pt i = Ok (class_attrs_of s).

(* ================================================================== function: annotations inside TyExpr *)

(* every declared type (return entry included) is a scalar name or a text of TyExpr's canonical fragment: the
   model parses it without consulting the parse table *)
Definition fn_typ_ok (t : str) : bool :=
  in_simple_types t || match typ_ast (bracket_fix t) with Some _ => true | None => false end.

Definition fn_param_typ_ok (kv : str * gparam) : bool :=
  match g_typ (snd kv) with
  | Has t => fn_typ_ok t
  | Missing => true
  | FNone => false                       (* name-none-annotation *)
  end.

Definition fn_return_typ_ok (i : ir) : bool :=
  match ir_returns i with
  | Has p => match g_typ p with
             | Has (c :: t) => match typ_ast (c :: t) with Some _ => true | None => false end
             | _ => true
             end
  | _ => true
  end.

Definition guard_C06_function_types (i : ir) : bool :=
  forallb fn_param_typ_ok (filter no_kwargs (ir_params i)) && fn_return_typ_ok i.

(* the names CPython must accept: the first argument, the parameters, the **kwargs parameter *)
Definition fn_all_names (ftype : option str) (i : ir) : list str :=
  (match ftype with
   | None => []
   | Some t => if str_eqb t (L "static") then [] else [t]
   end)
  ++ map fst (filter no_kwargs (ir_params i))
  ++ (match filter (fun kv => negb (no_kwargs kv)) (ir_params i) with kv :: _ => [fst kv] | [] => [] end).

Definition guard_C06_function_names (ftype : option str) (i : ir) : bool :=
  forallb is_identifier (fn_all_names ftype i) && nodupb (fn_all_names ftype i).

(* ================================================================== argparse *)

(* the help text as the emitter is asked to write it *)
Definition ap_help_text (ww : bool) (g : gparam) : option (outcome str) :=
  match prose_of g with Some h => Some (fill_if ww h) | None => None end.

(* prose without a default announcement (argparse-inference: the announced default is moved out of the help),
   whose (wrapped) text set_value leaves alone *)
Definition ap_help_ok (ww : bool) (g : gparam) : bool :=
  match prose_of g with
  | Some h => no_announce h && match fill_if ww h with Ok h' => sv_stable h' | Err _ => true end
  | None => true
  end.

(* no default, None, or a default of the declared scalar type; a str that is not code, not a spelling of None, and that
   set_value leaves alone (argparse-inference: the type / default / required written follow the default's Python type;
   the str spellings of None go through the parse table) *)
Definition ap_default_ok (T : str) (d : option dval) : bool :=
  match d with
  | None => true
  | Some (DV VNone) => true
  | Some (DV v) =>
    str_eqb (type_name v) T
    && match v with
       | VStr s => sv_stable s && negb (code_quoted s) && negb (in_none_types (VStr s))
       | _ => true
       end
  | Some _ => false
  end.

(* the declared types the theorem covers: T, Optional[T], List[T] over a scalar T (shape_of_typ), and
   Literal['a', 'b', ...] over two or more strings (literal_of_typ; one member: argparse-single-literal-no-choices) *)
Definition ap_param_ok (ww : bool) (kv : str * gparam) : bool :=
  plain_name_C04 (fst kv)
  && match g_typ (snd kv) with
     | Has t =>
       match shape_of_typ t with
       | Some sh => ap_help_ok ww (snd kv) && ap_default_ok (sh_T sh) (g_default (snd kv))
       | None =>
         match literal_of_typ t with
         | Some _ => ap_help_ok ww (snd kv) && ap_default_ok (L "str") (g_default (snd kv))
         | None => false
         end
       end
     | _ => false
     end.

Definition guard_C06_argparse (ww : bool) (i : ir) : bool :=
  forallb (ap_param_ok ww) (ir_params i) && no_carried_body_C04 i.

(* ---- the spec table ---- *)
Definition ap_kws (typ : option str) (choices : option (list str)) (action : option str) (help : option str)
           (required : bool) (dflt : option pyval) : list (option str * expr) :=
  (match typ with Some t => [kw "type" (EName t)] | None => [] end)
  ++ (match choices with Some cs => [kw "choices" (ETuple (map (fun c => EConst (VStr c)) cs))] | None => [] end)
  ++ (match action with Some a => [kw "action" (EConst (VStr a))] | None => [] end)
  ++ (match help with Some h => [kw "help" (EConst (VStr h))] | None => [] end)
  ++ (if required then [kw "required" (EConst (VBool true))] else [])
  ++ (match dflt with Some v => [kw "default" (EConst v)] | None => [] end).

(* type=: the scalar of the declared type; str is argparse's own default and is not written (unless appended) *)
Definition ap_type_of (sh : shape) : option str :=
  if str_eqb (sh_T sh) (L "str") && negb (sh_append sh) then None else Some (sh_T sh).

Definition ap_action_of (sh : shape) : option str := if sh_append sh then Some (L "append") else None.

(* required=: the IR has no such field.  This is doctrans' convention (what its own parser reads back as
   not-Optional): never for Optional[..]; always for str / int / float; for bool only with a default *)
Definition ap_required_of (sh : shape) (d : option dval) : bool :=
  if sh_optional sh then false
  else if str_eqb (sh_T sh) (L "bool") then match d with None | Some (DV VNone) => false | Some _ => true end
       else true.

(* default=: the constant; None is argparse's own default and is not written *)
Definition ap_default_of (d : option dval) : option pyval :=
  match d with Some (DV VNone) => None | Some (DV v) => Some v | _ => None end.

Definition ap_help_of (ww : bool) (g : gparam) : option str :=
  match prose_of g with
  | Some h => match fill_if ww h with Ok h' => Some h' | Err _ => None end
  | None => None
  end.

Definition spec_argparse_row (ww : bool) (kv : str * gparam) : option (list expr * list (option str * expr)) :=
  match g_typ (snd kv) with
  | Has t =>
    match shape_of_typ t with
    | Some sh =>
      Some (spec_option (fst kv),
            ap_kws (ap_type_of sh) None (ap_action_of sh) (ap_help_of ww (snd kv))
                   (ap_required_of sh (g_default (snd kv))) (ap_default_of (g_default (snd kv))))
    | None =>
      match literal_of_typ t with
      | Some cs =>
        Some (spec_option (fst kv),
              ap_kws None (Some cs) None (ap_help_of ww (snd kv)) true (ap_default_of (g_default (snd kv))))
      | None => None
      end
    end
  | _ => None
  end.

Definition spec_argparse_table (ww : bool) (i : ir) : option (list (list expr * list (option str * expr))) :=
  sequence_opt (map (spec_argparse_row ww) (ir_params i)).

Definition kw_eqb (a b : option str * expr) : bool := option_eqb str_eqb (fst a) (fst b) && expr_eqb (snd a) (snd b).

Definition row_eqb (a b : list expr * list (option str * expr)) : bool :=
  list_eqb expr_eqb (fst a) (fst b) && list_eqb kw_eqb (snd a) (snd b).

Definition C06_argparse_holds_b (pt : ptable) (i : ir) (edd wd ww : bool) : bool :=
  match emit_argparse pt i edd (Some (L "set_cli_args")) (Some (L "static")) wd ww (Ok (L "Doc.")),
        spec_argparse_table ww i with
  | Ok (s, _), Some tb => list_eqb row_eqb (argparse_table_of s) tb
  | _, _ => false
  end.

(* the statement at full strength, wherever the spec table is defined (every declared type of one of the
   covered forms) *)
Definition C06_argparse_statement : Prop :=
  forall pt i edd fn ft wd ww ds s i2,
    emit_argparse pt i edd fn ft wd ww ds = Ok (s, i2) ->
    forall tb, spec_argparse_table ww i = Some tb -> argparse_table_of s = tb.

(* ================================================================== wire *)
(* guards and the comparison of a given (really emitted) artefact with the spec computed here *)
(* FAMILY: run_c06values *)
Definition run_c06values (fn : sexp) (args : list sexp) : option sexp :=
  if is_sym "c06v_class" fn then
    match args with
    | [i; pt; art] =>
      match dec_ir i, dec_ptable pt, dec_stmt art with
      | Some i, Some pt, Some s =>
        Some (SList [enc_bool (guard_C06_class i);
                     enc_bool (match spec_class_attrs pt i with
                               | Ok sp => list_eqb attr_eqb (class_attrs_of s) sp
                               | Err _ => false
                               end)])
      | _, _, _ => None
      end
    | _ => None
    end
  else if is_sym "c06v_argparse" fn then
    match args with
    | [i; ww; art] =>
      match dec_ir i, dec_bool ww, dec_stmt art with
      | Some i, Some ww, Some s =>
        Some (SList [enc_bool (guard_C06_argparse ww i);
                     enc_bool (match spec_argparse_table ww i with
                               | Some tb => list_eqb row_eqb (argparse_table_of s) tb
                               | None => false
                               end)])
      | _, _, _ => None
      end
    | _ => None
    end
  else if is_sym "c06v_function" fn then
    match args with
    | [i; ftype; art] =>
      match dec_ir i, dec_option dec_str ftype, dec_stmt art with
      | Some i, Some ftype, Some s =>
        Some (SList [enc_bool (guard_C06_function_types i && guard_C06_function_names ftype i);
                     enc_bool (wf_python s)])
      | _, _, _ => None
      end
    | _ => None
    end
  else None.
