(* C05Spec: property C05 (any-to-any convertibility preserves the interface).
   - the seven representation kinds and the relation [preserved] (names, order, types, prose, explicit
     defaults with their Python type, return entry, summary) on IR.ir;
   - the boolean region [chain_safe ks i] on which EVERY conversion chain over the kinds of [ks] preserves the
     interface on the real code, and the named reasons [c05_class ks i] an IR / chain falls outside it.
     The classifier is a function of the chain and the INPUT description only; it was obtained from stratified
     sweeps of the real emitters + parsers and is checked on every run by harness/prop_C05.py (a failure whose
     class is None is a violation);
   - the ReST conversion of the models (DocParse.rest_text_of then DocParse.parse_dot_docstring), which is the
     one per-kind law that props/C01.v discharges.
   Definitions only. *)
From Coq Require Import List Ascii Bool Arith ZArith.
From Coq Require String.
Import String.StringSyntax.
From DT Require Import PyStr Sexp PyVal TyExpr PureUtils Defaults PyAst IR Extracted C17Spec DocParse C01Spec.
Import ListNotations.

(* ------------------------------------------------------------------ kinds *)

Inductive kind : Type := KRest | KNumpydoc | KGoogle | KClass | KFunction | KMethod | KArgparse.

Definition all_kinds : list kind := [KRest; KNumpydoc; KGoogle; KClass; KFunction; KMethod; KArgparse].

Definition kind_eqb (a b : kind) : bool :=
  match a, b with
  | KRest, KRest | KNumpydoc, KNumpydoc | KGoogle, KGoogle | KClass, KClass
  | KFunction, KFunction | KMethod, KMethod | KArgparse, KArgparse => true
  | _, _ => false
  end.

Definition is_doc_kind (k : kind) : bool := match k with KRest | KNumpydoc | KGoogle => true | _ => false end.
Definition is_ng_kind (k : kind) : bool := match k with KNumpydoc | KGoogle => true | _ => false end.
Definition is_fun_kind (k : kind) : bool := match k with KFunction | KMethod => true | _ => false end.
Definition is_class_kind (k : kind) : bool := match k with KClass => true | _ => false end.
Definition is_argparse_kind (k : kind) : bool := match k with KArgparse => true | _ => false end.
(* the kinds that carry a return entry (type + prose, no default) unchanged *)
Definition carries_return (k : kind) : bool := match k with KRest | KFunction | KMethod => true | _ => false end.

Definition kind_name (k : kind) : str :=
  match k with
  | KRest => L "rest" | KNumpydoc => L "numpydoc" | KGoogle => L "google" | KClass => L "class"
  | KFunction => L "function" | KMethod => L "method" | KArgparse => L "argparse"
  end.

(* ------------------------------------------------------------------ preserved *)

(* type, prose (absent, None and the empty string all mean none) and default of one entry; None, the str None
   and NoneStr all stand for the Python value None; otherwise same value with the same Python type *)
Definition preserved_entry (g g' : gparam) : bool :=
  same_typ g g' && same_prose g g' && same_default_ir (g_default g) (g_default g').

(* names and order, and entry by entry *)
Fixpoint preserved_params (a b : list (str * gparam)) : bool :=
  match a, b with
  | [], [] => true
  | (n, g) :: a', (n', g') :: b' => str_eqb n n' && preserved_entry g g' && preserved_params a' b'
  | _, _ => false
  end.

Definition preserved_returns (r r' : fld gparam) : bool := opt_eqb preserved_entry (fld_opt r) (fld_opt r').

Definition preserved (i i' : ir) : bool :=
  same_summary i i' && preserved_params (ir_params i) (ir_params i')
  && preserved_returns (ir_returns i) (ir_returns i').

(* ------------------------------------------------------------------ the shapes of declared types *)

Inductive tshape : Type :=
| ShScalar (s : str)             (* str | int | float | bool *)
| ShOptional (s : str)           (* Optional[scalar] *)
| ShList (s : str)               (* List[scalar] *)
| ShLiteral (choices : list str) (* Literal['a', 'b', ...] : two or more plain words *)
| ShCompound                     (* Union[scalars], Tuple[scalars], dotted name *)
| ShOther.

Definition scalar_names : list str := [L "str"; L "int"; L "float"; L "bool"].
Definition is_scalar_name (s : str) : bool := existsb (str_eqb s) scalar_names.

Definition word_char (c : ascii) : bool := isalnum_c c || mem_c c (L " _-/~").
Definition plain_char (c : ascii) : bool := isalnum_c c || mem_c c (L " ,.()-_'/~").

Definition nonempty_str (s : str) : bool := match s with [] => false | _ => true end.

(* non-empty text over the alphabet, without outer blanks or runs of blanks: what textwrap.fill, strip and the
   docstring scanners leave alone *)
Definition plain_text (ok : ascii -> bool) (s : str) : bool :=
  nonempty_str s && forallb ok s && negb (startswith [sp] s) && negb (endswith [sp] s)
  && negb (contains (L "  ") s).

Definition scalar_ty (t : ty) : option str :=
  match t with
  | TName [s] => if is_scalar_name s then Some s else None
  | _ => None
  end.

Definition strlit_word (t : ty) : option str :=
  match t with
  | TStrLit s => if plain_text word_char s then Some s else None
  | _ => None
  end.

Fixpoint all_some {A B} (f : A -> option B) (l : list A) : option (list B) :=
  match l with
  | [] => Some []
  | x :: r => match f x, all_some f r with
              | Some y, Some ys => Some (y :: ys)
              | _, _ => None
              end
  end.

Definition const_word (s : str) : bool := existsb (str_eqb s) [L "None"; L "True"; L "False"].

(* the text must be exactly what ast.unparse prints (canonical spacing and quoting) *)
Definition type_shape (t : str) : tshape :=
  match parse_ty t with
  | None => ShOther
  | Some e =>
    if negb (str_eqb (show_ty e) t) then ShOther
    else
      match e with
      | TName [s] => if is_scalar_name s then ShScalar s else ShOther
      | TName (a :: b :: r) => if existsb const_word (a :: b :: r) then ShOther else ShCompound
      | TSub [h] args =>
        if str_eqb h (L "Optional") then
          match args with
          | [a] => match scalar_ty a with Some s => ShOptional s | None => ShOther end
          | _ => ShOther
          end
        else if str_eqb h (L "List") then
          match args with
          | [a] => match scalar_ty a with Some s => ShList s | None => ShOther end
          | _ => ShOther
          end
        else if str_eqb h (L "Literal") then
          match all_some strlit_word args with
          | Some cs => if Nat.leb 2 (List.length cs) then ShLiteral cs else ShOther
          | None => ShOther
          end
        else if str_eqb h (L "Union") || str_eqb h (L "Tuple") then
          match all_some scalar_ty args with
          | Some ss => if Nat.leb 2 (List.length ss) then ShCompound else ShOther
          | None => ShOther
          end
        else ShOther
      | _ => ShOther
      end
  end.

(* ------------------------------------------------------------------ finding classes *)

Inductive c05_class : Type :=
| K05_summary_shape          (* summary empty or not plain one-line text: re-flowed, stripped or read as a section *)
| K05_return_entry           (* a return entry on a chain that cannot carry it, or one with a default / without type or prose *)
| K05_kwargs                 (* a parameter named ...kwargs: type and default are normalised *)
| K05_no_type                (* parameter without a declared type: dropped, misread or given an invented type *)
| K05_type_taxonomy          (* declared type outside scalar / Optional / List / Literal / Union / Tuple / dotted in canonical text *)
| K05_prose_shape            (* prose not plain one-line text, or starting with Optional, or mentioning a default *)
| K05_code_default           (* code-quoted default: back-ticks lost, type dropped or literal_eval raises *)
| K05_default_mismatch       (* default whose Python type is not the declared scalar / not one of the Literal choices *)
| K05_scalar_under_compound  (* scalar default under a List / Union / Tuple / dotted type *)
| K05_str_not_plain          (* str default that is empty or not a plain word (dots, quotes, brackets ...) *)
| K05_float_not_finite       (* inf / nan default *)
| K05_too_long               (* name, type, prose, default or summary long enough for word wrap to re-flow a line *)
| K05_no_prose               (* parameter without prose: default lost in docstrings; order changed by the class kind *)
| K05_prose_no_terminal      (* prose without final . or , before a default sentence: a full stop is added *)
| K05_none_scalar            (* None default under a scalar type through class / argparse: becomes the zero value *)
| K05_none_argparse          (* None default through argparse: lost, or the type changes *)
| K05_list_argparse          (* List[...] through argparse *)
| K05_compound_argparse      (* Union / Tuple / dotted type through argparse: falls back to str (documented) or worse *)
| K05_no_default             (* parameter without default through class / function / method / argparse: acquires one *)
| K05_default_then_none.     (* parameter without default after one with a default (numpydoc / google / argparse) *)

Definition c05_class_name (k : c05_class) : str :=
  match k with
  | K05_summary_shape => L "summary-shape"
  | K05_return_entry => L "return-entry"
  | K05_kwargs => L "kwargs-parameter"
  | K05_no_type => L "parameter-without-type"
  | K05_type_taxonomy => L "type-outside-taxonomy"
  | K05_prose_shape => L "prose-shape"
  | K05_code_default => L "code-quoted-default"
  | K05_default_mismatch => L "default-type-mismatch"
  | K05_scalar_under_compound => L "scalar-default-under-compound-type"
  | K05_str_not_plain => L "str-default-not-plain"
  | K05_float_not_finite => L "float-default-not-finite"
  | K05_too_long => L "text-too-long-for-word-wrap"
  | K05_no_prose => L "parameter-without-prose"
  | K05_prose_no_terminal => L "prose-without-terminal-punctuation"
  | K05_none_scalar => L "none-default-under-scalar-type"
  | K05_none_argparse => L "none-default-through-argparse"
  | K05_list_argparse => L "list-type-through-argparse"
  | K05_compound_argparse => L "union-tuple-dotted-type-through-argparse"
  | K05_no_default => L "parameter-without-default"
  | K05_default_then_none => L "default-then-no-default"
  end.

(* bounds that keep every emitted line below the wrap width (100): the line of a parameter carries its name,
   its prose and the text of its default; the type line its name and type *)
Definition entry_line_max : nat := 70.
Definition type_line_max : nat := 80.
Definition summary_max : nat := 90.

Definition starts_optional5 (d : str) : bool := startswith (L "(Optional)") d || startswith (L "Optional") d.
Definition mentions_default (d : str) : bool := contains (L "default") (casefold d).

Definition prose_ok (d : str) : bool :=
  plain_text plain_char d && negb (starts_optional5 d) && negb (mentions_default d).

Definition float_not_finite (r : str) : bool :=
  existsb (str_eqb r) [L "inf"; L "-inf"; L "nan"].

Definition value_text_len (v : pyval) : nat := List.length (py_str v).

(* a default value (not None-like) against the shape of the declared type *)
Definition value_class (sh : tshape) (v : pyval) : option c05_class :=
  if code_quoted_val v then Some K05_code_default
  else
    match (match sh with
           | ShScalar s | ShOptional s => if str_eqb (type_name v) s then None else Some K05_default_mismatch
           | ShLiteral cs => match v with
                             | VStr s => if existsb (str_eqb s) cs then None else Some K05_default_mismatch
                             | _ => Some K05_default_mismatch
                             end
           | _ => Some K05_scalar_under_compound
           end) with
    | Some k => Some k
    | None =>
      match v with
      | VStr s => if plain_text word_char s then None else Some K05_str_not_plain
      | VFloat r => if float_not_finite r then Some K05_float_not_finite else None
      | _ => None
      end
    end.

Definition is_other (sh : tshape) : bool := match sh with ShOther => true | _ => false end.
Definition is_scalar_shape (sh : tshape) : bool := match sh with ShScalar _ => true | _ => false end.
Definition is_optional_shape (sh : tshape) : bool := match sh with ShOptional _ => true | _ => false end.
Definition is_list_shape (sh : tshape) : bool := match sh with ShList _ => true | _ => false end.
Definition is_compound_shape (sh : tshape) : bool := match sh with ShCompound => true | _ => false end.

(* the default of an entry: absent, None-like, a scalar value, or outside the domain *)
Inductive dshape : Type := DAbsent | DNone | DValue (v : pyval) | DForeign.
Definition default_shape (g : gparam) : dshape :=
  match g_default g with
  | None => DAbsent
  | Some (DV v) => if in_none_types v then DNone else DValue v
  | Some _ => DForeign
  end.

(* the reasons that do not depend on the chain *)
Definition entry_hard (is_param : bool) (name : str) (g : gparam) : option c05_class :=
  if is_param && endswith (L "kwargs") name then Some K05_kwargs
  else
    match fld_str (g_typ g) with
    | None => Some K05_no_type
    | Some t =>
      let sh := type_shape t in
      if is_other sh then Some K05_type_taxonomy
      else if match fld_str (g_doc g) with Some d => negb (prose_ok d) | None => false end then Some K05_prose_shape
      else
        match (match default_shape g with DValue v => value_class sh v | _ => None end) with
        | Some k => Some k
        | None =>
          if Nat.ltb entry_line_max
                     (List.length name
                      + match fld_str (g_doc g) with Some d => List.length d | None => 0 end
                      + match default_shape g with DValue v => value_text_len v | _ => 0 end)
             || Nat.ltb type_line_max (List.length name + List.length t)
          then Some K05_too_long else None
        end
    end.

Definition ends_terminal (d : str) : bool := endswith (L ".") d || endswith (L ",") d.

Definition or_else {A} (a b : option A) : option A := match a with Some x => Some x | None => b end.

(* the reasons that depend on which kinds the chain goes through; [seen] = an earlier parameter has a default.
   Only consulted for entries that passed [entry_hard]. *)
Definition entry_soft (ks : list kind) (seen : bool) (g : gparam) : option c05_class :=
  let doc := existsb is_doc_kind ks in
  let ng := existsb is_ng_kind ks in
  let cls := existsb is_class_kind ks in
  let fn := existsb is_fun_kind ks in
  let arg := existsb is_argparse_kind ks in
  let sh := match fld_str (g_typ g) with Some t => type_shape t | None => ShOther end in
  let ds := default_shape g in
  let has := match ds with DAbsent => false | _ => true end in
  or_else
    (match fld_str (g_doc g) with
     | None => if (has && doc) || cls then Some K05_no_prose else None
     | Some d => if has && doc && negb (ends_terminal d) then Some K05_prose_no_terminal else None
     end)
    (or_else
       (match ds with
        | DNone =>
          if is_scalar_shape sh && (cls || arg) then Some K05_none_scalar
          else if arg then Some K05_none_argparse
          else None
        | _ => None
        end)
       (if arg && is_list_shape sh then Some K05_list_argparse
        else if arg && is_compound_shape sh then Some K05_compound_argparse
        else
          match ds with
          | DAbsent =>
            if cls || fn || (arg && negb (is_optional_shape sh)) then Some K05_no_default
            else if seen && (ng || arg) then Some K05_default_then_none
            else None
          | _ => None
          end)).

Definition has_default (g : gparam) : bool := match g_default g with Some _ => true | None => false end.

(* parameters in order; the first reason found *)
Fixpoint params_class (ks : list kind) (seen : bool) (ps : list (str * gparam)) : option c05_class :=
  match ps with
  | [] => None
  | (n, g) :: r =>
    or_else (entry_hard true n g)
            (or_else (entry_soft ks seen g) (params_class ks (seen || has_default g) r))
  end.

Definition summary_class (i : ir) : option c05_class :=
  match ir_doc i with
  | Has d => if negb (plain_text plain_char d) then Some K05_summary_shape
             else if Nat.ltb summary_max (List.length d) then Some K05_too_long
             else None
  | _ => Some K05_summary_shape
  end.

(* a return entry survives only on chains of rest / function / method, with type and prose and no default *)
Definition return_class (ks : list kind) (i : ir) : option c05_class :=
  match fld_opt (ir_returns i) with
  | None => None
  | Some g =>
    if negb (forallb carries_return ks) then Some K05_return_entry
    else if has_default g then Some K05_return_entry
    else match fld_str (g_typ g), fld_str (g_doc g) with
         | Some _, Some _ => entry_hard false (L "return_type") g
         | _, _ => Some K05_return_entry
         end
  end.

Definition c05_class_of (ks : list kind) (i : ir) : option c05_class :=
  or_else (summary_class i) (or_else (return_class ks i) (params_class ks false (ir_params i))).

(* ------------------------------------------------------------------ the domain *)

Definition reserved_name (n : str) : bool :=
  existsb (str_eqb n) (L "return_type" :: L "None" :: L "True" :: L "False" :: py_keywords).

Definition scalar_default (g : gparam) : bool :=
  match g_default g with None | Some (DV _) => true | Some _ => false end.

(* uniquely named parameters with identifier names, scalar defaults, a summary *)
Definition c05_domain (i : ir) : bool :=
  (match ir_doc i with Has _ => true | _ => false end)
  && forallb (fun kv => is_ident (fst kv) && negb (reserved_name (fst kv)) && scalar_default (snd kv)) (ir_params i)
  && nodup_str (map fst (ir_params i))
  && (match ir_returns i with Has g => scalar_default g | _ => true end).

(* the region: every chain over kinds drawn from [ks] preserves the interface of [i] *)
Definition chain_safe (ks : list kind) (i : ir) : bool :=
  c05_domain i && match c05_class_of ks i with None => true | Some _ => false end.

(* ------------------------------------------------------------------ conversions *)

(* the ReST conversion of the models: emit.docstring (rest, word_wrap off, default sentences on) then
   parse.docstring(text, emit_default_doc=False), which reads the default back out of its sentence *)
Definition conv_rest (i : ir) : outcome ir :=
  do text <- rest_text_of i;
  parse_dot_docstring ng_unmodelled text false true false.

(* a chain of conversions *)
Fixpoint chain {K T} (conv : K -> T -> outcome T) (ks : list K) (i : T) : outcome T :=
  match ks with
  | [] => Ok i
  | k :: r => do i' <- conv k i; chain conv r i'
  end.

(* the law of one kind on a domain: the conversion succeeds, preserves the interface, and stays in the domain *)
Definition kind_law (conv : kind -> ir -> outcome ir) (D : ir -> bool) (k : kind) : Prop :=
  forall i, D i = true -> exists i', conv k i = Ok i' /\ preserved i i' = true /\ D i' = true.

(* ------------------------------------------------------------------ wire *)

Definition dec_kind (e : sexp) : option kind :=
  if is_sym "rest" e then Some KRest
  else if is_sym "numpydoc" e then Some KNumpydoc
  else if is_sym "google" e then Some KGoogle
  else if is_sym "class" e then Some KClass
  else if is_sym "function" e then Some KFunction
  else if is_sym "method" e then Some KMethod
  else if is_sym "argparse" e then Some KArgparse
  else None.

(* FAMILY: run_c05 *)
Definition run_c05 (fn : sexp) (args : list sexp) : option sexp :=
  if is_sym "c05_class" fn then
    match args with
    | [ks; i] =>
      match dec_list dec_kind ks, dec_ir i with
      | Some ks, Some i =>
        Some (if negb (c05_domain i) then sym "out-of-domain"
              else enc_option (fun k => enc_str (c05_class_name k)) (c05_class_of ks i))
      | _, _ => None
      end
    | _ => None
    end
  else if is_sym "c05_preserved" fn then
    match args with
    | [a; b] =>
      match dec_ir a, dec_ir b with
      | Some a, Some b => Some (enc_bool (preserved a b))
      | _, _ => None
      end
    | _ => None
    end
  else if is_sym "c05_conv_rest" fn then
    match args with
    | [i] => match dec_ir i with
             | Some i => Some (enc_outcome enc_ir (conv_rest i))
             | None => None
             end
    | _ => None
    end
  else None.
