(* PyStr: Python `str` methods on ASCII text, as total functions over [list ascii].
   Definitions only; lemmas live in proofs/PyStrFacts.v.
   Domain: 7-bit ASCII.  Each function mirrors the CPython method of the same name
   restricted to that alphabet (validated by the `pystr` correspondence family). *)
From Coq Require Import List Ascii Bool Arith ZArith Lia.
From Coq Require String.
Import String.StringSyntax.
Import ListNotations.

Definition str := list ascii.

(* literals: L "abc" *)
Definition L (s : String.string) : str := String.list_ascii_of_string s.
Arguments L s%string_scope.

Definition ascii_eqb (a b : ascii) : bool := Ascii.eqb a b.

Fixpoint str_eqb (a b : str) : bool :=
  match a, b with
  | [], [] => true
  | x :: a', y :: b' => ascii_eqb x y && str_eqb a' b'
  | _, _ => false
  end.

Definition code (c : ascii) : nat := nat_of_ascii c.

Definition ch (n : nat) : ascii := ascii_of_nat n.

Definition nl : ascii := ch 10.
Definition tabch : ascii := ch 9.
Definition sp : ascii := ch 32.

(* str.isspace for one ASCII char *)
Definition isspace (c : ascii) : bool :=
  let n := code c in
  (Nat.leb 9 n && Nat.leb n 13) || (Nat.leb 28 n && Nat.leb n 32).

Definition isdigit (c : ascii) : bool :=
  let n := code c in Nat.leb 48 n && Nat.leb n 57.

Definition isupper_c (c : ascii) : bool :=
  let n := code c in Nat.leb 65 n && Nat.leb n 90.

Definition islower_c (c : ascii) : bool :=
  let n := code c in Nat.leb 97 n && Nat.leb n 122.

Definition isalpha_c (c : ascii) : bool := isupper_c c || islower_c c.

Definition isalnum_c (c : ascii) : bool := isalpha_c c || isdigit c.

Definition lower_c (c : ascii) : ascii :=
  if isupper_c c then ch (code c + 32) else c.

(* str.casefold / str.lower on ASCII *)
Definition casefold (s : str) : str := map lower_c s.

(* "".isdecimal() is False *)
Definition isdecimal (s : str) : bool :=
  match s with [] => false | _ => forallb isdigit s end.

(* "".isspace() is False *)
Definition str_isspace (s : str) : bool :=
  match s with [] => false | _ => forallb isspace s end.

Fixpoint dropwhile {A} (p : A -> bool) (l : list A) : list A :=
  match l with
  | [] => []
  | x :: r => if p x then dropwhile p r else l
  end.

Fixpoint takewhile {A} (p : A -> bool) (l : list A) : list A :=
  match l with
  | [] => []
  | x :: r => if p x then x :: takewhile p r else []
  end.

Definition lstrip_by (p : ascii -> bool) (s : str) : str := dropwhile p s.
Definition rstrip_by (p : ascii -> bool) (s : str) : str := rev (dropwhile p (rev s)).
Definition strip_by (p : ascii -> bool) (s : str) : str := rstrip_by p (lstrip_by p s).

Definition lstrip := lstrip_by isspace.
Definition rstrip := rstrip_by isspace.
Definition strip := strip_by isspace.

Definition mem_c (c : ascii) (cs : str) : bool := existsb (ascii_eqb c) cs.

(* s.strip(chars) *)
Definition lstrip_chars (cs s : str) : str := lstrip_by (fun c => mem_c c cs) s.
Definition rstrip_chars (cs s : str) : str := rstrip_by (fun c => mem_c c cs) s.
Definition strip_chars (cs s : str) : str := strip_by (fun c => mem_c c cs) s.

Fixpoint startswith (p s : str) : bool :=
  match p, s with
  | [], _ => true
  | x :: p', y :: s' => ascii_eqb x y && startswith p' s'
  | _ :: _, [] => false
  end.

Definition endswith (p s : str) : bool := startswith (rev p) (rev s).

(* s.find(sub, 0): index of first occurrence, None if absent *)
Fixpoint find_from (sub s : str) (i : nat) : option nat :=
  if startswith sub s then Some i
  else match s with
       | [] => None
       | _ :: r => find_from sub r (S i)
       end.

Definition find (sub s : str) : option nat := find_from sub s 0.

(* `sub in s` *)
Definition contains (sub s : str) : bool :=
  match find sub s with Some _ => true | None => false end.

(* s.find(sub, start) as Python int (-1 when absent) *)
Definition find_z (sub s : str) (start : nat) : Z :=
  match find_from sub (skipn start s) start with
  | Some i => Z.of_nat i
  | None => (-1)%Z
  end.

(* s[a:b] for non-negative a, b *)
Definition slice (s : str) (a b : nat) : str := firstn (b - a) (skipn a s).

(* s.split(sep) for non-empty sep; fuel = length s + 1 is always enough *)
Fixpoint split_aux (fuel : nat) (sep s cur : str) : list str :=
  match fuel with
  | O => [rev cur ++ s]
  | S f =>
    match s with
    | [] => [rev cur]
    | c :: r =>
      if startswith sep s then rev cur :: split_aux f sep (skipn (length sep) s) []
      else split_aux f sep r (c :: cur)
    end
  end.

Definition split (sep s : str) : list str := split_aux (S (length s)) sep s [].

Definition split_nl (s : str) : list str := split [nl] s.

(* s.splitlines() restricted to "\n" as the only line boundary (domain excludes \r \v \f \x1c-\x1e) *)
Definition splitlines (s : str) : list str :=
  match s with
  | [] => []
  | _ => let l := split_nl s in
         match rev l with
         | [] :: r => rev r
         | _ => l
         end
  end.

Fixpoint join (sep : str) (l : list str) : str :=
  match l with
  | [] => []
  | [x] => x
  | x :: r => x ++ sep ++ join sep r
  end.

(* s.replace(a, b) for non-empty a *)
Fixpoint replace_aux (fuel : nat) (a b s : str) : str :=
  match fuel with
  | O => s
  | S f =>
    match s with
    | [] => []
    | c :: r =>
      if startswith a s then b ++ replace_aux f a b (skipn (length a) s)
      else c :: replace_aux f a b r
    end
  end.

Definition replace (a b s : str) : str := replace_aux (S (length s)) a b s.

(* s.replace(a, b, 1) for non-empty a *)
Fixpoint replace1 (a b s : str) : str :=
  if startswith a s then b ++ skipn (length a) s
  else match s with
       | [] => []
       | c :: r => c :: replace1 a b r
       end.

(* s.count(sub) for non-empty sub, non-overlapping *)
Fixpoint count_aux (fuel : nat) (sub s : str) : nat :=
  match fuel with
  | O => 0
  | S f =>
    match s with
    | [] => 0
    | _ :: r =>
      if startswith sub s then S (count_aux f sub (skipn (length sub) s))
      else count_aux f sub r
    end
  end.

Definition count (sub s : str) : nat := count_aux (S (length s)) sub s.

Definition count_c (c : ascii) (s : str) : nat :=
  List.length (List.filter (ascii_eqb c) s).

(* s.partition(sep) *)
Definition partition (sep s : str) : str * str * str :=
  match find sep s with
  | Some i => (firstn i s, sep, skipn (i + length sep) s)
  | None => (s, [], [])
  end.

(* textwrap.indent(s, prefix): prefix added to lines that are not whitespace-only;
   line endings kept (domain: "\n" only) *)
Fixpoint indent_lines (prefix : str) (ls : list str) : list str :=
  match ls with
  | [] => []
  | x :: r => (if forallb isspace x then x else prefix ++ x) :: indent_lines prefix r
  end.

(* splitlines(True) then prefix non-blank lines: equivalent on "\n"-only text to mapping over split "\n"
   except that a trailing empty piece stays empty *)
Definition indent (prefix s : str) : str := join [nl] (indent_lines prefix (split_nl s)).

Definition last_c (s : str) : option ascii :=
  match rev s with c :: _ => Some c | [] => None end.

Definition head_c (s : str) : option ascii :=
  match s with c :: _ => Some c | [] => None end.

(* decimal rendering of integers: str(int) *)
Fixpoint dec_of_pos_aux (fuel : nat) (n : N) (acc : str) : str :=
  match fuel with
  | O => acc
  | S f =>
    let d := N.to_nat (N.modulo n 10) in
    let q := N.div n 10 in
    let acc' := ch (48 + d) :: acc in
    if N.eqb q 0 then acc' else dec_of_pos_aux f q acc'
  end.

Definition dec_of_N (n : N) : str := dec_of_pos_aux (S (N.to_nat (N.log2 n))) n [].

Definition dec_of_Z (z : Z) : str :=
  match z with
  | Z0 => [ch 48]
  | Zpos p => dec_of_N (Npos p)
  | Zneg p => ch 45 :: dec_of_N (Npos p)
  end.

(* int(s) for s.isdecimal() strings *)
Definition N_of_dec (s : str) : N :=
  fold_left (fun acc c => (acc * 10 + N.of_nat (code c - 48))%N) s 0%N.

Definition repeat_str (s : str) (n : nat) : str := concat (repeat s n).
