(* PureUtils: doctrans/pure_utils.py string helpers.  Definitions only. *)
From Coq Require Import List Ascii Bool Arith ZArith.
From Coq Require String.
Import String.StringSyntax.
From DT Require Import PyStr Sexp PyVal Extracted.
Import ListNotations.

Definition tab : str := Extracted.tab.
Definition dq : ascii := ch 34.
Definition sq : ascii := ch 39.
Definition bt : ascii := ch 96.

(* unquote(input_str) on a str *)
Definition unquote (s : str) : str :=
  if Nat.ltb 1 (List.length s)
     && ((startswith [dq] s && endswith [dq] s) || (startswith [sq] s && endswith [sq] s))
  then slice s 1 (List.length s - 1)
  else s.

(* quote(s) with the default mark on a str: unchanged if empty or first == last and is a quote mark *)
Definition quote (s : str) : str :=
  match s, last_c s with
  | c :: _, Some d =>
    if ascii_eqb c d && (ascii_eqb c sq || ascii_eqb c dq) then s
    else dq :: s ++ [dq]
  | _, _ => s
  end.

(* quote applied to an arbitrary default value: None passes, str as above, other scalars have
   neither .s/.id/.value => AttributeError *)
Definition quote_val (v : pyval) : outcome pyval :=
  match v with
  | VNone => Ok VNone
  | VStr s => Ok (VStr (quote s))
  | _ => Err AttributeError
  end.

Definition code_quoted (s : str) : bool :=
  Nat.ltb 6 (List.length s) && startswith (L "```") s && endswith (L "```") s.

Definition code_quoted_val (v : pyval) : bool :=
  match v with VStr s => code_quoted s | _ => false end.

Definition NoneStr : str := Extracted.NoneStr.

(* `x in none_types`; the tuple is read from the live module *)
Definition in_none_types (v : pyval) : bool :=
  match v with
  | VNone => Extracted.none_types_has_None
  | VStr s => existsb (str_eqb s) Extracted.none_types_strs
  | _ => false
  end.

Definition deindent (s : str) : str := join [nl] (map lstrip (split_nl s)).

(* reindent(s, indent_level=1) with the default join_on *)
Definition reindent (s : str) (indent_level : nat) : str :=
  replace1 tab [] (join [nl] (map (fun line => repeat_str tab indent_level ++ lstrip line) (split_nl s))).

(* indent_all_but_first(s, indent_level=1, wipe_indents=False) *)
Definition indent_all_but_first (s : str) (indent_level : nat) (wipe : bool) : str :=
  let lines := split_nl (indent (repeat_str tab indent_level) (if wipe then deindent s else s)) in
  match lines with
  | [] => []
  | l0 :: r => join [nl] (lstrip l0 :: r)
  end.

(* multiline(s, quote_with=two empty strings) as used by to_docstring *)
(* after the /repo fixes: the continuation (blank, backslash, newline) appended after the last line is cut off by length,
   [: -len(...)], and then trailing blanks and newlines are stripped as before; the old rstrip over the three characters
   also ate a backslash that ends the text itself *)
Definition drop_last3 (j : str) : str := firstn (List.length j - 3) j.

Definition multiline_noquote (s : str) : str :=
  rstrip_chars (L " " ++ [nl]) (drop_last3 (join tab (map (fun l => l ++ L " \" ++ [nl]) (splitlines s)))).

(* multiline(s) with the default quote marks *)
Definition multiline_sq (s : str) : str :=
  rstrip_chars (L " " ++ [nl]) (drop_last3 (join tab (map (fun l => sq :: l ++ sq :: L " \" ++ [nl]) (splitlines s)))).

Definition strip_split (sep s : str) : list str := map strip (split sep s).

(* paren_wrap_code under PY_GTE_3_9 *)
Definition paren_wrap_code (code : str) : str :=
  match code, last_c code with
  | c :: _, Some d =>
    if (ascii_eqb c (ch 40) && ascii_eqb d (ch 41)) || (ascii_eqb c (ch 91) && ascii_eqb d (ch 93))
       || (ascii_eqb c (ch 123) && ascii_eqb d (ch 125))
    then code else ch 40 :: code ++ [ch 41]
  | _, _ => code   (* code[0] on the empty string raises IndexError; callers never pass it *)
  end.

(* simple_types: keys and zero values as read from the live module (the None key is handled at call sites) *)
Definition zero_of_repr (r : str) : option pyval :=
  match literal_eval_scalar r with Ok v => Some v | Err _ => None end.

Definition simple_type_zero (t : str) : option pyval :=
  if negb (existsb (str_eqb t) Extracted.simple_type_names) then None
  else if str_eqb t (L "int") then zero_of_repr Extracted.zero_int_repr
  else if str_eqb t (L "float") then zero_of_repr Extracted.zero_float_repr
  else if str_eqb t (L "str") then zero_of_repr Extracted.zero_str_repr
  else if str_eqb t (L "bool") then zero_of_repr Extracted.zero_bool_repr
  else None.

(* `t in simple_types` for a str t *)
Definition in_simple_types (t : str) : bool := existsb (str_eqb t) Extracted.simple_type_names.
