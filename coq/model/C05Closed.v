(* C05Closed: concrete model-level converters for the kinds whose round trip is closed by a theorem
   (ReST, numpydoc, google, class, argparse), and the executable domain [closed_dom] on which every chain over
   those kinds is proved to preserve the interface (proofs/C05ClosedFacts.v, props/C05Ext.v, props/C08Ext.v).

   conv_k = parse_k o emit_k over the models:
   - rest      : C05Spec.conv_rest (DocParse.rest_text_of, then DocParse.parse_dot_docstring, emit_default_doc=False);
   - numpydoc,
     google    : C01SpecNG.text_of_o, then DocParseNG.parse_ng with the flags of parse.docstring(emit_default_doc=False);
   - class     : C02DocLinkDefs.class_docstring_text (= DocEmit.to_docstring), EmitAst.emit_class,
                 C02DocLinkDefs.class_docstring_ir (emit.class_'s rewriting, cleandoc, parse.docstring), ParseAst.parse_class;
   - argparse  : EmitAst.emit_argparse, ParseAst.parse_argparse_ast; the docstring text handed to the emitter and the
                 docstring IR handed to the parser are arbitrary functions of the current IR (the parameters, the
                 description and the return entry do not depend on either: props/C04.v).
   ast.unparse followed by ast.parse between emitter and parser of the code kinds is the identity of the models.
   Definitions only. *)
From Coq Require Import List Ascii Bool Arith ZArith.
From Coq Require String.
Import String.StringSyntax.
From DT Require Import PyStr Sexp PyVal TyExpr PureUtils Defaults PyAst IR Extracted C17Spec DocParse C01Spec C05Spec.
From DT Require Import EmitAst ParseAst C02Spec C02Codec C02DocLinkDefs C04Spec C04Codec.
From DT Require DocParseNG C01SpecNG.
Import ListNotations.

(* ------------------------------------------------------------------ options of the converters *)

Record cenv : Type := mkCE {
  ce_w : nat;                  (* pure_utils.line_length *)
  ce_edd : bool;               (* emit.class_: emit_default_doc *)
  ce_ww : bool;                (* emit.class_: word_wrap *)
  ce_pt : ptable;              (* recorded ast.parse table (not consulted inside the domain) *)
  ce_cn : str;                 (* emit.class_: class_name *)
  ce_bases : list str;         (* emit.class_: class_bases *)
  ce_decos : list str;         (* emit.class_: decorator_list *)
  ce_it : bool;                (* parse.class_: infer_type *)
  ce_pww : bool;               (* parse.class_: word_wrap *)
  ce_aedd : bool;              (* emit.argparse_function: emit_default_doc *)
  ce_fn : str;                 (* emit.argparse_function: function_name (non-empty) *)
  ce_ads : ir -> str;          (* the docstring text handed to emit.argparse_function *)
  ce_adi : ir -> ir;           (* the docstring IR handed to parse.argparse_ast *)
  ce_aft : option str;         (* parse.argparse_ast: function_type *)
  ce_afn : option str          (* parse.argparse_ast: function_name *)
}.

Definition env_ok (o : cenv) : bool := match ce_fn o with [] => false | _ => true end.

(* the API defaults of emit.class_ / emit.argparse_function / parse.class_ / parse.argparse_ast, word wrap off *)
Definition default_env : cenv :=
  mkCE 100 false false [] (L "ConfigClass") [L "object"] [] false false
       false (L "set_cli_args") (fun _ => L "Doc.") (fun _ => C04Codec.empty_doc_ir) None None.

(* ------------------------------------------------------------------ the converters *)

Definition conv_ng (style : DocParseNG.ngstyle) (i : ir) : outcome ir :=
  do text <- C01SpecNG.text_of_o style i;
  DocParseNG.parse_ng style C01SpecNG.rt_flags text.

Definition conv_numpydoc : ir -> outcome ir := conv_ng DocParseNG.SNumpydoc.
Definition conv_google : ir -> outcome ir := conv_ng DocParseNG.SGoogle.

Definition conv_class (o : cenv) (i : ir) : outcome ir :=
  do text <- class_docstring_text (ce_w o) (ce_edd o) (ce_ww o) i;
  do r <- emit_class (ce_pt o) i false (ce_cn o) (ce_bases o) (ce_decos o) (ce_ww o) (Ok text);
  parse_class (Some (class_docstring_ir text)) (CStmt (fst r)) None (ce_it o) (ce_pww o).

Definition conv_argparse (o : cenv) (i : ir) : outcome ir :=
  do r <- emit_argparse (ce_pt o) i (ce_aedd o) (Some (ce_fn o)) (Some (L "static")) false false (Ok (ce_ads o i));
  parse_argparse_ast (Ok (ce_adi o i)) (fst r) (ce_aft o) (ce_afn o).

(* one conversion per kind; function / method are not closed here *)
Definition conv_model (o : cenv) (k : kind) (i : ir) : outcome ir :=
  match k with
  | KRest => conv_rest i
  | KNumpydoc => conv_numpydoc i
  | KGoogle => conv_google i
  | KClass => conv_class o i
  | KArgparse => conv_argparse o i
  | KFunction | KMethod => Err Unmodelled
  end.

Definition closed_kinds : list kind := [KRest; KNumpydoc; KGoogle; KClass; KArgparse].

Definition closed_kind (k : kind) : bool :=
  match k with KFunction | KMethod => false | _ => true end.

(* ------------------------------------------------------------------ the carried body *)

(* parse.argparse_ast records the statement  return argument_parser  of the function it read as a carried body
   (from_name = the function, from_type = static); parse.class_ records an empty body; the docstring parsers none *)
Definition argparse_remnant : list stmt := [SReturn (Some (EName (L "argument_parser")))].

Definition stmts_eqb_remnant (b : list stmt) : bool :=
  match b with
  | [SReturn (Some (EName x))] => str_eqb x (L "argument_parser")
  | _ => false
  end.

Definition internal_ok (i : ir) : bool :=
  match ir_internal i with
  | None => true
  | Some it =>
    match in_body it with
    | [] => true
    | b => stmts_eqb_remnant b
           && match in_from_name it with Has _ => true | _ => false end
           && match in_from_type it with Has t => str_eqb t (L "static") | _ => false end
    end
  end.

Definition clear_internal (i : ir) : ir :=
  mkIR (ir_name i) (ir_type i) (ir_doc i) (ir_params i) (ir_returns i) None.

(* ------------------------------------------------------------------ the domain *)

(* Every entry is complete: non-empty prose, a declared type, an explicit scalar default that is not a spelling of
   None; there is a summary, at least one parameter and no return entry.  On such descriptions [preserved] determines
   the summary and the parameters of the other side exactly. *)
Definition complete_entry (g : gparam) : bool :=
  match fld_str (g_doc g), fld_str (g_typ g), g_default g with
  | Some _, Some _, Some (DV v) => negb (in_none_types v)
  | _, _, _ => false
  end.

Definition complete (i : ir) : bool :=
  match ir_doc i with Has _ => true | _ => false end
  && match ir_params i with [] => false | _ => true end
  && forallb (fun kv => complete_entry (snd kv)) (ir_params i)
  && match ir_returns i with Has _ => false | _ => true end.

(* the region of C05 for the closed kinds, inside the guard of every per-kind theorem.  The guards of the two code
   kinds look at the description without its carried body (the remnant above is shown to be harmless). *)
Definition closed_dom (o : cenv) (i : ir) : bool :=
  chain_safe closed_kinds i
  && complete i
  && guard_C01_rest false i
  && C01SpecNG.guard_C01_ng DocParseNG.SNumpydoc i
  && C01SpecNG.guard_C01_ng DocParseNG.SGoogle i
  && guard_C02_ast (clear_internal i)
  && doc_link_ok (ce_w o) (ce_edd o) (ce_ww o) i
  && guard_C04_ast (clear_internal i)
  && internal_ok i.

(* ------------------------------------------------------------------ C08 over the models *)

(* the artefact of one kind: the docstring text, the class statement, the function statement *)
Inductive artefact : Type :=
| AText (t : str)
| AStmt (s : stmt).

Definition emit_model (o : cenv) (k : kind) (i : ir) : outcome artefact :=
  match k with
  | KRest => do t <- rest_text_of i; Ok (AText t)
  | KNumpydoc => do t <- C01SpecNG.text_of_o DocParseNG.SNumpydoc i; Ok (AText t)
  | KGoogle => do t <- C01SpecNG.text_of_o DocParseNG.SGoogle i; Ok (AText t)
  | KClass =>
    do text <- class_docstring_text (ce_w o) (ce_edd o) (ce_ww o) i;
    do r <- emit_class (ce_pt o) i false (ce_cn o) (ce_bases o) (ce_decos o) (ce_ww o) (Ok text);
    Ok (AStmt (fst r))
  | KArgparse =>
    do r <- emit_argparse (ce_pt o) i (ce_aedd o) (Some (ce_fn o)) (Some (L "static")) false false (Ok (ce_ads o i));
    Ok (AStmt (fst r))
  | KFunction | KMethod => Err Unmodelled
  end.

(* the three emissions of C08 for kind k: t1 = emit i, i1 = conv i, t2 = emit i1, i2 = conv i1, t3 = emit i2 *)
Definition C08_at (o : cenv) (k : kind) (i : ir) : Prop :=
  exists t1 i1 t2 i2 t3,
    emit_model o k i = Ok t1 /\ conv_model o k i = Ok i1
    /\ emit_model o k i1 = Ok t2 /\ conv_model o k i1 = Ok i2
    /\ emit_model o k i2 = Ok t3 /\ t2 = t3.

(* ------------------------------------------------------------------ sample descriptions *)

Definition cg (d t : str) (v : pyval) : gparam := mkG (Has d) (Has t) (Some (DV v)).

Definition w_closed : ir :=
  mkIR FNone (Has (L "static")) (Has (L "Acquire from the official model zoo."))
       [(L "dataset_name", cg (L "name of dataset.") (L "str") (VStr (L "mnist")));
        (L "n", cg (L "how many,") (L "int") (VInt 5));
        (L "rate", cg (L "learning rate.") (L "float") (VFloat (L "0.5")));
        (L "as_numpy", cg (L "convert to numpy.") (L "bool") (VBool true));
        (L "opt", cg (L "an optional one.") (L "Optional[int]") (VInt (-3)%Z))]
       FNone None.

(* ================================================================== *)
(* the function and method kinds (added with props/C03Ext.v): all seven kinds                                        *)
(* ================================================================== *)
From DT Require C03Spec C03DocLinkDefs.

(* conv_function / conv_method = the composition C03_partial_closed is about:
     text = to_docstring(...) as emit.function calls it (C03DocLinkDefs.function_docstring_text),
     d    = parse.docstring(cleandoc(text)...) as parse.function calls it (C03DocLinkDefs.function_docstring_ir),
     C03Spec.round_trip_fn = EmitAst.emit_function (function_name f), C03Spec.reparse_stmt (ast.unparse / ast.parse),
                             ParseSig.parse_function with d.
   emit_default_doc is off (the API default of emit.function; with it on the sentence is kept in the prose: a finding
   class of C03). *)
Record fenv : Type := mkFE {
  fe_inline : bool;            (* emit.function: inline_types *)
  fe_kwonly : bool;            (* emit.function: emit_as_kwonlyargs *)
  fe_indent : nat;             (* emit.function: indent_level *)
  fe_sep_tab : bool;           (* emit.function: emit_separating_tab *)
  fe_ww : bool                 (* emit.function: word_wrap *)
}.

(* the API defaults of emit.function *)
Definition default_fenv : fenv := mkFE true true 2 true true.

Definition fn_opts (o : cenv) (f : fenv) (kind : str) : C03Spec.fopts :=
  C03Spec.mkFO kind (fe_inline f) (fe_kwonly f) (fe_indent f) (fe_sep_tab f) false (fe_ww f) (ce_pt o).

Definition conv_fn (o : cenv) (f : fenv) (kind : str) (i : ir) : outcome ir :=
  do text <- C03DocLinkDefs.function_docstring_text (ce_w o) (fn_opts o f kind) i;
  do d <- C03DocLinkDefs.function_docstring_ir text;
  C03Spec.round_trip_fn (fn_opts o f kind) i (Ok text) (Some d).

Definition kind_static : str := L "static".
Definition kind_self : str := L "self".

Definition conv_function (o : cenv) (f : fenv) : ir -> outcome ir := conv_fn o f kind_static.
Definition conv_method (o : cenv) (f : fenv) : ir -> outcome ir := conv_fn o f kind_self.

Definition conv_model7 (o : cenv) (f : fenv) (k : kind) (i : ir) : outcome ir :=
  match k with
  | KFunction => conv_function o f i
  | KMethod => conv_method o f i
  | _ => conv_model o k i
  end.

(* the function the emitter writes is named f (C03Spec.fname); the argparse function must have another name, or
   emit.function would splice the carried  return argument_parser  into f *)
Definition env_ok7 (o : cenv) : bool := env_ok o && negb (str_eqb (ce_fn o) C03Spec.fname).

(* a carried body, if any, does not come from a function named f *)
Definition internal_ok7 (i : ir) : bool :=
  match ir_internal i with
  | None => true
  | Some it =>
    match in_body it with
    | [] => true
    | _ => match in_from_name it with Has n => negb (str_eqb n C03Spec.fname) | _ => false end
    end
  end.

(* what every closed conversion looks at: summary and parameters *)
Definition core_view (i : ir) : ir := mkIR FNone FNone (ir_doc i) (ir_params i) FNone None.

Definition fn_guard (o : cenv) (f : fenv) (kind : str) (i : ir) : bool :=
  C03Spec.guard_C03 (fn_opts o f kind) (core_view i)
  && C03DocLinkDefs.doc_link_ok (ce_w o) (fn_opts o f kind) (core_view i).

(* the seven-kind domain: the five-kind one, plus the C03 guard and its docstring side condition for both kinds *)
Definition closed_dom7 (o : cenv) (f : fenv) (i : ir) : bool :=
  closed_dom o i && internal_ok7 i && fn_guard o f kind_static i && fn_guard o f kind_self i.

(* C08 for all seven kinds *)
Definition emit_model7 (o : cenv) (f : fenv) (k : kind) (i : ir) : outcome artefact :=
  match k with
  | KFunction =>
    do text <- C03DocLinkDefs.function_docstring_text (ce_w o) (fn_opts o f kind_static) i;
    do s <- C03Spec.emit_fn (fn_opts o f kind_static) i (Ok text); Ok (AStmt s)
  | KMethod =>
    do text <- C03DocLinkDefs.function_docstring_text (ce_w o) (fn_opts o f kind_self) i;
    do s <- C03Spec.emit_fn (fn_opts o f kind_self) i (Ok text); Ok (AStmt s)
  | _ => emit_model o k i
  end.

Definition C08_at7 (o : cenv) (f : fenv) (k : kind) (i : ir) : Prop :=
  exists t1 i1 t2 i2 t3,
    emit_model7 o f k i = Ok t1 /\ conv_model7 o f k i = Ok i1
    /\ emit_model7 o f k i1 = Ok t2 /\ conv_model7 o f k i1 = Ok i2
    /\ emit_model7 o f k i2 = Ok t3 /\ t2 = t3.

(* ================================================================== *)
(* a second enlargement: a typed return entry with prose, over the kinds that carry it (rest, function, method)       *)
(* ================================================================== *)
Definition ret_kind (k : kind) : bool := match k with KRest | KFunction | KMethod => true | _ => false end.
Definition ret_kinds : list kind := [KRest; KFunction; KMethod].

(* prose, a declared type, no default *)
Definition complete_return (g : gparam) : bool :=
  match fld_str (g_doc g), fld_str (g_typ g), g_default g with
  | Some _, Some _, None => true
  | _, _, _ => false
  end.

Definition complete_ret (i : ir) : bool :=
  match ir_doc i with Has _ => true | _ => false end
  && match ir_params i with [] => false | _ => true end
  && forallb (fun kv => complete_entry (snd kv)) (ir_params i)
  && match ir_returns i with Has g => complete_return g | _ => false end.

(* summary, parameters and return entry *)
Definition ret_view (i : ir) : ir := mkIR FNone FNone (ir_doc i) (ir_params i) (ir_returns i) None.

Definition fn_guard_ret (o : cenv) (f : fenv) (kind : str) (i : ir) : bool :=
  C03Spec.guard_C03 (fn_opts o f kind) (ret_view i)
  && C03DocLinkDefs.doc_link_ok (ce_w o) (fn_opts o f kind) (ret_view i).

Definition closed_dom_ret (o : cenv) (f : fenv) (i : ir) : bool :=
  chain_safe ret_kinds i && complete_ret i && guard_C01_rest false i
  && internal_ok i && internal_ok7 i
  && fn_guard_ret o f kind_static i && fn_guard_ret o f kind_self i.

Definition w_ret_closed : ir :=
  mkIR FNone (Has (L "static")) (ir_doc w_closed) (ir_params w_closed)
       (Has (mkG (Has (L "the result.")) (Has (L "int")) None)) None.
