(* C02Spec2: the C02 classifier refined by two failures of the real class round trip that finding_class_C02
   (model/C02Spec.v) leaves unnamed (definitions only).  Both were found by proofs, inside guard_C02, and are recorded
   as findings rather than repaired.

   negative-zero-default   a float default -0.0 under a scalar type: ast_utils.param2ast writes
                           `_param.get("default") or simple_types[typ]`; -0.0 is falsy, so the zero value 0.0 of the
                           type is written instead (theorem C02_negative_zero_unclassified in props/C02.v).
   prose-exotic-blank      prose holding, between its ends, a character that str.splitlines splits at other than the
                           line feed (vertical tab, form feed, carriage return, FS, GS, RS): pure_utils.multiline
                           re-flows the prose of the class docstring ('a<FF>b' comes back as 'a \ b').

   The refined classifier keeps every old class and only adds the new ones where the old classifier is silent. *)
From Coq Require Import List Ascii Bool Arith ZArith.
From Coq Require String.
Import String.StringSyntax.
From DT Require Import PyStr Sexp PyVal TyExpr Extracted PureUtils Defaults PyAst IR ParseAst C02Spec.
Import ListNotations.

Inductive c02_class_r : Type :=
| K2r_old (k : c02_class)
| K2r_negative_zero
| K2r_prose_exotic_blank.

Definition c02_class_r_name (k : c02_class_r) : str :=
  match k with
  | K2r_old k0 => c02_class_name k0
  | K2r_negative_zero => L "negative-zero-default"
  | K2r_prose_exotic_blank => L "prose-exotic-blank"
  end.

(* the characters of ASCII at which str.splitlines splits, the line feed apart: VT, FF, CR, FS, GS, RS
   (US, 31, is a blank for str.isspace but not a line boundary) *)
Definition splits_line (c : ascii) : bool :=
  let n := code c in
  Nat.eqb n 11 || Nat.eqb n 12 || Nat.eqb n 13 || Nat.eqb n 28 || Nat.eqb n 29 || Nat.eqb n 30.

Definition has_exotic_blank (s : str) : bool := existsb splits_line s.

Definition neg_zero_default (g : gparam) : bool :=
  match g_default g, fget (g_typ g) with
  | Some (DV (VFloat r)), Some t => str_eqb r (L "-0.0") && is_scalar_typ t
  | _, _ => false
  end.

Definition exotic_prose (g : gparam) : bool :=
  match prose_of g with Some d => has_exotic_blank d | None => false end.

(* every new class that applies (the failures of a point may be of several of them at once) *)
Definition new_classes_C02 (i : ir) : list c02_class_r :=
  (if existsb (fun kv => neg_zero_default (snd kv)) (ir_params i) then [K2r_negative_zero] else [])
  ++ (if existsb (fun kv => exotic_prose (snd kv)) (ir_params i)
         || match ir_returns i with Has r => exotic_prose r | _ => false end
      then [K2r_prose_exotic_blank] else []).

(* which entries the new classes speak of: names of the parameters - and return_type for the return entry *)
Definition entries_where (f : gparam -> bool) (i : ir) : list str :=
  map fst (filter (fun kv => f (snd kv)) (ir_params i))
  ++ match ir_returns i with Has g => if f g then [return_type_key] else [] | _ => [] end.

Definition new_class_C02 (i : ir) : option c02_class_r := hd_error (new_classes_C02 i).

Definition finding_class_C02_r (o : opts02) (i : ir) : option c02_class_r :=
  match finding_class_C02 o i with
  | Some k => Some (K2r_old k)
  | None => new_class_C02 i
  end.

Definition guard_C02_r (o : opts02) (i : ir) : bool :=
  C02_domain i && match finding_class_C02_r o i with None => true | Some _ => false end.

(* FAMILY: run_c02r *)
Definition run_c02r (fn : sexp) (args : list sexp) : option sexp :=
  if is_sym "c02_class_r" fn then
    match args with
    | [edd; ww; i] =>
      match dec_bool edd, dec_bool ww, dec_ir i with
      | Some edd, Some ww, Some i =>
        Some (if negb (C02_domain i) then sym "out-of-domain"
              else enc_option (fun k => enc_str (c02_class_r_name k)) (finding_class_C02_r (mkO02 edd ww) i))
      | _, _, _ => None
      end
    | _ => None
    end
  else if is_sym "c02_new_classes" fn then
    (* (the new classes that apply, all of them - empty when an old class names the point -, the entries with a
       negative-zero default, the entries with exotic prose): the oracle attributes a failure to a new class only at
       these entries *)
    match args with
    | [edd; ww; i] =>
      match dec_bool edd, dec_bool ww, dec_ir i with
      | Some edd, Some ww, Some i =>
        Some (SList [SList (match finding_class_C02 (mkO02 edd ww) i with
                            | Some _ => []
                            | None => map (fun k => enc_str (c02_class_r_name k)) (new_classes_C02 i)
                            end);
                     SList (map enc_str (entries_where neg_zero_default i));
                     SList (map enc_str (entries_where exotic_prose i))])
      | _, _, _ => None
      end
    | _ => None
    end
  else None.
