(* C08Spec2: the C08 classifier refined by a failure of the real argparse kind that finding_class_C08 (model/C08Spec.v)
   leaves unnamed (definitions only).  Found while the holes of the C05 region were followed up (props/C05Ext.v),
   inside guard_C08, recorded as a finding rather than repaired.

   ast_utils.set_value removes ONE pair of outer quote marks from every str it turns into a Constant, on every emission
   (emit.argparse_function hands it the description, param2argparse_param the help text).  A text wrapped in one pair or
   in two pairs has lost them all by the second emission; a text wrapped in three or more pairs still loses a pair
   between the second and the third emission:

   text-quoted-three-deep   argparse kind, a summary or the prose of a parameter s for which
                            set_value_str (set_value_str s) still starts and ends with the same quote mark (more than two
                            characters): the three emissions carry s without one, two and three pairs.

   (A float default -0.0 is NOT a reason here: the class kind turns it into 0.0 on the first pass and stays there.)
   The refined classifier keeps every old class and only adds the new one where the old classifier is silent. *)
From Coq Require Import List Ascii Bool Arith ZArith.
From Coq Require String.
Import String.StringSyntax.
From DT Require Import PyStr Sexp PyVal TyExpr PureUtils Defaults PyAst IR Extracted C05Spec C08Spec.
From DT Require EmitAst C02Spec C04Spec2.
Import ListNotations.

Inductive c08_class_r : Type :=
| K8r_old (k : c05_class)
| K8r_text_quoted_three_deep.

Definition c08_class_r_name (k : c08_class_r) : str :=
  match k with
  | K8r_old k0 => c05_class_name k0
  | K8r_text_quoted_three_deep => L "text-quoted-three-deep"
  end.

(* after two emissions the text still loses a pair of quote marks *)
Definition three_deep (s : str) : bool :=
  C04Spec2.loses_quotes (EmitAst.set_value_str (EmitAst.set_value_str s)).

Definition summary_three_deep (i : ir) : bool :=
  match ir_doc i with Has d => three_deep d | _ => false end.

Definition help_three_deep (g : gparam) : bool :=
  match C02Spec.prose_of g with Some d => three_deep d | None => false end.

Definition three_deep_entries (i : ir) : list str :=
  map fst (filter (fun kv => help_three_deep (snd kv)) (ir_params i)).

Definition new_class_C08 (k : kind) (i : ir) : option c08_class_r :=
  if is_argparse_kind k && (summary_three_deep i || existsb (fun kv => help_three_deep (snd kv)) (ir_params i))
  then Some K8r_text_quoted_three_deep else None.

Definition finding_class_C08_r (k : kind) (i : ir) : option c08_class_r :=
  match finding_class_C08 k i with
  | Some c => Some (K8r_old c)
  | None => new_class_C08 k i
  end.

Definition guard_C08_r (k : kind) (i : ir) : bool :=
  c05_domain i && match finding_class_C08_r k i with None => true | Some _ => false end.

(* FAMILY: run_c08r *)
Definition run_c08r (fn : sexp) (args : list sexp) : option sexp :=
  if is_sym "c08_class_r" fn then
    match args with
    | [k; i] =>
      match dec_kind k, dec_ir i with
      | Some k, Some i =>
        Some (if negb (c05_domain i) then sym "out-of-domain"
              else enc_option (fun c => enc_str (c08_class_r_name c)) (finding_class_C08_r k i))
      | _, _ => None
      end
    | _ => None
    end
  else if is_sym "c08_new_classes" fn then
    (* (whether the new class applies - false when an old class names the point -, whether the summary is three deep, the
       parameters whose prose is): the oracle attributes a failure to the new class only at these places *)
    match args with
    | [k; i] =>
      match dec_kind k, dec_ir i with
      | Some k, Some i =>
        Some (SList [enc_bool (match finding_class_C08 k i, new_class_C08 k i with
                               | None, Some _ => true
                               | _, _ => false
                               end);
                     enc_bool (is_argparse_kind k && summary_three_deep i);
                     SList (map enc_str (if is_argparse_kind k then three_deep_entries i else []))])
      | _, _ => None
      end
    | _ => None
    end
  else None.
