(* C03DocLinkDefs: the docstring link of property C03 (function / method round trip), definitions only.

   What the real code does between the two layers that props/C03.v composes:
     emit.py:function      puts  Expr(set_value(to_docstring(intermediate_repr, word_wrap=word_wrap,
                           emit_default_doc=emit_default_doc, docstring_format="rest", emit_types=not inline_types,
                           indent_level=indent_level, emit_separating_tab=emit_separating_tab)))  first in the body;
     ast.unparse/ast.parse keep the value of that str constant (C03Spec.reparse_body_stmt);
     parse.py:function     doc_str = ast.get_docstring(function_def)  (= inspect.cleandoc of the constant), then
                           docstring(doc_str.replace(":cvar", ":param"), infer_type=infer_type)  with parse.docstring's own
                           defaults emit_default_prop=True, emit_default_doc=True (and parse_docstring's word_wrap=True).

   New modelled function: cleandoc = inspect.cleandoc (CPython 3.12) on tab-free text (str.expandtabs is column
   dependent: declined); validated against CPython's inspect.cleandoc on 91 texts (random blanks / line breaks / form
   feed / CR, and to_docstring-shaped texts for every indent level and separating-tab setting): 0 mismatches.

   Also: the line structure used to state what cleandoc does, the documented view of an interface description, and the
   extra boolean side condition doc_link_ok of the closed theorems (proofs/C03DocLinkMain.v explains each clause). *)
From Coq Require Import List Ascii Bool Arith ZArith.
From Coq Require String.
Import String.StringSyntax.
From DT Require Import PyStr Sexp PyVal TyExpr Extracted PureUtils Defaults PyAst IR.
From DT Require DocEmit DocParse C01Spec C02Spec C18Spec.
From DT Require Import C03Spec.
Import ListNotations.

(* ================= inspect.cleandoc ================= *)

(* len(line) - len(line.lstrip()) when line.lstrip() is not empty *)
Definition line_indent (l : str) : option nat :=
  match lstrip l with
  | [] => None
  | _ => Some (List.length l - List.length (lstrip l))
  end.

(* margin = min over the non-blank lines after the first; None = sys.maxsize *)
Fixpoint margin_of (ls : list str) : option nat :=
  match ls with
  | [] => None
  | l :: r =>
    match line_indent l, margin_of r with
    | Some a, Some b => Some (Nat.min a b)
    | Some a, None => Some a
    | None, m => m
    end
  end.

(* while lines and not lines[0]: lines.pop(0) *)
Fixpoint drop_empty_front (ls : list str) : list str :=
  match ls with
  | [] :: r => drop_empty_front r
  | _ => ls
  end.

(* while lines and not lines[-1]: lines.pop() *)
Definition drop_empty_back (ls : list str) : list str := rev (drop_empty_front (rev ls)).

Definition cleandoc (doc : str) : outcome str :=
  if mem_c tabch doc then Err Unmodelled
  else
    match split_nl doc with
    | [] => Ok []
    | l0 :: rest =>
      let rest' := match margin_of rest with
                   | Some m => map (skipn m) rest
                   | None => rest
                   end in
      Ok (join [nl] (drop_empty_front (drop_empty_back (lstrip l0 :: rest'))))
    end.

(* ================= the composition the code performs ================= *)

(* what emit.function passes to set_value: to_docstring(...) at wrapping width w (pure_utils.line_length) *)
Definition function_docstring_text (w : nat) (o : fopts) (i : ir) : outcome str :=
  do r <- DocEmit.to_docstring w i (fo_edd o) DocEmit.Rest (fo_indent o) (negb (fo_inline o)) (fo_sep_tab o)
                               (fo_word_wrap o);
  Ok (fst r).

(* what parse.function makes of the docstring constant [text] of the re-parsed function *)
Definition function_docstring_ir (text : str) : outcome ir :=
  do c <- cleandoc text;
  DocParse.parse_dot_docstring DocParse.ng_unmodelled (replace (L ":cvar") (L ":param") c) false true true.

(* ================= side conditions of the closed theorems ================= *)

(* to_docstring's inner _fill leaves a string alone: word_wrap off, or every line fits the width *)
Definition fits_line (w : nat) (ww : bool) (s : str) : bool :=
  negb ww || (Nat.leb (List.length s) w && Nat.ltb 0 w).

(* ================= line structure of a docstring text (used by the cleandoc characterisation) ================= *)

(* a line as (indentation, content); content empty = a blank line *)
Definition ln : Type := (str * str)%type.
Definition render_ln (l : ln) : str := fst l ++ snd l.

(* indentation: blanks other than line break and tab; content: no line break, no tab, does not start with a blank *)
Definition ln_ok (l : ln) : bool :=
  forallb isspace (fst l) && negb (mem_c nl (fst l)) && negb (mem_c tabch (fst l))
  && negb (mem_c nl (snd l)) && negb (mem_c tabch (snd l))
  && match snd l with [] => true | c :: _ => negb (isspace c) end.

Definition text_of_lns (lns : list ln) : str := join [nl] (map render_ln lns).

(* the contents, in order *)
Definition heads_of (lns : list ln) : list str := filter DocEmit.nonempty (map snd lns).

(* what cleandoc leaves: leading blanks, then every content followed by blanks *)
Definition text_of_heads (ws0 : str) (hws : list (str * str)) : str :=
  ws0 ++ concat (map (fun hw => fst hw ++ snd hw) hws).

(* ================= one docstring entry as to_docstring's _param2docstring_param writes it ================= *)

Definition entry_text (indent_level : nat) (emit_types : bool) (name d : str) (typ : fld str) : str :=
  let T := repeat_str tab indent_level in
  DocEmit.rest_doc_line name d ++ nl :: T
  ++ match typ with
     | Has t => if emit_types then DocEmit.rest_typ_line name t ++ nl :: T else []
     | _ => []
     end.

(* ================= the documented view of an interface description ================= *)

(* a documented parameter as it stands in the docstring: name, prose, the type when a :type line is written *)
Definition dent : Type := (str * str * option str)%type.
Definition dn (e : dent) : str := fst (fst e).
Definition dd (e : dent) : str := snd (fst e).
Definition dt (e : dent) : option str := snd e.

Definition dent_heads (e : dent) : list str :=
  DocEmit.rest_doc_line (dn e) (dd e)
  :: match dt e with Some t => [DocEmit.rest_typ_line (dn e) t] | None => [] end.

(* the documented return entry: prose, the type when a :rtype line is written *)
Definition rent : Type := (str * option str)%type.

Definition rent_heads (r : option rent) : list str :=
  match r with
  | None => []
  | Some (d, ot) =>
    DocEmit.rest_doc_line (L "return_type") d
    :: match ot with Some t => [DocEmit.rest_typ_line (L "return_type") t] | None => [] end
  end.

(* the contents of the lines of the docstring, in order: summary, entries, return entry *)
Definition heads (sd : option str) (docs : list dent) (r : option rent) : list str :=
  (match sd with Some d0 => [d0] | None => [] end) ++ concat (map dent_heads docs) ++ rent_heads r.

Definition emitted_typ (emit_types : bool) (g : gparam) : option str :=
  if emit_types then match g_typ g with Has t => Some t | _ => None end else None.

Definition dent_of (emit_types : bool) (kv : str * gparam) : option dent :=
  match prose_of (snd kv) with
  | Some d => Some (fst kv, d, emitted_typ emit_types (snd kv))
  | None => None
  end.

Definition docs_of (emit_types : bool) (ps : list (str * gparam)) : list dent :=
  DocEmit.cat_options (map (dent_of emit_types) ps).

Definition rent_of (emit_types : bool) (r : fld gparam) : option rent :=
  match r with
  | Has g => match prose_of g with Some d => Some (d, emitted_typ emit_types g) | None => None end
  | _ => None
  end.

Definition sum_of (i : ir) : option str := DocEmit.truthy_fld (ir_doc i).

(* ================= what the emitter side needs of one entry (derived from the guard and doc_link_ok) ================= *)

Definition entry_emit_ok (w : nat) (ww edd et : bool) (n : str) (g : gparam) : Prop :=
  mem_c nl n = false /\ mem_c tabch n = false /\
  match prose_of g with
  | Some d =>
    g_doc g = Has d
    /\ (exists c r l, d = c :: r /\ isspace c = false /\ last_c d = Some l /\ mem_c l (L " " ++ [nl; ch 92]) = false)
    /\ mem_c nl d = false /\ mem_c tabch d = false /\ C17Spec.no_announce d = true
    /\ (exists dflt, param_of_gparam g = Some (mkParam (Has d) (g_typ g) dflt)
                     /\ (edd = true -> exists p', set_default_doc n (mkParam (Has d) (g_typ g) dflt) true = Ok p'
                                                   /\ p_doc p' = Has d))
    /\ (ww = true -> Fill.fill w (DocEmit.rest_doc_line n d) = Ok (DocEmit.rest_doc_line n d)
                     /\ List.length (DocEmit.rest_doc_line n d) <= w)
    /\ match g_typ g with
       | Has t => et = true ->
                  t <> [] /\ mem_c nl t = false /\ mem_c tabch t = false
                  /\ (ww = true -> Fill.fill w (DocEmit.rest_typ_line n t) = Ok (DocEmit.rest_typ_line n t)
                                   /\ List.length (DocEmit.rest_typ_line n t) <= w)
       | Missing => True
       | FNone => False
       end
  | None =>
    (g_doc g = Missing \/ g_doc g = Has []) /\ (et = false \/ g_typ g = Missing)
    /\ (exists p, param_of_gparam g = Some p)
  end.

Definition sum_emit_ok (w : nat) (ww : bool) (i : ir) : Prop :=
  match sum_of i with
  | Some d0 => (exists c r, d0 = c :: r /\ isspace c = false)
               /\ mem_c nl d0 = false /\ mem_c tabch d0 = false /\ (ww = true -> List.length d0 <= w)
  | None => True
  end.

(* ================= the extra side conditions of the closed theorems (each has a witness on the real code, or is a
   limit of the models; see proofs/C03DocLink.v) ================= *)

(* prose: only plain blanks (str.splitlines splits at form feed etc.), no trailing backslash (multiline() strips it),
   not starting with Optional (proof limit) *)
Definition prose_link_ok (d : str) : bool :=
  C01Spec.plain_blank_only d && negb (endswith [ch 92] d) && negb (C02Spec.prose_starts_optional d).

(* a type written into the docstring: inside the ReST line discipline (no token, no line break, no back-tick, no ** ) *)
Definition typ_link_ok (t : str) : bool := C01Spec.type_in_domain t && C01Spec.plain_blank_only t.

Definition entry_link_ok (w : nat) (o : fopts) (n : str) (g : gparam) : bool :=
  match prose_of g with
  | None => true
  | Some d =>
    prose_link_ok d && fits_line w (fo_word_wrap o) (DocEmit.rest_doc_line n d)
    && match g_typ g with
       | Has t => fo_inline o || (typ_link_ok t && fits_line w (fo_word_wrap o) (DocEmit.rest_typ_line n t))
       | _ => true
       end
  end.

(* the summary, when there is one: a single clean line without tab that fits *)
Definition summary_link_ok (w : nat) (o : fopts) (i : ir) : bool :=
  match sum_of i with
  | Some d0 => C01Spec.clean_line d0 && negb (mem_c tabch d0) && fits_line w (fo_word_wrap o) d0
  | None => true
  end.

(* at least one entry carries prose: otherwise the docstring holds no ReST token and is read as numpydoc / Google *)
Definition has_documented (i : ir) : bool :=
  existsb (fun kv => has_prose (snd kv)) (ir_params i)
  || match ir_returns i with Has g => has_prose g | _ => false end.

Definition doc_link_ok (w : nat) (o : fopts) (i : ir) : bool :=
  summary_link_ok w o i
  && forallb (fun kv => entry_link_ok w o (fst kv) (snd kv)) (ir_params i)
  && (match ir_returns i with Has g => entry_link_ok w o (L "return_type") g | _ => true end)
  && has_documented i.
