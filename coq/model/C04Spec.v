(* C04Spec: the argparse round trip  emit.argparse_function -> ast.unparse -> ast.parse -> parse.argparse_ast.
   The comparison (same_interface of C02Spec on the argparse-expressible sub-domain, plus the description
   text and a return entry that carries a default), the documented normalisation argparse_type_norm, and the
   executable classifier of the finding classes on the real code, a function of the input description and
   the options.  Checked on every run by fam_parseast.oracle_argparse.  Definitions only. *)
From Coq Require Import List Ascii Bool Arith ZArith.
From Coq Require String.
Import String.StringSyntax.
From DT Require Import PyStr Sexp PyVal TyExpr Extracted PureUtils Defaults PyAst IR ParseAst C02Spec.
Import ListNotations.

(* ================= what argparse can express ================= *)

Definition scalar4 (t : str) : bool :=
  str_eqb t (L "str") || str_eqb t (L "int") || str_eqb t (L "float") || str_eqb t (L "bool").

Definition ty_scalar4 (t : ty) : bool :=
  match t with TName [x] => scalar4 x | _ => false end.

Definition ty_str_lit (t : ty) : bool := match t with TStrLit _ => true | _ => false end.

(* scalars, Optional / List of a scalar, Literal of strings, Optional[dict] under a kwargs-style name *)
Definition argparse_expressible (name : str) (typ : str) : bool :=
  match parse_ty typ with
  | Some (TName [x]) => scalar4 x
  | Some (TSub [h] [a]) =>
    ((str_eqb h (L "Optional") || str_eqb h (L "List")) && ty_scalar4 a)
    || (str_eqb h (L "Literal") && ty_str_lit a)
    || (str_eqb h (L "Optional") && kwargs_name name
        && match a with TName [x] => str_eqb x (L "dict") | _ => false end)
  | Some (TSub [h] args) => str_eqb h (L "Literal") && forallb ty_str_lit args
  | _ => false
  end.

(* the documented normalisation: types argparse cannot express fall back to str *)
Definition argparse_type_norm_param (name : str) (g : gparam) : gparam :=
  match g_typ g with
  | Has t => if argparse_expressible name t then g else mkG (g_doc g) (Has Extracted.fallback_typ) (g_default g)
  | _ => g
  end.

Definition argparse_type_norm (i : ir) : ir :=
  mkIR (ir_name i) (ir_type i) (ir_doc i)
       (map (fun kv => (fst kv, argparse_type_norm_param (fst kv) (snd kv))) (ir_params i))
       (ir_returns i) (ir_internal i).

(* the sub-domain the property quantifies over: every declared parameter type is expressible *)
Definition C04_domain (i : ir) : bool :=
  C02_domain i
  && forallb (fun kv => match fget (g_typ (snd kv)) with
                        | Some t => argparse_expressible (fst kv) t
                        | None => true
                        end) (ir_params i).

(* description text; parameters as in same_interface; the return entry only when it carries a default *)
Definition same_description (a b : ir) : bool :=
  str_eqb (match ir_doc a with Has d => d | _ => [] end) (match ir_doc b with Has d => d | _ => [] end).

Definition return_with_default (i : ir) : option gparam :=
  match ir_returns i with
  | Has r => match g_default r with Some _ => Some r | None => None end
  | _ => None
  end.

Definition same_interface_argparse (input output : ir) : bool :=
  same_description input output
  && same_params same_param (ir_params input) (ir_params output)
  && match return_with_default input with
     | Some r => match fget (ir_returns output) with Some r' => same_param r r' | None => false end
     | None => true
     end.

(* ================= options ================= *)

Record opts04 : Type := mkO04 { o4_emit_default_doc : bool; o4_word_wrap : bool; o4_wrap_description : bool }.

(* ================= finding classes of C04 ================= *)

Inductive c04_class : Type :=
| K4_unmodelled                 (* a default that is not a scalar *)
| K4_description_wrapped        (* wrap_description with a description of several lines or longer than the line length: re-flowed *)
| K4_prose_unclean              (* help text with leading / trailing blanks or a line break *)
| K4_prose_announces            (* help text contains an announcement phrase: read as a default *)
| K4_help_wrapped               (* word_wrap with help text longer than the line length: line breaks inserted *)
| K4_untyped                    (* no declared type: comes back str / the default's type *)
| K4_type_not_canonical         (* the type text is not what ast.unparse prints *)
| K4_none_default               (* explicit None: dropped, or replaced by the zero value; type may become Optional *)
| K4_code_default               (* code-quoted default: re-parenthesised, evaluated, or the type rewritten *)
| K4_str_default_quoted         (* a str default that starts and ends with a quote mark *)
| K4_default_type_mismatch      (* the default's Python type is not the declared one: the type comes back as the default's *)
| K4_bool_without_default       (* bool without default comes back Optional[bool] *)
| K4_list_without_default       (* List[T] without default acquires the zero of T, or Optional *)
| K4_literal_without_default    (* Literal[...] without default acquires the empty string *)
| K4_literal_single_choice      (* Literal with one choice comes back str *)
| K4_return_default_requoted.   (* the return default comes back as the repr of the code-quoted string *)

Definition c04_class_name (k : c04_class) : str :=
  match k with
  | K4_unmodelled => L "unmodelled"
  | K4_description_wrapped => L "description-wrapped"
  | K4_prose_unclean => L "prose-not-clean"
  | K4_prose_announces => L "prose-announces-default"
  | K4_help_wrapped => L "help-wrapped"
  | K4_untyped => L "untyped-parameter"
  | K4_type_not_canonical => L "type-not-canonical"
  | K4_none_default => L "explicit-none-default"
  | K4_code_default => L "code-default"
  | K4_str_default_quoted => L "str-default-quoted"
  | K4_default_type_mismatch => L "default-type-mismatch"
  | K4_bool_without_default => L "bool-without-default"
  | K4_list_without_default => L "list-without-default"
  | K4_literal_without_default => L "literal-without-default"
  | K4_literal_single_choice => L "literal-single-choice"
  | K4_return_default_requoted => L "return-default-requoted"
  end.

Definition line_length : nat := Extracted.line_length_default.

Definition d_any_code_quoted (d : dval) : bool :=
  match d with DV (VStr s) => code_quoted s | _ => false end.

(* length of the help text as the emitter may see it (with the default sentence when default text is on) *)
Definition help_length (o : opts04) (doc : str) (g : gparam) : nat :=
  List.length doc
  + match g_default g with
    | Some (DV v) => if o4_emit_default_doc o then 16 + List.length (py_str v) else 0
    | _ => 0
    end.

Definition literal_choices (t : str) : option nat :=
  match parse_ty t with
  | Some (TSub [h] args) => if str_eqb h (L "Literal") then Some (List.length args) else None
  | _ => None
  end.

Definition param_class_C04 (o : opts04) (name : str) (g : gparam) : option c04_class :=
  match g_default g with
  | Some (DE _) | Some (DO _) => Some K4_unmodelled
  | _ =>
    match (match prose_of g with
           | Some doc =>
             if prose_unclean doc then Some K4_prose_unclean
             else if prose_announces doc then Some K4_prose_announces
             else if o4_word_wrap o && Nat.ltb line_length (help_length o doc g) then Some K4_help_wrapped
             else None
           | None => None
           end) with
    | Some k => Some k
    | None =>
      match fget (g_typ g) with
      | None => Some K4_untyped
      | Some t =>
        if negb (typ_canonical t) then Some K4_type_not_canonical
        else
          match g_default g with
          | Some d =>
            if d_none_like d then
              if kwargs_name name && str_eqb t (L "Optional[dict]") then None else Some K4_none_default
            else if d_any_code_quoted d then Some K4_code_default
            else if d_quoted_str d then Some K4_str_default_quoted
            else if negb (default_consistent d t) then Some K4_default_type_mismatch
            else match literal_choices t with
                 | Some 1 => Some K4_literal_single_choice
                 | _ => None
                 end
          | None =>
            if str_eqb t (L "bool") then Some K4_bool_without_default
            else if startswith (L "List[") t then Some K4_list_without_default
            else match literal_choices t with
                 | Some _ => Some K4_literal_without_default
                 | None => None
                 end
          end
      end
    end
  end.

Definition finding_class_C04 (o : opts04) (i : ir) : option c04_class :=
  if o4_wrap_description o
     && (let d := match ir_doc i with Has d => d | _ => [] end in
         Nat.ltb line_length (List.length d) || prose_unclean d)
  then Some K4_description_wrapped
  else
    match first_class (param_class_C04 o) (ir_params i) with
    | Some k => Some k
    | None =>
      match return_with_default i with
      | Some _ => Some K4_return_default_requoted
      | None => None
      end
    end.

Definition guard_C04 (o : opts04) (i : ir) : bool :=
  C04_domain i && match finding_class_C04 o i with None => true | Some _ => false end.

(* ================= wire ================= *)

(* FAMILY: run_c04 *)
Definition run_c04 (fn : sexp) (args : list sexp) : option sexp :=
  if is_sym "c04_class" fn then
    match args with
    | [edd; ww; wd; i] =>
      match dec_bool edd, dec_bool ww, dec_bool wd, dec_ir i with
      | Some edd, Some ww, Some wd, Some i =>
        Some (if negb (C04_domain i) then sym "out-of-domain"
              else enc_option (fun k => enc_str (c04_class_name k)) (finding_class_C04 (mkO04 edd ww wd) i))
      | _, _, _, _ => None
      end
    | _ => None
    end
  else if is_sym "same_interface_argparse" fn then
    match args with
    | [a; b] =>
      match dec_ir a, dec_ir b with
      | Some a, Some b => Some (enc_bool (same_interface_argparse a b))
      | _, _ => None
      end
    | _ => None
    end
  else if is_sym "argparse_expressible" fn then
    match args with
    | [n; t] =>
      match dec_str n, dec_str t with
      | Some n, Some t => Some (enc_bool (argparse_expressible n t))
      | _, _ => None
      end
    | _ => None
    end
  else None.
