(* C08Spec: property C08 (conversion is a normalisation that stabilises after one pass).
   For a kind k and emitter options o:  t1 = emit_k o ir;  t2 = emit_k o (parse_k t1);  t3 = emit_k o (parse_k t2);
   the property asks t2 = t3 byte for byte, and that nothing raises once t1 was produced.
   - [finding_class_C08 k i]: the named reasons an IR falls outside the region on which the real code reaches the
     fixed point for EVERY emitter option combination of kind k (obtained from stratified sweeps of the real
     emitters + parsers; checked on every run by harness/prop_C08.py: a failure whose class is None is a violation);
   - the three emissions of the ReST docstring kind over the models DocParse.rest_text_of / parse_dot_docstring,
     as a Prop and as an executable boolean.
   Definitions only. *)
From Coq Require Import List Ascii Bool Arith ZArith.
From Coq Require String.
Import String.StringSyntax.
From DT Require Import PyStr Sexp PyVal TyExpr PureUtils Defaults PyAst IR Extracted C17Spec DocParse C01Spec C05Spec.
Import ListNotations.

(* ------------------------------------------------------------------ the classifier *)

(* the chain-independent reasons, over all parameters in order *)
Fixpoint params_hard (ps : list (str * gparam)) : option c05_class :=
  match ps with
  | [] => None
  | (n, g) :: r => or_else (entry_hard true n g) (params_hard r)
  end.

(* numpydoc / google: a parameter without default after one with a default acquires the zero value of its
   type; for str that is the empty string, whose sentence ends in a blank that the next pass strips *)
Fixpoint default_then_none (seen : bool) (ps : list (str * gparam)) : bool :=
  match ps with
  | [] => false
  | (_, g) :: r => (seen && negb (has_default g)) || default_then_none (seen || has_default g) r
  end.

(* class kind: the str None as default under a scalar type is written as the sentence "Defaults to None", read back as
   the value None, replaced by the zero value, and (for str) written again as a sentence that ends in a blank *)
Definition str_none_under_scalar (g : gparam) : bool :=
  match g_default g, fld_str (g_typ g) with
  | Some (DV (VStr s)), Some t => str_eqb s (L "None") && is_scalar_shape (type_shape t)
  | _, _ => false
  end.

(* The classes are those of C05 that do not depend on the chain, plus default-then-no-default for numpydoc and
   google and the str None under a scalar type for the class kind.  Normalisations that C05 counts as losses (a default acquired, a full stop added, None turned into a
   zero value) are not reasons here: they happen once. *)
Definition finding_class_C08 (k : kind) (i : ir) : option c05_class :=
  or_else (summary_class i)
    (or_else (return_class [k] i)
       (or_else (params_hard (ir_params i))
          (if is_ng_kind k && default_then_none false (ir_params i) then Some K05_default_then_none
           else if is_class_kind k && existsb (fun kv => str_none_under_scalar (snd kv)) (ir_params i)
                then Some K05_none_scalar
                else None))).

Definition guard_C08 (k : kind) (i : ir) : bool :=
  c05_domain i && match finding_class_C08 k i with None => true | Some _ => false end.

(* ------------------------------------------------------------------ the ReST kind over the models *)

Definition emit_rest (i : ir) : outcome str := rest_text_of i.
Definition parse_rest (text : str) : outcome ir := parse_dot_docstring ng_unmodelled text false true false.

(* the three emissions exist and the second and third are the same text *)
Definition C08_rest_at (i : ir) : Prop :=
  exists t1 i1 t2 i2 t3,
    emit_rest i = Ok t1 /\ parse_rest t1 = Ok i1 /\ emit_rest i1 = Ok t2
    /\ parse_rest t2 = Ok i2 /\ emit_rest i2 = Ok t3 /\ t2 = t3.

Definition C08_rest_at_b (i : ir) : bool :=
  match emit_rest i with
  | Ok t1 =>
    match parse_rest t1 with
    | Ok i1 =>
      match emit_rest i1 with
      | Ok t2 =>
        match parse_rest t2 with
        | Ok i2 => match emit_rest i2 with Ok t3 => str_eqb t2 t3 | Err _ => false end
        | Err _ => false
        end
      | Err _ => false
      end
    | Err _ => false
    end
  | Err _ => false
  end.

(* evaluating the three emissions leaves the modelled fragment, or the first emission does not exist
   (then the property says nothing) *)
Definition c08_rest_status (i : ir) : sexp :=
  match emit_rest i with
  | Err Unmodelled => sym "unmodelled"
  | Err _ => sym "no-first-emission"
  | Ok t1 =>
    match parse_rest t1 with
    | Err Unmodelled => sym "unmodelled"
    | Err _ => sym "false"
    | Ok i1 =>
      match emit_rest i1 with
      | Err Unmodelled => sym "unmodelled"
      | Err _ => sym "false"
      | Ok t2 =>
        match parse_rest t2 with
        | Err Unmodelled => sym "unmodelled"
        | Err _ => sym "false"
        | Ok i2 =>
          match emit_rest i2 with
          | Err Unmodelled => sym "unmodelled"
          | Err _ => sym "false"
          | Ok t3 => enc_bool (str_eqb t2 t3)
          end
        end
      end
    end
  end.

(* ------------------------------------------------------------------ wire *)

(* FAMILY: run_c08 *)
Definition run_c08 (fn : sexp) (args : list sexp) : option sexp :=
  if is_sym "c08_class" fn then
    match args with
    | [k; i] =>
      match dec_kind k, dec_ir i with
      | Some k, Some i =>
        Some (if negb (c05_domain i) then sym "out-of-domain"
              else enc_option (fun c => enc_str (c05_class_name c)) (finding_class_C08 k i))
      | _, _ => None
      end
    | _ => None
    end
  else if is_sym "c08_holds_rest" fn then
    match args with
    | [i] => match dec_ir i with Some i => Some (c08_rest_status i) | None => None end
    | _ => None
    end
  else None.
