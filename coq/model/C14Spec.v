(* C14Spec: property C14 (sync_properties changes exactly the addressed property) over SyncProps.v:
   the statement, its executable form, the domain, the guard of the proved region and the finding classes.
   Definitions only. *)
From Coq Require Import List Ascii Bool Arith ZArith.
From Coq Require String.
Import String.StringSyntax.
From DT Require Import PyStr Sexp PyVal PureUtils PyAst Locate SyncProps C15Spec.
Import ListNotations.

Record c14_input : Type := mkC14 {
  ci_env : sp_env;
  ci_eval : bool;
  ci_in : module;
  ci_ips : list str;
  ci_out : module;
  ci_ops : list str;
  ci_wrap : option str;
  ci_evs : list evald
}.

Definition run_C14 (x : c14_input) : list event * outcome unit :=
  sync_properties (ci_env x) (ci_eval x) (ci_in x) (ci_ips x) (ci_out x) (ci_ops x) (ci_wrap x) (ci_evs x).

Definition dotted (s : str) : list str := strip_split [ch 46] s.

(* ------------------------------------------------------------------ masking addressed positions of a PyAst module *)
Definition mask_marker : stmt := SOther (L "MASK") [] [].
Definition mask_arg : arg := mkArg (L "MASK") None.
Definition mask_expr : expr := EOpaque (L "MASK").

Definition in_paths (p : path) (ps : list path) : bool := existsb (path_eqb p) ps.

Fixpoint mask_args (ps : list path) (p : path) (k : nat) (l : list arg) : list arg :=
  match l with
  | [] => []
  | a :: r => (if in_paths (p ++ [k]) ps then mask_arg else a) :: mask_args ps p (S k) r
  end.

(* the default that belongs to positional argument k of n, with d defaults: slot k - (n - d) *)
Fixpoint mask_defaults (ps : list path) (p : path) (k : nat) (l : list expr) : list expr :=
  match l with
  | [] => []
  | e :: r => (if in_paths (p ++ [k]) ps then mask_expr else e) :: mask_defaults ps p (S k) r
  end.

Fixpoint mask_kw_defaults (ps : list path) (p : path) (k : nat) (l : list (option expr)) : list (option expr) :=
  match l with
  | [] => []
  | e :: r => (if in_paths (p ++ [k]) ps then None else e) :: mask_kw_defaults ps p (S k) r
  end.

Definition mask_arguments (ps : list path) (p : path) (a : arguments) : arguments :=
  let n := List.length (ar_args a) in
  let d := List.length (ar_defaults a) in
  mkArguments (mask_args ps (p ++ [0]) 0 (ar_args a))
              (mask_defaults ps (p ++ [0]) (n - d) (ar_defaults a))
              (mask_args ps (p ++ [1]) 0 (ar_kwonly a))
              (mask_kw_defaults ps (p ++ [1]) 0 (ar_kw_defaults a))
              (ar_vararg a) (ar_kwarg a).

(* positions use the scheme of Locate.annotate_stmt; only Module/ClassDef members and function arguments are
   addressable, so function bodies and the blocks of other statements are left alone *)
Fixpoint mask_stmt (ps : list path) (p : path) (s : stmt) : stmt :=
  if in_paths p ps then mask_marker
  else
    match s with
    | SFunc n a b d r => SFunc n (mask_arguments ps p a) b d r
    | SClass n bs b d =>
      SClass n bs ((fix go (j : nat) (l : list stmt) : list stmt :=
                      match l with [] => [] | x :: r => mask_stmt ps (p ++ [j]) x :: go (S j) r end) 0 b) d
    | _ => s
    end.

Fixpoint mask_body (ps : list path) (p : path) (j : nat) (l : list stmt) : list stmt :=
  match l with
  | [] => []
  | x :: r => mask_stmt ps (p ++ [j]) x :: mask_body ps p (S j) r
  end.

Definition mask_module (ps : list path) (m : module) : module := mask_body ps [] 0 m.

(* ------------------------------------------------------------------ the property on one call *)
Definition all_some {A} (l : list (option A)) : bool := forallb (fun o => match o with Some _ => true | None => false end) l.

Definition out_positions (x : c14_input) : list (option path) :=
  map (fun op => option_map fst (resolve (dotted op) (ci_out x))) (ci_ops x).

Definition in_nodes (x : c14_input) : list (option (path * pnode)) :=
  map (fun ip => resolve (dotted ip) (ci_in x)) (ci_ips x).

Definition addresses_resolve (x : c14_input) : bool :=
  all_some (out_positions x) && (ci_eval x || all_some (in_nodes x)).

Fixpoint somes {A} (l : list (option A)) : list A :=
  match l with [] => [] | Some a :: r => a :: somes r | None :: r => somes r end.

(* the tree written to the output file, as a PyAst module, when exactly one write of the output happened *)
Definition written_tree (r : list event * outcome unit) : option module :=
  match r with
  | ([EvWrite FOutput t], Ok _) => Some (erase t)
  | _ => None
  end.

(* the node at a tree position of a PyAst module (members of Module/ClassDef, arguments of a FunctionDef) *)
Fixpoint stmt_at (p : path) (s : stmt) : option pnode :=
  match p with
  | [] => Some (PStmt s)
  | k :: rest =>
    match s with
    | SClass _ _ body _ => match nth_error body k with Some c => stmt_at rest c | None => None end
    | SFunc _ a _ _ _ =>
      match rest with
      | [j] => if Nat.eqb k 0 then option_map PArg (nth_error (ar_args a) j)
               else if Nat.eqb k 1 then option_map PArg (nth_error (ar_kwonly a) j)
               else None
      | _ => None
      end
    | _ => None
    end
  end.

Definition module_at (p : path) (m : module) : option pnode :=
  match p with
  | k :: rest => match nth_error m k with Some c => stmt_at rest c | None => None end
  | [] => None
  end.

Definition pnode_eqb (a b : pnode) : bool :=
  match a, b with
  | PMod x, PMod y => list_eqb stmt_eqb x y
  | PStmt x, PStmt y => stmt_eqb x y
  | PArg x, PArg y => arg_eqb x y
  | _, _ => false
  end.

(* the annotation the new node must carry: the input node's, through the template when one is given *)
Definition expected_ann (x : c14_input) (ann : option expr) : outcome (option expr) :=
  match ci_wrap x, ann with
  | Some w, Some e => do e' <- wrap_annotation (ci_env x) w e; Ok (Some e')
  | _, _ => Ok ann
  end.

(* what must sit at the addressed position afterwards, given the input node and the kind of the addressed node;
   None = this combination is not judged (an argument where a statement belongs, a plain Assign turned argument) *)
Definition expected_node (x : c14_input) (src dst : pnode) : option (outcome pnode) :=
  match src, dst with
  | PArg a, PArg _ =>
    Some (do ann <- expected_ann x (a_ann a); Ok (PArg (mkArg (a_name a) ann)))
  | PStmt (SAnnAssign (EName n) ann v), PArg _ =>
    Some (do ann' <- expected_ann x (Some ann); Ok (PArg (mkArg n ann')))
  | PStmt (SAnnAssign t ann v), PStmt _ =>
    Some (do ann' <- expected_ann x (Some ann);
          Ok (PStmt (SAnnAssign t (match ann' with Some e => e | None => ann end) v)))
  | PStmt (SAssign ts v), PStmt _ =>
    match ci_wrap x with Some _ => None | None => Some (Ok (PStmt (SAssign ts v))) end
  | _, _ => None
  end.

Fixpoint new_nodes_ok (x : c14_input) (t : module) (ips ops : list str) : bool :=
  match ips, ops with
  | ip :: ips', op :: ops' =>
    (match resolve (dotted ip) (ci_in x), resolve (dotted op) (ci_out x) with
     | Some (_, src), Some (p, dst) =>
       match expected_node x src dst with
       | Some (Ok want) => match module_at p t with Some got => pnode_eqb got want | None => false end
       | Some (Err _) => false
       | None => true
       end
     | _, _ => true
     end) && new_nodes_ok x t ips' ops'
  | _, _ => true
  end.

(* C14 on the model: every address resolves -> one write of the output file (none of the input file) whose
   tree equals the original output tree at every position other than the addressed ones, and carries at every
   addressed position the node addressed in the input (annotation through the template);
   some address does not resolve -> an error and no write at all *)
Definition C14_at_b (x : c14_input) : bool :=
  let r := run_C14 x in
  if addresses_resolve x then
    match written_tree r with
    | Some t =>
      let ps := somes (out_positions x) in
      list_eqb stmt_eqb (mask_module ps t) (mask_module ps (ci_out x))
      && (ci_eval x || new_nodes_ok x t (ci_ips x) (ci_ops x))
    | None => false
    end
  else
    match r with
    | ([], Err _) => true
    | _ => false
    end.

Definition C14_at (x : c14_input) : Prop := C14_at_b x = true.

(* ------------------------------------------------------------------ domain *)
Definition is_ok {A} (o : outcome A) : bool := match o with Ok _ => true | Err _ => false end.

Definition leaf_pnode (n : pnode) : bool :=
  match n with
  | PArg _ => true
  | PStmt (SAnnAssign _ _ _) => true
  | PStmt (SAssign _ _) => true
  | _ => false
  end.

Definition evald_ok (e : evald) : bool :=
  match e with
  | EvSeq (_ :: _) => true
  | EvStr (_ :: _) => true
  | _ => false
  end.

(* the quantifier of the property: parsable modules of the supported fragment, 1..n pairs, addresses that (when they
   resolve) name module-level assignments, class attributes or function arguments, a well-formed template whose
   expansions parse, evaluated values that are non-empty sequences *)
Definition C14_domain (x : c14_input) : bool :=
  supported (ci_in x) && supported (ci_out x)
  && Nat.eqb (List.length (ci_ips x)) (List.length (ci_ops x))
  && negb (Nat.eqb (List.length (ci_ips x)) 0)
  && forallb (fun o => match o with Some (_, n) => leaf_pnode n | None => true end) (in_nodes x)
  && forallb (fun op => match resolve (dotted op) (ci_out x) with Some (_, n) => leaf_pnode n | None => true end) (ci_ops x)
  && match ci_wrap x with
     | Some w => is_ok (format_wrap w (L "x")) && forallb (fun p => is_ok (snd p)) (sp_parse (ci_env x))
     | None => true
     end
  && (negb (ci_eval x)
      || (forallb evald_ok (firstn (List.length (ci_ips x)) (ci_evs x))
          && Nat.leb (List.length (ci_ips x)) (List.length (ci_evs x))
          && forallb (fun ip => Nat.eqb (count [ch 46] ip) 0) (ci_ips x))).

Definition C14_statement : Prop := forall x, C14_domain x = true -> C14_at x.

(* ------------------------------------------------------------------ finding classes *)
Inductive c14_class : Type :=
| K14_eval_mode               (* --input-eval: the built AnnAssign is named like the addressed argument, so the raw str NoneStr is
                                 stored in that argument's front-indexed default slot (AttributeError in to_code) or, on a class
                                 attribute / assignment, the value is dropped *)
| K14_input_lookup            (* the input address is one that find_in_ast does not resolve correctly (C15 classes) *)
| K14_output_location         (* the output address is one that RewriteAtQuery does not hit correctly (C15 rewrite classes) *)
| K14_arg_into_statement      (* a function argument is put where a statement belongs: ast.unparse glues it to its neighbour *)
| K14_statement_into_argument (* an assignment is converted to an argument: defaults are indexed from the front, an Assign's value
                                 becomes the annotation, an AnnAssign without value stores a raw str *)
| K14_wrap_without_annotation (* a template is given but the input node is a plain Assign: NotImplementedError *)
| K14_parent_function         (* a FunctionDef whose _location is the address minus its last segment is visited before the
                                 addressed statement: the replacement is converted to an ast.arg on the way *)
| K14_multi_pair.             (* several pairs: later pairs work on the already rewritten, not re-annotated tree and on
                                 input nodes shared with it *)

Definition class_name_C14 (k : c14_class) : str :=
  match k with
  | K14_eval_mode => L "eval-mode-replacement"
  | K14_input_lookup => L "input-address-misresolved"
  | K14_output_location => L "output-address-not-hit"
  | K14_arg_into_statement => L "argument-into-statement-position"
  | K14_statement_into_argument => L "statement-converted-to-argument"
  | K14_wrap_without_annotation => L "template-on-plain-assignment"
  | K14_parent_function => L "parent-function-converts-replacement"
  | K14_multi_pair => L "several-pairs-on-unreannotated-tree"
  end.

Definition is_parg (n : pnode) : bool := match n with PArg _ => true | _ => false end.

Definition pair_class (x : c14_input) (ip op : str) : option c14_class :=
  let im := ci_in x in
  let om := ci_out x in
  let qi := dotted ip in
  let qo := dotted op in
  match (if ci_eval x then None else finding_class_C15 im qi) with
  | Some _ => Some K14_input_lookup
  | None =>
    match rw_finding_class_at [0] om qo with
    | Some _ => Some K14_output_location
    | None =>
      match (if ci_eval x then None else resolve_at [1] qi im), resolve_at [0] qo om with
      | Some (_, src), Some (_, dst) =>
        if is_parg src && negb (is_parg dst) then Some K14_arg_into_statement
        else if negb (is_parg src) && is_parg dst then Some K14_statement_into_argument
        else if (match ci_wrap x, src with Some _, PStmt (SAssign _ _) => true | _, _ => false end)
             then Some K14_wrap_without_annotation
        else if negb (is_parg dst) && existsb (stmt_exists (is_parent_func qo)) (annotate_at [0] om)
             then Some K14_parent_function
        else None
      | _, Some (_, dst) =>
        if ci_eval x && negb (is_parg dst) && existsb (stmt_exists (is_parent_func qo)) (annotate_at [0] om)
        then Some K14_parent_function else None
      | _, None => None
      end
    end
  end.

Fixpoint first_pair_class (x : c14_input) (ips ops : list str) : option c14_class :=
  match ips, ops with
  | ip :: ips', op :: ops' =>
    match pair_class x ip op with
    | Some k => Some k
    | None => first_pair_class x ips' ops'
    end
  | _, _ => None
  end.

Definition finding_class_C14 (x : c14_input) : option c14_class :=
  if ci_eval x then Some K14_eval_mode
  else
    match first_pair_class x (ci_ips x) (ci_ops x) with
    | Some k => Some k
    | None => if Nat.ltb 1 (List.length (ci_ips x)) then Some K14_multi_pair else None
    end.

Definition guard_C14 (x : c14_input) : bool :=
  C14_domain x && match finding_class_C14 x with None => true | Some _ => false end.

(* ------------------------------------------------------------------ what is proved *)
(* the tree a pair's RewriteAtQuery runs on: the current output tree, possibly with defaults attached by
   find_in_ast and one annotation reassigned by the wrap step - both only on nodes shared with the input tree *)
Definition is_mid (o o_mid : amodule) : Prop :=
  exists t0, (t0 = o \/ exists log, t0 = apply_dlog log o)
             /\ (o_mid = t0 \/ exists i e, o_mid = set_ann_by_id i e t0).

(* one (input, output) pair applied: the input address was found, and the output tree changed by exactly one
   first-match replacement at its output address *)
Inductive pair_step (env : sp_env) (ev : bool) (w : option str) (last : bool)
  : (str * str * evald) -> amodule -> amodule -> amodule -> amodule -> Prop :=
| ps_intro : forall ip op e i o o1 i1 o_mid repl st p,
    sync_property env ev ip i e op w o last = Ok (o1, i1) ->
    (ev = false -> exists n log, find_in_ast_log (dotted ip) i = Ok (Some n, log)) ->
    is_mid o o_mid ->
    rewrite_visit (dotted op) repl o_mid = Ok (NMod o1, st) -> rw_replaced st = true ->
    first_hit_list (dotted op) o_mid = Some p ->
    replaced_first (dotted op) (rw_node st) p o_mid o1 ->
    pair_step env ev w last (ip, op, e) i o o1 i1.

Inductive pair_steps (env : sp_env) (ev : bool) (w : option str)
  : list (str * str * evald) -> amodule -> amodule -> amodule -> amodule -> Prop :=
| pss_nil : forall i o, pair_steps env ev w [] i o o i
| pss_cons : forall pr rest i o o1 i1 o' i',
    pair_step env ev w (is_empty rest) pr i o o1 i1 -> pair_steps env ev w rest i1 o1 o' i' ->
    pair_steps env ev w (pr :: rest) i o o' i'.

(* any number of pairs, no guard: whatever is written is written once, to the output file, after every pair was
   applied, each pair being one first-match replacement *)
Definition C14_frame (x : c14_input) : Prop :=
  forall f tree, In (EvWrite f tree) (fst (run_C14 x)) ->
    f = FOutput /\ run_C14 x = ([EvWrite FOutput tree], Ok tt)
    /\ exists i0 o0 i', ast_parse [1] (ci_in x) = Ok i0 /\ ast_parse [0] (ci_out x) = Ok o0
       /\ List.length (ci_ips x) = List.length (ci_ops x)
       /\ pair_steps (ci_env x) (ci_eval x) (ci_wrap x) (zip3 (ci_ips x) (ci_ops x) (ci_evs x)) i0 o0 tree i'.

(* inside the guard (one pair, addresses in the regions C15 covers): an address that does not resolve gives an
   error and no write; a write replaces exactly the node at the resolved position of the output address, and then
   the input address resolves too *)
Definition C14_holds (x : c14_input) : Prop :=
  match ci_ips x, ci_ops x with
  | [ip], [op] =>
    let im := ci_in x in
    let om := ci_out x in
    ((resolve_at [0] (dotted op) om = None \/ (ci_eval x = false /\ resolve_at [1] (dotted ip) im = None)) ->
     exists e, run_C14 x = ([], Err e))
    /\ (forall tree, fst (run_C14 x) = [EvWrite FOutput tree] ->
         exists p n o_mid st,
           resolve_at [0] (dotted op) om = Some (p, n)
           /\ is_mid (annotate_at [0] om) o_mid
           /\ replaced_first (dotted op) (rw_node st) p o_mid tree
           /\ (ci_eval x = false -> exists r, resolve_at [1] (dotted ip) im = Some r))
  | _, _ => True
  end.

(* does the run leave the modelled fragment (then the harness skips the point) *)
Definition c14_unmodelled (x : c14_input) : bool :=
  match snd (run_C14 x) with Err Unmodelled => true | _ => false end.

(* ------------------------------------------------------------------ wire *)
(* FAMILY: run_c14 *)
Definition run_c14 (fn : sexp) (args : list sexp) : option sexp :=
  match args with
  | [env; ev; im; ips; om; ops; w; evs] =>
    let? env := dec_env env in
    let? ev := dec_bool ev in
    let? im := dec_module im in
    let? ips := dec_list dec_str ips in
    let? om := dec_module om in
    let? ops := dec_list dec_str ops in
    let? w := dec_option dec_str w in
    let? evs := dec_list dec_evald evs in
    let x := mkC14 env ev im ips om ops w evs in
    if is_sym "c14_class" fn then
      Some (if negb (C14_domain x) then sym "out-of-domain"
            else enc_option (fun k => enc_str (class_name_C14 k)) (finding_class_C14 x))
    else if is_sym "c14_holds" fn then
      Some (if c14_unmodelled x then sym "unmodelled" else enc_bool (C14_at_b x))
    else None
  | _ => None
  end.
