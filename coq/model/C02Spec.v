(* C02Spec: what "the same interface description" means for the round trips C02-C04 (the comparison
   relations and the documented normalisation zero_default_norm), and the executable classifier of the
   finding classes of C02 (config-class round trip  emit.class_ -> ast.unparse -> ast.parse -> parse.class_)
   on the real code.  The classifier is a function of the INPUT description and the options only; it was
   obtained from stratified sweeps of the real emitter + parser and is checked on every run by
   fam_parseast.oracle_class (a failure whose class is None is a violation).
   Definitions only. *)
From Coq Require Import List Ascii Bool Arith ZArith.
From Coq Require String.
Import String.StringSyntax.
From DT Require Import PyStr Sexp PyVal TyExpr Extracted PureUtils Defaults PyAst IR ParseAst.
Import ListNotations.

(* ================= comparison relations ================= *)

(* None, "None" and NoneStr all stand for the Python value None in doctrans IRs *)
Definition d_none_like (d : dval) : bool :=
  match d with DV v => in_none_types v | _ => false end.

(* same value with the same Python type (pyval_eqb separates bool / int / float; floats by repr) *)
Definition same_default (a b : dval) : bool :=
  (d_none_like a && d_none_like b) || dval_eqb a b.

(* prose: absent, None and the empty string all mean no prose *)
Definition prose_of (g : gparam) : option str :=
  match g_doc g with Has (c :: r) => Some (c :: r) | _ => None end.

Definition opt_str_eqb (a b : option str) : bool :=
  match a, b with
  | None, None => true
  | Some x, Some y => str_eqb x y
  | _, _ => false
  end.

Definition same_prose (a b : gparam) : bool := opt_str_eqb (prose_of a) (prose_of b).
Definition same_typ (a b : gparam) : bool := opt_str_eqb (fget (g_typ a)) (fget (g_typ b)).

(* the zero value of a type, when it has one *)
Definition zero_of_typ (typ : option str) : option dval :=
  match typ with
  | Some t => option_map DV (simple_type_zero t)
  | None => None
  end.

(* the documented normalisation: a parameter without default acquires the zero value of its type, or None *)
Definition zero_default_norm_param (g : gparam) : gparam :=
  match g_default g with
  | Some _ => g
  | None => mkG (g_doc g) (g_typ g)
                (Some (match zero_of_typ (fget (g_typ g)) with Some z => z | None => DV (VStr NoneStr) end))
  end.

Definition zero_default_norm (i : ir) : ir :=
  mkIR (ir_name i) (ir_type i) (ir_doc i)
       (map (fun kv => (fst kv, zero_default_norm_param (snd kv))) (ir_params i))
       (match ir_returns i with Has r => Has (zero_default_norm_param r) | x => x end)
       (ir_internal i).

(* defaults, strictly: both absent, or both present and the same *)
Definition default_same (a b : gparam) : bool :=
  match g_default a, g_default b with
  | None, None => true
  | Some v, Some w => same_default v w
  | _, _ => false
  end.

(* defaults up to the permitted normalisation: an explicit default is preserved; an absent one may stay
   absent, become the zero value of the declared type, or become None *)
Definition default_ok (input output : gparam) : bool :=
  match g_default input with
  | Some v => match g_default output with Some w => same_default v w | None => false end
  | None =>
    match g_default output with
    | None => true
    | Some w => d_none_like w
                || match zero_of_typ (fget (g_typ input)) with Some z => dval_eqb z w | None => false end
    end
  end.

Definition same_param (input output : gparam) : bool :=
  same_typ input output && same_prose input output && default_ok input output.

Definition same_param_strict (a b : gparam) : bool :=
  same_typ a b && same_prose a b && default_same a b.

Fixpoint same_params (cmp : gparam -> gparam -> bool) (a b : list (str * gparam)) : bool :=
  match a, b with
  | [], [] => true
  | (n1, p1) :: a', (n2, p2) :: b' => str_eqb n1 n2 && cmp p1 p2 && same_params cmp a' b'
  | _, _ => false
  end.

Definition same_names (a b : list (str * gparam)) : bool :=
  list_eqb str_eqb (map fst a) (map fst b).

Definition same_returns (cmp : gparam -> gparam -> bool) (a b : fld gparam) : bool :=
  match fget a, fget b with
  | None, None => true
  | Some x, Some y => cmp x y
  | _, _ => false
  end.

(* names and order, types, prose, defaults (with Python type), return entry *)
Definition same_interface (input output : ir) : bool :=
  same_params same_param (ir_params input) (ir_params output)
  && same_returns same_param (ir_returns input) (ir_returns output).

Definition same_interface_strict (a b : ir) : bool :=
  same_params same_param_strict (ir_params a) (ir_params b)
  && same_returns same_param_strict (ir_returns a) (ir_returns b).

(* ================= options ================= *)

Record opts02 : Type := mkO02 { o2_emit_default_doc : bool; o2_word_wrap : bool }.

(* ================= shared syntactic tests on an input parameter ================= *)

Definition dv_of (d : dval) : option pyval := match d with DV v => Some v | _ => None end.

(* back-tick quoted code, other than the spelling of None *)
Definition d_code_quoted (d : dval) : bool :=
  match d with DV (VStr s) => code_quoted s && negb (str_eqb s NoneStr) | _ => false end.

(* the pre-3.9 spelling of the None marker: code that evaluates to None *)
Definition d_code_none (d : dval) : bool :=
  match d with DV (VStr s) => str_eqb s (L "```None```") | _ => false end.

Definition d_quoted_str (d : dval) : bool :=
  match d with
  | DV (VStr (c :: r)) =>
    match last_c r with
    | Some e => ascii_eqb c e && (ascii_eqb c sq || ascii_eqb c dq)
    | None => false
    end
  | _ => false
  end.

Definition prose_announces (doc : str) : bool :=
  existsb (fun a => contains (casefold a) (casefold doc)) default_announces.

Definition prose_has_token (doc : str) : bool :=
  existsb (fun t => contains t doc) Extracted.rest_tokens.

Definition prose_unclean (doc : str) : bool :=
  negb (str_eqb (strip doc) doc) || mem_c nl doc || mem_c tabch doc || contains (L "  ") doc.

(* the Python type of a scalar default agrees with the declared type: the type's name occurs in the type text
   (a str also agrees with a Literal); None and code expressions agree with every type *)
Definition default_consistent (d : dval) (t : str) : bool :=
  match d with
  | DV VNone => true
  | DV (VStr s) => in_none_types (VStr s) || code_quoted s || contains (L "str") t || contains (L "Literal") t
  | DV v => contains (type_name v) t
  | _ => true
  end.

Definition prose_starts_optional (doc : str) : bool :=
  startswith (L "(Optional)") doc || startswith (L "Optional") doc.

(* the type text survives ast.parse / ast.unparse unchanged *)
Definition typ_canonical (t : str) : bool :=
  match parse_ty t with
  | Some ty => str_eqb (show_ty ty) t
  | None => false
  end.

Definition is_scalar_typ (t : str) : bool := in_simple_types t.

Definition kwargs_name (n : str) : bool := endswith (L "kwargs") n || startswith (L "**") n.

(* identifier that can be an attribute / option name and is not reserved by the class layout *)
Definition ident_ok (n : str) : bool :=
  is_bare_word n && negb (str_eqb n return_type_key)
  && negb (str_eqb n (L "None")) && negb (str_eqb n (L "True")) && negb (str_eqb n (L "False")).

Fixpoint names_distinct (l : list str) : bool :=
  match l with
  | [] => true
  | x :: r => negb (existsb (str_eqb x) r) && names_distinct r
  end.

Definition fld_of_optstr (o : option str) : fld str := match o with Some t => Has t | None => Missing end.

(* with emit_default_doc the emitter appends the default sentence to the prose (set_default_doc) and the
   parser removes it again (extract_default, type not yet known): is the prose NOT restored? *)
Definition sentence_not_removed (name doc : str) (d : pyval) (typ : option str) : bool :=
  match set_default_doc name (mkParam (Has doc) (fld_of_optstr typ) (Some d)) true with
  | Ok p =>
    match p_doc p with
    | Has line =>
      if negb (str_eqb (rstrip line) line) then true      (* an empty / blank value text: the line is trimmed *)
      else
      match extract_default line true default_announces None false with
      | Ok (d2, _) => negb (str_eqb d2 doc)
      | Err _ => true
      end
    | _ => true
    end
  | Err _ => true
  end.

(* ================= finding classes of C02 ================= *)

Inductive c02_class : Type :=
| K2_unmodelled                 (* a default that is not a scalar (AST node / object) *)
| K2_prose_unclean              (* prose with leading / trailing blanks or a line break: re-flowed *)
| K2_prose_token                (* prose contains a ReST field token: the scanner splits it *)
| K2_prose_announces            (* prose itself contains an announcement phrase: read as a default *)
| K2_untyped                    (* no declared type: acquires the type of the default, or object *)
| K2_type_not_canonical         (* the type text is not what ast.unparse prints: re-spelled *)
| K2_kwargs_shape               (* a **kwargs-style name whose type is not Optional[dict] with a None default *)
| K2_none_under_scalar          (* explicit None under a scalar type becomes the zero value *)
| K2_code_default_drops_type    (* code-quoted default under a type without brackets: the type is deleted *)
| K2_code_none_rewritten        (* the default ```None``` comes back as the None marker *)
| K2_prose_starts_optional      (* prose starting with Optional: the type is wrapped in Optional[...] *)
| K2_str_default_quoted         (* a str default that starts and ends with a quote mark loses them *)
| K2_empty_str_default          (* the empty string under a type other than plain str comes back as None *)
| K2_nonstr_default_under_str_type (* int / float / bool default under a type that mentions str: the class emitter raises (quote) *)
| K2_default_type_mismatch      (* the default's Python type is not the declared one: coerced, or the emitter raises *)
| K2_sentence_not_removed       (* default text on: the sentence written into the prose is not taken back exactly (C17) *)
| K2_undocumented_reordered     (* a parameter without prose precedes one with prose: it moves behind *)
| K2_return_untyped             (* return entry without a type: acquires object *)
| K2_return_default_not_code.   (* return entry whose default is not a code expression *)

Definition c02_class_name (k : c02_class) : str :=
  match k with
  | K2_unmodelled => L "unmodelled"
  | K2_prose_unclean => L "prose-not-clean"
  | K2_prose_token => L "prose-contains-field-token"
  | K2_prose_announces => L "prose-announces-default"
  | K2_untyped => L "untyped-parameter"
  | K2_type_not_canonical => L "type-not-canonical"
  | K2_kwargs_shape => L "kwargs-shape"
  | K2_none_under_scalar => L "none-default-under-scalar-type"
  | K2_code_default_drops_type => L "code-default-drops-type"
  | K2_code_none_rewritten => L "code-none-default-rewritten"
  | K2_prose_starts_optional => L "prose-starts-with-optional"
  | K2_str_default_quoted => L "str-default-quoted"
  | K2_empty_str_default => L "empty-str-default-becomes-none"
  | K2_nonstr_default_under_str_type => L "non-str-default-under-str-type"
  | K2_default_type_mismatch => L "default-type-mismatch"
  | K2_sentence_not_removed => L "default-sentence-not-removed"
  | K2_undocumented_reordered => L "undocumented-parameter-reordered"
  | K2_return_untyped => L "return-untyped"
  | K2_return_default_not_code => L "return-default-not-code"
  end.

(* prose tests shared by parameters and the return entry *)
Definition prose_class (g : gparam) : option c02_class :=
  match prose_of g with
  | Some doc =>
    if prose_unclean doc then Some K2_prose_unclean
    else if prose_has_token doc then Some K2_prose_token
    else if prose_announces doc then Some K2_prose_announces
    else None
  | None => None
  end.

Definition sentence_class (o : opts02) (name : str) (g : gparam) : option c02_class :=
  if o2_emit_default_doc o then
    match prose_of g, g_default g with
    | Some doc, Some (DV v) =>
      if sentence_not_removed name doc v (fget (g_typ g)) then Some K2_sentence_not_removed else None
    | _, _ => None
    end
  else None.

Definition param_class_C02 (o : opts02) (name : str) (g : gparam) : option c02_class :=
  match g_default g with
  | Some (DE _) | Some (DO _) => Some K2_unmodelled
  | _ =>
    match prose_class g with
    | Some k => Some k
    | None =>
      let typ := fget (g_typ g) in
      let has_code := match g_default g with Some d => d_code_quoted d | None => false end in
      match typ with
      | None => if has_code then sentence_class o name g else Some K2_untyped
      | Some t =>
        if negb (typ_canonical t) then Some K2_type_not_canonical
        else if kwargs_name name
                && negb (str_eqb t (L "Optional[dict]")
                         && match g_default g with Some d => d_none_like d | None => false end)
        then Some K2_kwargs_shape
        else if is_scalar_typ t && match g_default g with Some d => d_none_like d | None => false end
        then Some K2_none_under_scalar
        else if has_code && negb (contains [ch 91] t) then Some K2_code_default_drops_type
        else if match g_default g with Some d => d_code_none d | None => false end
        then Some K2_code_none_rewritten
        else if match prose_of g with Some doc => prose_starts_optional doc | None => false end
                && negb (startswith (L "Optional[") t)
        then Some K2_prose_starts_optional
        else if match g_default g with Some d => d_quoted_str d | None => false end
        then Some K2_str_default_quoted
        else if match g_default g with Some (DV (VStr [])) => negb (str_eqb t (L "str")) | _ => false end
        then Some K2_empty_str_default
        else if match g_default g with
                | Some (DV (VInt _)) | Some (DV (VFloat _)) | Some (DV (VBool _)) =>
                  match needs_quoting (Some t) with Ok true => true | _ => false end
                | _ => false
                end
        then Some K2_nonstr_default_under_str_type
        else if match g_default g with Some d => negb (default_consistent d t) | None => false end
        then Some K2_default_type_mismatch
        else sentence_class o name g
      end
    end
  end.

Definition return_class_C02 (o : opts02) (g : gparam) : option c02_class :=
  match g_default g with
  | Some (DE _) | Some (DO _) => Some K2_unmodelled
  | _ =>
    match prose_class g with
    | Some k => Some k
    | None =>
      match fget (g_typ g) with
      | None => Some K2_return_untyped
      | Some t =>
        if negb (typ_canonical t) then Some K2_type_not_canonical
        else match g_default g with
             | Some d =>
               if d_code_none d then Some K2_code_none_rewritten
               else if negb (d_code_quoted d) then Some K2_return_default_not_code
               else sentence_class o return_type_key g
             | None => None
             end
      end
    end
  end.

Fixpoint first_class {A} (f : str -> gparam -> option A) (ps : list (str * gparam)) : option A :=
  match ps with
  | [] => None
  | (n, g) :: r => match f n g with Some k => Some k | None => first_class f r end
  end.

(* a parameter without prose is not listed in the docstring and is appended after the listed ones *)
Fixpoint undocumented_precedes (seen_noprose : bool) (ps : list (str * gparam)) : bool :=
  match ps with
  | [] => false
  | (_, g) :: r =>
    match prose_of g with
    | Some _ => seen_noprose || undocumented_precedes seen_noprose r
    | None => undocumented_precedes true r
    end
  end.

(* the supported domain: distinct identifier names, none of them reserved *)
Definition C02_domain (i : ir) : bool :=
  names_distinct (map fst (ir_params i))
  && forallb (fun n => ident_ok n || (kwargs_name n && ident_ok (lstrip_chars [ch 42] n) && negb (startswith [ch 42] n)))
             (map fst (ir_params i)).

Definition finding_class_C02 (o : opts02) (i : ir) : option c02_class :=
  if undocumented_precedes false (ir_params i) then Some K2_undocumented_reordered
  else
    match first_class (param_class_C02 o) (ir_params i) with
    | Some k => Some k
    | None =>
      match ir_returns i with
      | Has r => return_class_C02 o r
      | _ => None
      end
    end.

Definition guard_C02 (o : opts02) (i : ir) : bool :=
  C02_domain i && match finding_class_C02 o i with None => true | Some _ => false end.

(* ================= wire ================= *)

(* FAMILY: run_c02 *)
Definition run_c02 (fn : sexp) (args : list sexp) : option sexp :=
  if is_sym "c02_class" fn then
    match args with
    | [edd; ww; i] =>
      match dec_bool edd, dec_bool ww, dec_ir i with
      | Some edd, Some ww, Some i =>
        Some (if negb (C02_domain i) then sym "out-of-domain"
              else enc_option (fun k => enc_str (c02_class_name k)) (finding_class_C02 (mkO02 edd ww) i))
      | _, _, _ => None
      end
    | _ => None
    end
  else if is_sym "same_interface" fn then
    match args with
    | [a; b] =>
      match dec_ir a, dec_ir b with
      | Some a, Some b => Some (enc_bool (same_interface a b))
      | _, _ => None
      end
    | _ => None
    end
  else if is_sym "same_interface_norm_strict" fn then
    match args with
    | [a; b] =>
      match dec_ir a, dec_ir b with
      | Some a, Some b => Some (enc_bool (same_interface_strict (zero_default_norm a) b))
      | _, _ => None
      end
    | _ => None
    end
  else None.
