(* C18Spec: word-wrap / line-length transparency.  Statements over Fill.v and DocEmit.v, the guard of
   the proved region and the finding classes of its complement.  Definitions only (executable: the
   harness evaluates the classifier through the driver).

   pure_utils.fill is textwrap.fill with break_long_words=False and break_on_hyphens=False: it never cuts
   a word; a word longer than the width overflows, alone on its line.

   What is GUARD (needed by the theorems, checked by [finding_class_C18]):
     - no tab in any wrapped text (= the fragment on which Fill.fill answers: tab expansion is column
       dependent and outside the model);
     - lines whose wrapping is itself the defect fit in the width and are single lines (ReST :type/:rtype
       lines, every numpydoc parameter line, the :returns: line of the argparse docstring; for the last two
       a multi-line prose is already misread when NOT wrapped, and wrapping joins it);
     - the ":param name:" header fits in the width; no wrapped default sentence in the :returns: line or in the
       :param line of a parameter without a type (their prose is searched for the default before the wrapped
       lines are re-joined; typed parameters are re-joined first and are fine).
   The complement of the guard is the list of finding classes below. *)
From Coq Require Import List Ascii Bool Arith ZArith.
From Coq Require String.
Import String.StringSyntax.
From DT Require Import PyStr Sexp PyVal TyExpr Extracted PureUtils Defaults PyAst IR Fill DocEmit.
Import ListNotations.

(* ---- words: maximal runs of non-whitespace characters (whitespace = TextWrapper's set) ---- *)
Definition cons_word (c : ascii) (r : str) (ws : list str) : list str :=
  match r with
  | d :: _ => if tw_space d then [c] :: ws
              else match ws with w1 :: t => (c :: w1) :: t | [] => [[c]] end
  | [] => [c] :: ws
  end.

Fixpoint words (s : str) : list str :=
  match s with
  | [] => []
  | c :: r => if tw_space c then words r else cons_word c r (words r)
  end.

(* the two notions of whitespace in play agree on the text: str.strip()/str.split() use isspace
   (which also has \x1c-\x1f), TextWrapper uses tw_space *)
Definition no_exotic_space (s : str) : bool := forallb (fun c => Bool.eqb (isspace c) (tw_space c)) s.

(* ---- statements about Fill.fill ---- *)
Definition lines_le (w : nat) (r : str) : Prop := Forall (fun l => List.length l <= w) (split_nl r).

(* a line without any blank: a single word *)
Definition one_word (l : str) : bool := forallb (fun c => negb (tw_space c)) l.

(* every line fits, or is a single word that is longer than the width (break_long_words=False) *)
Definition lines_le_or_word (w : nat) (r : str) : Prop :=
  Forall (fun l => List.length l <= w \/ one_word l = true) (split_nl r).

(* no line ends with a blank, no line other than the first starts with one *)
Definition starts_with_space (l : str) : bool := match l with c :: _ => ascii_eqb c sp | [] => false end.
Definition ends_with_space (l : str) : bool := match last_c l with Some c => ascii_eqb c sp | None => false end.
Definition clean_edges (r : str) : Prop :=
  match split_nl r with
  | [] => True
  | l0 :: rest => ends_with_space l0 = false
                  /\ Forall (fun l => starts_with_space l = false /\ ends_with_space l = false) rest
  end.

(* the property of fill at one point of its fragment *)
Definition C18_fill_at (w : nat) (s r : str) : Prop :=
  lines_le_or_word w r /\ words r = words s /\ clean_edges r.

(* the fragment on which Fill.fill answers, as a boolean: positive width, no tab *)
Definition fill_guard (w : nat) (s : str) : bool := Nat.ltb 0 w && negb (mem_c tabch s).

(* a word: non-empty, no whitespace (hyphens, punctuation, anything else allowed) *)
Definition plain_word (u : str) : bool := nonempty u && forallb (fun c => negb (tw_space c)) u.

(* what docstring_parsers._set_name_and_type does to a prose block when word_wrap is on *)
Definition rejoin (t : str) : str := join [sp] (map strip (split_nl t)).

(* ReST prose: wrapped, indented as emit_param_str does, then re-joined by the parser: same words *)
Definition C18_rest_prose_at (w : nat) (line : str) : Prop :=
  forall r, fill w line = Ok r -> words (rejoin (indent_all_but_first r 1 false)) = words line.

(* ---- ReST :type lines: the reader takes the text between the back-tick fences verbatim ---- *)
Definition type_of_type_line (name line : str) : option str :=
  let pre := L ":" ++ rest_key_typ name ++ L ": ```" in
  if startswith pre line && endswith (L "```") line && Nat.leb (List.length pre + 3) (List.length line)
  then Some (slice line (List.length pre) (List.length line - 3))
  else None.

Definition C18_type_line_at (w : nat) (name typ : str) : Prop :=
  forall r, fill w (rest_typ_line name typ) = Ok r ->
            type_of_type_line name (indent_all_but_first r 1 false) = Some typ.

(* full strength on the modelled fragment: false (a type line longer than the width is wrapped and the
   newline + indent stay inside the type) *)
Definition C18_type_line_statement : Prop :=
  forall w name typ, 0 < w -> C18_type_line_at w name typ.

(* text that fill leaves alone when it fits: one line, blanks are plain spaces, does not end in a blank *)
Definition one_line_clean (s : str) : bool :=
  forallb (fun c => negb (tw_space c) || ascii_eqb c sp) s && negb (ends_with_space s)
  && negb (mem_c tabch s).

Definition fits (w : nat) (s : str) : bool := Nat.leb (List.length s) w.

(* ---- the emitters whose artefacts the property speaks about ---- *)
Inductive emitter : Type := E_docstring (st : style) | E_class | E_function | E_argparse.

Inductive c18_class : Type :=
| K18_unmodelled          (* a tab in wrapped text: expand_tabs is outside the model *)
| K18_header              (* ":param name:" does not fit: the break falls between ":param" and the name *)
| K18_type_line           (* a ReST :type/:rtype line is wrapped: newline + indent stay inside the type *)
| K18_numpydoc_cont       (* a numpydoc parameter line is wrapped: continuation lines are flush left *)
| K18_argparse_returns    (* the :returns: line of the argparse docstring is wrapped: only its first line is read *)
| K18_default_wrapped.    (* a default sentence is wrapped in the return entry or in a parameter without a :type line *)

Definition class_name18 (k : c18_class) : str :=
  match k with
  | K18_unmodelled => L "unmodelled"
  | K18_header => L "param-header-wrapped"
  | K18_type_line => L "wrapped-type-line"
  | K18_numpydoc_cont => L "numpydoc-continuation-lost"
  | K18_argparse_returns => L "argparse-returns-continuation-lost"
  | K18_default_wrapped => L "default-sentence-wrapped"
  end.

(* the strings an emitter passes through fill, by role *)
Record pieces : Type := mkPieces {
  pc_prose : list (bool * str);   (* wrapped prose lines (summary, :param lines, help texts); true = an entry whose
                                     default is searched before the wrapped lines are re-joined: the return entry,
                                     or a parameter without a :type line (its type is inferred from the default) *)
  pc_fragile : list str;    (* lines that must not wrap at all for the artefact to read back *)
  pc_headers : list str     (* ":param name:" / ":returns:" headers *)
}.

Definition entries (i : ir) : list (str * gparam) :=
  ir_params i ++ match ir_returns i with Has g => [(L "return_type", g)] | _ => [] end.

(* the prose of an entry as the emitter writes it (default sentence appended when emit_default_doc) *)
Definition entry_doc (emit_default_doc : bool) (name : str) (g : gparam) : option str :=
  match truthy_fld (g_doc g) with
  | None => None
  | Some d =>
    match param_of_gparam g with
    | Some p => match sdd_doc name p emit_default_doc with Ok dp => Some (fst dp) | Err _ => Some d end
    | None => Some d
    end
  end.

Definition summary_of (i : ir) : list (bool * str) := match ir_doc i with Has d => [(false, d)] | _ => [] end.

Definition opt_list {A} (o : option A) : list A := match o with Some a => [a] | None => [] end.

Definition fragile_default (ng : str * gparam) : bool :=
  is_return (fst ng) || match truthy_fld (g_typ (snd ng)) with Some _ => false | None => true end.

Definition pieces_of (e : emitter) (i : ir) : pieces :=
  match e with
  | E_docstring Rest =>
    mkPieces (summary_of i ++ flat_map (fun ng => opt_list (option_map (fun d => (fragile_default ng, rest_doc_line (fst ng) d))
                                                                       (entry_doc true (fst ng) (snd ng)))) (entries i))
             (flat_map (fun ng => opt_list (option_map (rest_typ_line (fst ng)) (truthy_fld (g_typ (snd ng)))))
                       (entries i))
             (map (fun ng => L ":" ++ rest_key (fst ng) ++ L ":") (entries i))
  | E_docstring Numpydoc =>
    mkPieces (summary_of i)
             (flat_map (fun ng =>
                          opt_list (option_map (fun t => if is_return (fst ng) then t else fst ng ++ L " : " ++ t)
                                               (truthy_fld (g_typ (snd ng))))
                          ++ opt_list (option_map (indent tab) (entry_doc true (fst ng) (snd ng))))
                       (entries i))
             []
  | E_docstring Google => mkPieces (summary_of i) [] []
  | E_class | E_function =>
    mkPieces (summary_of i ++ flat_map (fun ng => opt_list (option_map (fun d => (fragile_default ng, rest_doc_line (fst ng) d))
                                                                       (entry_doc false (fst ng) (snd ng)))) (entries i))
             []
             (map (fun ng => L ":" ++ rest_key (fst ng) ++ L ":") (entries i))
  | E_argparse =>
    mkPieces (flat_map (fun ng => opt_list (option_map (pair false) (entry_doc false (fst ng) (snd ng)))) (ir_params i))
             (match ir_returns i with
              | Has g => opt_list (option_map (fun d => L ":returns: argument_parser, " ++ d) (truthy_fld (g_doc g)))
              | _ => []
              end)
             []
  end.

(* one logical line: embedded newlines are blanks to fill *)
Definition flat_len (s : str) : nat := List.length s.

(* a default sentence in the line of a fragile entry (typed parameters are re-joined before the search) *)
Definition default_sentence_fragile (fragile : bool) (line : str) : bool :=
  fragile && match location_within casefold line default_announces with Some _ => true | None => false end.

Definition finding_class_C18 (w : nat) (e : emitter) (i : ir) : option c18_class :=
  let pc := pieces_of e i in
  let all := map snd (pc_prose pc) ++ pc_fragile pc in
  if existsb (mem_c tabch) all then Some K18_unmodelled
  else if existsb (fun h => Nat.ltb w (List.length h)) (pc_headers pc) then Some K18_header
  else if existsb (fun l => Nat.ltb w (flat_len l) || mem_c nl l) (pc_fragile pc) then
    Some (match e with
          | E_docstring Numpydoc => K18_numpydoc_cont
          | E_argparse => K18_argparse_returns
          | _ => K18_type_line
          end)
  else if existsb (fun bl => Nat.ltb w (flat_len (snd bl)) && default_sentence_fragile (fst bl) (snd bl)) (pc_prose pc)
  then Some K18_default_wrapped
  else None.

Definition guard_C18 (w : nat) (e : emitter) (i : ir) : bool :=
  Nat.ltb 0 w && match finding_class_C18 w e i with None => true | Some _ => false end.

(* ---- "nothing needs wrapping": every string handed to fill is a clean single line that fits ---- *)
Definition nowrap_line (w : nat) (s : str) : bool := one_line_clean s && fits w s.


(* ---- the strings emit_param_str passes through fill for one entry, in the order it fills them ---- *)
Definition filled_lines (st : style) (name : str) (p : param) (edd : bool) : outcome (list str) :=
  match st with
  | Rest => do lp <- rest_raw_lines name p true true edd; Ok (fst lp)
  | Numpydoc =>
    let l1 := match truthy_fld (p_typ p) with
              | Some t => [if is_return name then t else name ++ L " : " ++ t]
              | None => []
              end in
    do l2 <- (match truthy_fld (p_doc p) with
              | Some _ => do dp <- sdd_doc name p edd; Ok [indent tab (fst dp)]
              | None => Ok []
              end);
    Ok (l1 ++ l2)
  | Google => Ok []
  end.

Definition nowrap_entry (w : nat) (st : style) (edd : bool) (np : str * param) : bool :=
  match filled_lines st (fst np) (snd np) edd with
  | Ok ls => forallb (nowrap_line w) ls
  | Err _ => false
  end.

(* the region in which wrapping has nothing to do: the summary and every line of every entry is a clean
   single line that fits.  There emit.docstring(word_wrap=True) = emit.docstring(word_wrap=False) byte for
   byte (C18_nowrap), so every reader of the text sees the same interface. *)
Definition guard_nowrap (w : nat) (st : style) (edd : bool) (i : ir) : bool :=
  Nat.ltb 0 w
  && match ir_doc i with Has d => nowrap_line w d | _ => false end
  && match params_of (ir_params i) with Some ps => forallb (nowrap_entry w st edd) ps | None => false end
  && match ir_returns i with
     | Has g => match param_of_gparam g with
                | Some p => nowrap_entry w st edd (L "return_type", p)
                | None => false
                end
     | _ => true
     end.

(* the strings of an entry have no blank other than those TextWrapper knows (needed where str.lstrip is applied
   to wrapped text, i.e. in the ReST branch) *)
Definition plain_entry (st : style) (edd : bool) (np : str * param) : bool :=
  match st with
  | Rest => match filled_lines Rest (fst np) (snd np) edd with
            | Ok ls => forallb no_exotic_space ls
            | Err _ => true
            end
  | _ => true
  end.

Definition ir_plain (st : style) (edd : bool) (i : ir) : bool :=
  match params_of (ir_params i) with Some ps => forallb (plain_entry st edd) ps | None => true end
  && match ir_returns i with
     | Has g => match param_of_gparam g with
                | Some p => plain_entry st edd (L "return_type", p)
                | None => true
                end
     | _ => true
     end.

(* ---- wire ---- *)
Definition dec_emitter (e : sexp) : option emitter :=
  if is_sym "docstring-rest" e then Some (E_docstring Rest)
  else if is_sym "docstring-numpydoc" e then Some (E_docstring Numpydoc)
  else if is_sym "docstring-google" e then Some (E_docstring Google)
  else if is_sym "class" e then Some E_class
  else if is_sym "function" e then Some E_function
  else if is_sym "argparse" e then Some E_argparse
  else None.

(* FAMILY: run_c18 *)
Definition run_c18 (fn : sexp) (args : list sexp) : option sexp :=
  if is_sym "c18_class" fn then
    match args with
    | [w; e; i] =>
      match dec_nat w, dec_emitter e, dec_ir i with
      | Some w, Some e, Some i =>
        Some (enc_option (fun k => enc_str (class_name18 k)) (finding_class_C18 w e i))
      | _, _, _ => None
      end
    | _ => None
    end
  else if is_sym "c18_words" fn then
    match args with
    | [s] => option_map (fun s => enc_list enc_str (words s)) (dec_str s)
    | _ => None
    end
  else if is_sym "c18_rejoin" fn then
    match args with
    | [s] => option_map (fun s => enc_str (rejoin s)) (dec_str s)
    | _ => None
    end
  else None.
