(* C04Spec2: the C04 classifier refined by a failure of the real argparse round trip that finding_class_C04
   (model/C04Spec.v) leaves unnamed (definitions only).  Found by a proof (C05_region_hole_quoted_summary in
   props/C05Ext.v), inside guard_C04, recorded as a finding rather than repaired.

   ast_utils.set_value removes one pair of outer quote marks from every str it turns into a Constant (more than two
   characters, first and last character the same quote mark).  emit.argparse_function hands it the description
   (`argument_parser.description = ...`) and param2argparse_param the help text (`help=...`):

   summary-quoted   the description starts and ends with the same quote mark: it comes back without them
                    ('quoted' with its quote marks comes back as the bare word; 'a' and 'b' loses the outer pair);
   help-quoted      the same for the prose of a parameter (the help text).

   The refined classifier keeps every old class and only adds the new ones where the old classifier is silent. *)
From Coq Require Import List Ascii Bool Arith ZArith.
From Coq Require String.
Import String.StringSyntax.
From DT Require Import PyStr Sexp PyVal TyExpr Extracted PureUtils Defaults PyAst IR ParseAst C02Spec C04Spec.
From DT Require EmitAst.
Import ListNotations.

Inductive c04_class_r : Type :=
| K4r_old (k : c04_class)
| K4r_summary_quoted
| K4r_help_quoted.

Definition c04_class_r_name (k : c04_class_r) : str :=
  match k with
  | K4r_old k0 => c04_class_name k0
  | K4r_summary_quoted => L "summary-quoted"
  | K4r_help_quoted => L "help-quoted"
  end.

(* set_value does not hand the text back as it is *)
Definition loses_quotes (s : str) : bool := negb (str_eqb (EmitAst.set_value_str s) s).

Definition summary_quoted (i : ir) : bool :=
  match ir_doc i with Has d => loses_quotes d | _ => false end.

Definition help_quoted (g : gparam) : bool :=
  match prose_of g with Some d => loses_quotes d | None => false end.

(* every new class that applies (the failures of a point may be of several of them at once) *)
Definition new_classes_C04 (i : ir) : list c04_class_r :=
  (if summary_quoted i then [K4r_summary_quoted] else [])
  ++ (if existsb (fun kv => help_quoted (snd kv)) (ir_params i) then [K4r_help_quoted] else []).

Definition new_class_C04 (i : ir) : option c04_class_r := hd_error (new_classes_C04 i).

Definition finding_class_C04_r (o : opts04) (i : ir) : option c04_class_r :=
  match finding_class_C04 o i with
  | Some k => Some (K4r_old k)
  | None => new_class_C04 i
  end.

Definition guard_C04_r (o : opts04) (i : ir) : bool :=
  C04_domain i && match finding_class_C04_r o i with None => true | Some _ => false end.

(* FAMILY: run_c04r *)
Definition run_c04r (fn : sexp) (args : list sexp) : option sexp :=
  if is_sym "c04_class_r" fn then
    match args with
    | [edd; ww; wd; i] =>
      match dec_bool edd, dec_bool ww, dec_bool wd, dec_ir i with
      | Some edd, Some ww, Some wd, Some i =>
        Some (if negb (C04_domain i) then sym "out-of-domain"
              else enc_option (fun k => enc_str (c04_class_r_name k)) (finding_class_C04_r (mkO04 edd ww wd) i))
      | _, _, _, _ => None
      end
    | _ => None
    end
  else if is_sym "c04_new_classes" fn then
    (* (the new classes that apply, all of them - empty when an old class names the point -, the parameters whose help
       text is quoted): the oracle attributes a failure to a new class only at the description / at these entries *)
    match args with
    | [edd; ww; wd; i] =>
      match dec_bool edd, dec_bool ww, dec_bool wd, dec_ir i with
      | Some edd, Some ww, Some wd, Some i =>
        Some (SList [SList (match finding_class_C04 (mkO04 edd ww wd) i with
                            | Some _ => []
                            | None => map (fun k => enc_str (c04_class_r_name k)) (new_classes_C04 i)
                            end);
                     SList (map enc_str (map fst (filter (fun kv => help_quoted (snd kv)) (ir_params i))))])
      | _, _, _, _ => None
      end
    | _ => None
    end
  else None.
