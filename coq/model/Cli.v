(* Cli: doctrans.__main__.main — validation and dispatch of the three sub-commands as a decision
   function over the shape of the parsed arguments and the existence bits of the files named.
   (argparse's own rejections — missing required option, invalid --truth/--type choice — happen
   before this code and never touch the file system.)  Definitions only. *)
From Coq Require Import List Ascii Bool Arith ZArith.
From Coq Require String.
Import String.StringSyntax.
From DT Require Import PyStr Sexp PyVal FS Sync.
Import ListNotations.

(* how many times an `append` option was given: None when absent *)
Definition count_opt := option nat.    (* Some n with n >= 1 when given n times *)

Record sync_shape : Type := mkSyncShape {
  ss_truth : kind;
  ss_files : kind -> count_opt;
  ss_names : kind -> count_opt;
  ss_truth_file_exists : bool          (* path.isfile(first file of the truth kind) *)
}.

Inductive decision : Type :=
| Reject            (* parser.error: usage message, exit status 2, nothing else happens *)
| Run               (* the command function is called *)
| Raise (e : err).  (* main itself raises *)

Definition files_total (s : sync_shape) : nat :=
  fold_right (fun k n => match ss_files s k with Some c => c + n | None => n end) 0 kinds_in_order.

(* main(): the `sync` branch *)
Definition decide_sync (s : sync_shape) : decision :=
  match ss_files s (ss_truth s) with
  | None => Reject
  | Some _ =>
    if Nat.ltb (files_total s) 2 then Reject
    else if negb (ss_truth_file_exists s) then Reject
    else if existsb (fun k => match ss_files s k, ss_names s k with
                              | Some _, None => true
                              | _, _ => false
                              end) kinds_in_order then Reject   (* --x given without --x-name *)
    else Run
  end.

(* what ground_truth then does with the argument shape alone, before any file is touched for a
   kind: the truth's name, and per kind that has files, its name *)
Definition arg_level_error (s : sync_shape) : option err :=
  match ss_names s (ss_truth s) with
  | None => Some TypeError
  | Some 0 => Some IndexError
  | Some _ =>
    fold_right (fun k acc =>
                  match ss_files s k, ss_names s k with
                  | Some _, None => Some TypeError
                  | Some _, Some 0 => Some IndexError
                  | _, _ => acc
                  end) None kinds_in_order
  end.

(* the guard of the proved region of C20(i): every kind that has files also has a name *)
Definition names_complete (s : sync_shape) : bool :=
  forallb (fun k => match ss_files s k, ss_names s k with
                    | Some _, None => false
                    | Some _, Some 0 => false
                    | _, _ => true
                    end) kinds_in_order
  && match ss_names s (ss_truth s) with Some (S _) => true | _ => false end.

(* sync_properties: as many --input-param as --output-param (usage error since the /repo fix; the mismatch used to reach
   a bare assert inside sync_properties and end in a traceback), and both files must exist *)
Definition decide_sync_properties (counts_equal input_exists output_exists : bool) : decision :=
  if negb counts_equal then Reject
  else if negb input_exists then Reject else if negb output_exists then Reject else Run.

(* gen: refuses an existing output by raising IOError *)
Definition decide_gen (output_exists : bool) : decision :=
  if output_exists then Raise IOError else Run.

(* the finite abstraction over which C20(i) is proved exhaustively: each option absent / once / twice *)
Definition counts : list count_opt := [None; Some 1; Some 2].
Definition all_kinds : list kind := kinds_in_order.

Definition fun_of_triple {A} (a b c : A) (k : kind) : A :=
  match k with KArgparse => a | KClass => b | KFunction => c end.

Definition all_sync_shapes : list sync_shape :=
  flat_map (fun t =>
  flat_map (fun fa => flat_map (fun fc => flat_map (fun ff =>
  flat_map (fun na => flat_map (fun nc => flat_map (fun nf =>
  map (fun ex => mkSyncShape t (fun_of_triple fa fc ff) (fun_of_triple na nc nf) ex) [true; false])
  counts) counts) counts) counts) counts) counts) all_kinds.

(* wire *)
Definition dec_count (e : sexp) : option count_opt := dec_option dec_nat e.

Definition enc_decision (d : decision) : sexp :=
  match d with
  | Reject => sym "reject"
  | Run => sym "run"
  | Raise e => SList [sym "raise"; enc_err e]
  end.

(* FAMILY: run_cli *)
Definition run_cli (fn : sexp) (args : list sexp) : option sexp :=
  if is_sym "decide_sync" fn then
    match args with
    | [t; fa; fc; ff; na; nc; nf; ex] =>
      match dec_kind t, dec_count fa, dec_count fc, dec_count ff, dec_count na, dec_count nc, dec_count nf, dec_bool ex with
      | Some t, Some fa, Some fc, Some ff, Some na, Some nc, Some nf, Some ex =>
        let s := mkSyncShape t (fun_of_triple fa fc ff) (fun_of_triple na nc nf) ex in
        Some (SList [enc_decision (decide_sync s); enc_option enc_err (arg_level_error s);
                     enc_bool (names_complete s)])
      | _, _, _, _, _, _, _, _ => None
      end
    | _ => None
    end
  else if is_sym "decide_sync_properties" fn then
    match args with
    | [c; a; b] => match dec_bool c, dec_bool a, dec_bool b with
                   | Some c, Some a, Some b => Some (enc_decision (decide_sync_properties c a b))
                   | _, _, _ => None
                   end
    | _ => None
    end
  else if is_sym "decide_gen" fn then
    match args with
    | [a] => option_map (fun a => enc_decision (decide_gen a)) (dec_bool a)
    | _ => None
    end
  else None.
