(* C03Spec2: the C03 classifier refined by three failures of the real function round trip that finding_class_C03
   (model/C03Spec.v) leaves unnamed (definitions only).  All three were found by the proof of the docstring link
   (props/C03Ext.v: C03_doc_link_witnesses and the side condition doc_link_ok), inside guard_C03, and are recorded as
   findings rather than repaired.

   prose-exotic-blank            prose holding, between its ends, a character that str.splitlines splits at other than
                                 the line feed (VT, FF, CR, FS, GS, RS): pure_utils.multiline re-flows the prose
                                 ('a<FF>b' comes back as 'a \ b');
   type-text-not-docstring-safe  with inline_types off the type of a documented entry is written on a :type / :rtype
                                 line: a type text holding a ReST field token (Literal[':type'] - the scanner cuts there,
                                 the parser raises SyntaxError or invents an entry), a line break or another line
                                 boundary (re-indented: 'List[<LF>int]' comes back 'List[<LF>    int]'), or a leading **
                                 (comes back as dict) is not carried;
   summary-reads-as-section      no entry carries prose, so the docstring is the summary alone and holds no ReST token:
                                 a summary holding a Google / numpydoc section header ('Returns:<LF>  int') is read in
                                 that style and an entry is invented (or the section parser raises IndexError).

   The refined classifier keeps every old class and only adds the new ones where the old classifier is silent. *)
From Coq Require Import List Ascii Bool Arith ZArith.
From Coq Require String.
Import String.StringSyntax.
From DT Require Import PyStr Sexp PyVal TyExpr Extracted PureUtils Defaults PyAst IR C03Spec C02Spec2.
From DT Require EmitAst C02Spec.
Import ListNotations.

Inductive c03_class_r : Type :=
| K3r_old (k : c03_class)
| K3r_prose_exotic_blank
| K3r_type_text_unsafe
| K3r_summary_section.

Definition c03_class_r_name (k : c03_class_r) : str :=
  match k with
  | K3r_old k0 => c03_class_name k0
  | K3r_prose_exotic_blank => L "prose-exotic-blank"
  | K3r_type_text_unsafe => L "type-text-not-docstring-safe"
  | K3r_summary_section => L "summary-reads-as-section"
  end.

Definition exotic_prose3 (g : gparam) : bool :=
  match prose_of g with Some d => has_exotic_blank d | None => false end.

(* a type text that the :type / :rtype line does not carry *)
Definition typ_has_token (t : str) : bool := C02Spec.prose_has_token t.
Definition typ_breaks_line (t : str) : bool := mem_c nl t || has_exotic_blank t.
Definition typ_starts_kwargs (t : str) : bool := startswith (L "**") t.

Definition typ_text_unsafe (t : str) : bool := typ_has_token t || typ_breaks_line t || typ_starts_kwargs t.

(* the type of the entry is written into the docstring (types in the docstring, and the entry has a :param / :returns
   line to sit next to) and is such a text *)
Definition typ_unsafe_entry (o : fopts) (g : gparam) : bool :=
  negb (fo_inline o) && has_prose g && match g_typ g with Has t => typ_text_unsafe t | _ => false end.

(* no entry carries prose (C03DocLinkDefs.has_documented is the negation; the equality is a lemma of
   proofs/C03Spec2Facts.v) *)
Definition nothing_documented (i : ir) : bool :=
  negb (existsb (fun kv => has_prose (snd kv)) (ir_params i)
        || match ir_returns i with Has g => has_prose g | _ => false end).

Definition section_tokens : list str := Extracted.google_tokens ++ Extracted.numpydoc_tokens.

Definition summary_has_section (i : ir) : bool :=
  match ir_doc i with Has d => existsb (fun t => contains t d) section_tokens | _ => false end.

(* every new class that applies (the failures of a point may be of several of them at once) *)
Definition new_classes_C03 (o : fopts) (i : ir) : list c03_class_r :=
  (if existsb (fun kv => exotic_prose3 (snd kv)) (ir_params i)
      || match ir_returns i with Has g => exotic_prose3 g | _ => false end
   then [K3r_prose_exotic_blank] else [])
  ++ (if existsb (fun kv => typ_unsafe_entry o (snd kv)) (ir_params i)
         || match ir_returns i with Has g => typ_unsafe_entry o g | _ => false end
      then [K3r_type_text_unsafe] else [])
  ++ (if nothing_documented i && summary_has_section i then [K3r_summary_section] else []).

Definition new_class_C03 (o : fopts) (i : ir) : option c03_class_r := hd_error (new_classes_C03 o i).

Definition finding_class_C03_r (o : fopts) (i : ir) : option c03_class_r :=
  match finding_class_C03 o i with
  | Some k => Some (K3r_old k)
  | None => new_class_C03 o i
  end.

Definition guard_C03_r (o : fopts) (i : ir) : bool :=
  C03_domain o i && match finding_class_C03_r o i with None => true | Some _ => false end.

(* which entries the new classes speak of (C02Spec2.entries_where; the oracle attributes a failure to a class only at
   these entries): the entries with exotic prose / with an unsafe written type text, the latter split by whether the
   text holds a field token (then the scanner cuts the docstring there and anything can follow) *)

(* FAMILY: run_c03r *)
Definition run_c03r (fn : sexp) (args : list sexp) : option sexp :=
  if is_sym "c03_class_r" fn then
    match args with
    | [k; it; kw; il; est; edd; ww; pt; i] =>
      ob3 (dec_fopts k it kw il est edd ww pt) (fun o => ob3 (dec_ir i) (fun i =>
      Some (if negb (C03_domain o i) then sym "out-of-domain"
            else enc_option (fun c => enc_str (c03_class_r_name c)) (finding_class_C03_r o i))))
    | _ => None
    end
  else if is_sym "c03_new_classes" fn then
    (* (new classes that apply - empty when an old class names the point -, entries with exotic prose, entries whose
       written type text holds a field token, entries whose written type text is unsafe otherwise) *)
    match args with
    | [k; it; kw; il; est; edd; ww; pt; i] =>
      ob3 (dec_fopts k it kw il est edd ww pt) (fun o => ob3 (dec_ir i) (fun i =>
      Some (SList [SList (match finding_class_C03 o i with
                          | Some _ => []
                          | None => map (fun c => enc_str (c03_class_r_name c)) (new_classes_C03 o i)
                          end);
                   SList (map enc_str (C02Spec2.entries_where exotic_prose3 i));
                   SList (map enc_str (C02Spec2.entries_where (fun g => typ_unsafe_entry o g
                                                               && match g_typ g with Has t => typ_has_token t | _ => false end) i));
                   SList (map enc_str (C02Spec2.entries_where (fun g => typ_unsafe_entry o g
                                                               && match g_typ g with Has t => negb (typ_has_token t) | _ => false end) i))])))
    | _ => None
    end
  else None.
