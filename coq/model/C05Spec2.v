(* C05Spec2: the C05 classifier refined by two failures of real conversion chains that c05_class_of (model/C05Spec.v)
   leaves unnamed (definitions only).  Both were found by proofs (C05_region_hole_negzero, C05_region_hole_quoted_summary
   in props/C05Ext.v), inside chain_safe, and are recorded as findings rather than repaired.  Each depends on the kinds
   the chain goes through:

   negative-zero-default   a chain through the class kind, a float default -0.0 under a scalar type: ast_utils.param2ast
                           writes `default or zero value`; -0.0 is falsy, so 0.0 is written (the predicate is the one of
                           the C02 class of the same name, C02Spec2.neg_zero_default);
   text-quoted             a chain through the argparse kind, a summary or the prose of a parameter that starts and ends
                           with the same quote mark (more than two characters): ast_utils.set_value removes that pair
                           from the description / the help text (the predicates are those of the C04 classes
                           summary-quoted / help-quoted, C04Spec2.summary_quoted / help_quoted).

   The refined classifier keeps every old class and only adds the new ones where the old classifier is silent. *)
From Coq Require Import List Ascii Bool Arith ZArith.
From Coq Require String.
Import String.StringSyntax.
From DT Require Import PyStr Sexp PyVal TyExpr PureUtils Defaults PyAst IR Extracted C05Spec.
From DT Require C02Spec2 C04Spec2.
Import ListNotations.

Inductive c05_class_r : Type :=
| K5r_old (k : c05_class)
| K5r_negative_zero
| K5r_text_quoted.

Definition c05_class_r_name (k : c05_class_r) : str :=
  match k with
  | K5r_old k0 => c05_class_name k0
  | K5r_negative_zero => L "negative-zero-default"
  | K5r_text_quoted => L "text-quoted"
  end.

Definition through_class (ks : list kind) : bool := existsb is_class_kind ks.
Definition through_argparse (ks : list kind) : bool := existsb is_argparse_kind ks.

Definition names_where (f : gparam -> bool) (i : ir) : list str :=
  map fst (filter (fun kv => f (snd kv)) (ir_params i)).

(* which entries the new classes speak of on this chain: the parameters with a negative-zero default (chains through the
   class kind), the summary and the parameters with quoted prose (chains through the argparse kind).  A return entry
   on such a chain is already named by the old classifier (return-entry). *)
Definition neg_zero_entries (ks : list kind) (i : ir) : list str :=
  if through_class ks then names_where C02Spec2.neg_zero_default i else [].

Definition quoted_summary (ks : list kind) (i : ir) : bool :=
  through_argparse ks && C04Spec2.summary_quoted i.

Definition quoted_entries (ks : list kind) (i : ir) : list str :=
  if through_argparse ks then names_where C04Spec2.help_quoted i else [].

Definition nonempty_l {A} (l : list A) : bool := match l with [] => false | _ => true end.

(* every new class that applies (the failures of a point may be of both at once) *)
Definition new_classes_C05 (ks : list kind) (i : ir) : list c05_class_r :=
  (if nonempty_l (neg_zero_entries ks i) then [K5r_negative_zero] else [])
  ++ (if quoted_summary ks i || nonempty_l (quoted_entries ks i) then [K5r_text_quoted] else []).

Definition new_class_C05 (ks : list kind) (i : ir) : option c05_class_r := hd_error (new_classes_C05 ks i).

Definition c05_class_of_r (ks : list kind) (i : ir) : option c05_class_r :=
  match c05_class_of ks i with
  | Some k => Some (K5r_old k)
  | None => new_class_C05 ks i
  end.

Definition chain_safe_r (ks : list kind) (i : ir) : bool :=
  c05_domain i && match c05_class_of_r ks i with None => true | Some _ => false end.

(* FAMILY: run_c05r *)
Definition run_c05r (fn : sexp) (args : list sexp) : option sexp :=
  if is_sym "c05_class_r" fn then
    match args with
    | [ks; i] =>
      match dec_list dec_kind ks, dec_ir i with
      | Some ks, Some i =>
        Some (if negb (c05_domain i) then sym "out-of-domain"
              else enc_option (fun k => enc_str (c05_class_r_name k)) (c05_class_of_r ks i))
      | _, _ => None
      end
    | _ => None
    end
  else if is_sym "c05_new_classes" fn then
    (* (the new classes that apply, all of them - empty when an old class names the point -, the parameters with a
       negative-zero default, whether the summary is quoted, the parameters with quoted prose), each as far as the chain
       goes through the kind concerned: the oracle attributes a failure to a new class only at these places *)
    match args with
    | [ks; i] =>
      match dec_list dec_kind ks, dec_ir i with
      | Some ks, Some i =>
        Some (SList [SList (match c05_class_of ks i with
                            | Some _ => []
                            | None => map (fun k => enc_str (c05_class_r_name k)) (new_classes_C05 ks i)
                            end);
                     SList (map enc_str (neg_zero_entries ks i));
                     enc_bool (quoted_summary ks i);
                     SList (map enc_str (quoted_entries ks i))])
      | _, _ => None
      end
    | _ => None
    end
  else None.
