(* C06Spec: emitted code is valid Python that behaves as the IR says - the emitter's side.
   wf_python: what CPython's compiler demands of the argument lists / targets of the emitted fragment;
   read-off functions (what inspect.signature, the class body and the add_argument calls expose), the IR's
   own projections, and the finding classes.  Definitions only.
   CPython's side (that it reads the artefact as these functions say) is validated by execution in
   harness/prop_C06.py, not modelled. *)
From Coq Require Import List Ascii Bool Arith ZArith.
From Coq Require String.
Import String.StringSyntax.
From DT Require Import PyStr Sexp PyVal TyExpr PureUtils Defaults PyAst IR EmitAst.
Import ListNotations.

(* ------------------------------------------------------------------ wf_python *)
Definition is_identifier (s : str) : bool :=
  match s with
  | c :: _ => is_id_start c && forallb is_id_char s
              && negb (existsb (str_eqb s) py_keywords) && negb (is_const_word s)
  | [] => false
  end.

Fixpoint nodupb (l : list str) : bool :=
  match l with
  | [] => true
  | x :: r => negb (existsb (str_eqb x) r) && nodupb r
  end.

Definition is_name_none (e : expr) : bool :=
  match e with EOpaque s => str_eqb s (L "<Name id=None>") | _ => false end.

Definition ann_ok (o : option expr) : bool := match o with Some e => negb (is_name_none e) | None => true end.

Definition all_args (a : arguments) : list arg :=
  ar_args a ++ ar_kwonly a ++ (match ar_vararg a with Some x => [x] | None => [] end)
          ++ (match ar_kwarg a with Some x => [x] | None => [] end).

(* identifier-shaped names, no duplicate argument names (kwarg included), len defaults <= len args,
   len kw_defaults = len kwonlyargs, no Name(None) annotation *)
Definition wf_arguments (a : arguments) : bool :=
  forallb (fun x => is_identifier (a_name x) && ann_ok (a_ann x)) (all_args a)
  && nodupb (map a_name (all_args a))
  && Nat.leb (List.length (ar_defaults a)) (List.length (ar_args a))
  && Nat.eqb (List.length (ar_kw_defaults a)) (List.length (ar_kwonly a)).

Definition wf_target (e : expr) : bool := match e with EName id => is_identifier id | _ => false end.

(* the statements the emitters build themselves; carried statements (bodies) are taken as given *)
Definition wf_python (s : stmt) : bool :=
  match s with
  | SFunc n a b _ r =>
    is_identifier n && wf_arguments a && negb (Nat.eqb (List.length b) 0) && ann_ok r
  | SClass n _ b _ =>
    is_identifier n && negb (Nat.eqb (List.length b) 0)
    && forallb (fun x => match x with
                         | SAnnAssign t a _ => wf_target t && negb (is_name_none a)   (* simple=1 needs a Name target *)
                         | _ => true
                         end) b
  | _ => true
  end.

(* ------------------------------------------------------------------ read-off: inspect.signature *)
Inductive pkind : Type := PosOrKw | KwOnly | VarPos | VarKw.

Record sigparam : Type := mkSig {
  sp_name : str;
  sp_kind : pkind;
  sp_default : option expr;
  sp_ann : option expr
}.

(* positional defaults belong to the LAST len(defaults) positional arguments *)
Definition py_signature_of (s : stmt) : option (list sigparam * option expr) :=
  match s with
  | SFunc _ a _ _ r =>
    let nd := List.length (ar_args a) - List.length (ar_defaults a) in
    Some (map (fun x => mkSig (a_name x) PosOrKw None (a_ann x)) (firstn nd (ar_args a))
          ++ map (fun p => mkSig (a_name (fst p)) PosOrKw (Some (snd p)) (a_ann (fst p)))
                 (combine (skipn nd (ar_args a)) (ar_defaults a))
          ++ (match ar_vararg a with Some x => [mkSig (a_name x) VarPos None (a_ann x)] | None => [] end)
          ++ map (fun p => mkSig (a_name (fst p)) KwOnly (snd p) (a_ann (fst p)))
                 (combine (ar_kwonly a) (ar_kw_defaults a))
          ++ (match ar_kwarg a with Some x => [mkSig (a_name x) VarKw None (a_ann x)] | None => [] end),
          r)
  | _ => None
  end.

(* ---- what emit.function puts there, parameter by parameter ---- *)
Definition emitted_ann (pt : ptable) (inline_types : bool) (g : gparam) : outcome (option expr) :=
  do a <- arg_of_param pt inline_types ([], g); Ok (a_ann a).

Definition first_arg (ftype : option str) : list sigparam :=
  match ftype with
  | None => []
  | Some t => if str_eqb t (L "static") then [] else [mkSig t PosOrKw None None]
  end.

Definition kwarg_sig (i : ir) : list sigparam :=
  match filter (fun kv => negb (no_kwargs kv)) (ir_params i) with
  | kv :: _ => [mkSig (fst kv) VarKw None None]
  | [] => []
  end.

(* the signature the emitted function has: EVERY parameter carries a default node *)
Definition emitted_param_sig (pt : ptable) (inline_types kwonly : bool) (kv : str * gparam) : outcome sigparam :=
  do ann <- emitted_ann pt inline_types (snd kv);
  do d <- default_of_param kv;
  Ok (mkSig (fst kv) (if kwonly then KwOnly else PosOrKw) (Some d) ann).

(* ---- what the IR says: a parameter without a default has none ---- *)
Definition spec_default (g : gparam) : option expr :=
  match g_default g with
  | None => None
  | Some (DV v) => Some (if in_none_types v then EConst VNone else EConst v)
  | Some (DE e) => Some e
  | Some (DO _) => None
  end.

Definition spec_param_sig (pt : ptable) (inline_types kwonly : bool) (kv : str * gparam) : outcome sigparam :=
  do ann <- emitted_ann pt inline_types (snd kv);
  Ok (mkSig (fst kv) (if kwonly then KwOnly else PosOrKw) (spec_default (snd kv)) ann).

Definition spec_signature (pt : ptable) (i : ir) (ftype : option str) (inline_types kwonly : bool)
  : outcome (list sigparam) :=
  do ps <- map_outcome (spec_param_sig pt inline_types kwonly) (filter no_kwargs (ir_params i));
  Ok (first_arg ftype ++ ps ++ kwarg_sig i).

(* a scalar default that set_value writes unchanged and that is not code *)
Definition plain_default (g : gparam) : bool :=
  match g_default g with
  | Some (DV (VStr s)) => negb (code_quoted s) && str_eqb (set_value_str s) s
  | Some (DV _) => true
  | _ => false
  end.

Definition guard_C06_function (i : ir) : bool :=
  forallb (fun kv => plain_default (snd kv)) (filter no_kwargs (ir_params i)).

(* ------------------------------------------------------------------ read-off: class attributes, argparse options *)
Definition class_attrs_of (s : stmt) : list (str * expr * option expr) :=
  match s with
  | SClass _ _ b _ =>
    flat_map (fun x => match x with
                       | SAnnAssign (EName n) a v => [(n, a, v)]
                       | _ => []
                       end) b
  | _ => []
  end.

Definition is_add_argument (s : stmt) : option (list expr * list (option str * expr)) :=
  match s with
  | SExpr (ECall (EAttr (EName p) m) args kws) =>
    if str_eqb p (L "argument_parser") && str_eqb m (L "add_argument") then Some (args, kws) else None
  | _ => None
  end.

(* option strings of the add_argument calls, in order *)
Definition argparse_options_of (s : stmt) : list (list expr) :=
  match s with
  | SFunc _ _ b _ _ =>
    flat_map (fun x => match is_add_argument x with Some (args, _) => [args] | None => [] end) b
  | _ => []
  end.

Definition argparse_table_of (s : stmt) : list (list expr * list (option str * expr)) :=
  match s with
  | SFunc _ _ b _ _ =>
    flat_map (fun x => match is_add_argument x with Some r => [r] | None => [] end) b
  | _ => []
  end.

Definition spec_option (name : str) : list expr := [EConst (VStr (L "--" ++ name))].

(* ------------------------------------------------------------------ statement *)
(* the emitted function has the signature the IR describes *)
Definition C06_function_statement : Prop :=
  forall pt i fn ft it kw tds s i2 ftype,
    emit_function pt i fn ft it kw tds = Ok (s, i2) ->
    py_or ft (ir_type i) = Ok ftype ->
    exists sg, spec_signature pt i ftype it kw = Ok sg /\ option_map fst (py_signature_of s) = Some sg.

(* ------------------------------------------------------------------ finding classes *)
Inductive c06_class : Type :=
| K_fn_absent_default_is_None      (* a parameter without default is emitted with default None *)
| K_code_default_is_string         (* a back-tick quoted default is emitted as that string, not as the expression *)
| K_str_default_requoted           (* a str default loses / changes surrounding quote marks *)
| K_name_none                      (* typ present but None and inline types: Name(None); ast.unparse raises *)
| K_negative_constant              (* Constant(-n): re-parsed as UnaryOp(USub, n) *)
| K_black_reformats_docstring      (* black re-indents the docstring / strips trailing blanks: the Constant changes *)
| K_return_without_prose           (* to_docstring raises on a return entry without doc *)
| K_cls_nonetype_annotation        (* untyped attribute with default None: annotation NoneType, a NameError *)
| K_cls_quote_non_str              (* quote() applied to a non-str default under a str-ish type: AttributeError *)
| K_cls_str_default_parsed_as_code (* a str default under a non-str type is handed to ast.parse *)
| K_cls_falsy_default_is_zero      (* a falsy default (0, False, empty string) becomes the zero value of the declared type *)
| K_cls_type_from_default          (* untyped attribute: annotation is the default's Python type *)
| K_cls_private_name_mangled       (* an attribute named __x is stored by Python as _Class__x *)
| K_ap_single_literal_no_choices   (* Literal with one member: no choices= *)
| K_ap_other.                      (* argparse type/required/default inference differs from the IR (C04's classes) *)

Definition c06_class_name (k : c06_class) : str :=
  match k with
  | K_fn_absent_default_is_None => L "function-absent-default-is-None"
  | K_code_default_is_string => L "code-default-emitted-as-string"
  | K_str_default_requoted => L "str-default-requoted"
  | K_name_none => L "name-none-annotation"
  | K_negative_constant => L "negative-number-constant"
  | K_black_reformats_docstring => L "black-reformats-docstring"
  | K_return_without_prose => L "return-entry-without-prose-raises"
  | K_cls_nonetype_annotation => L "class-NoneType-annotation"
  | K_cls_quote_non_str => L "class-quote-of-non-str-default"
  | K_cls_str_default_parsed_as_code => L "class-str-default-parsed-as-code"
  | K_cls_falsy_default_is_zero => L "class-falsy-default-becomes-zero"
  | K_cls_type_from_default => L "class-annotation-from-default"
  | K_cls_private_name_mangled => L "class-private-name-mangled"
  | K_ap_single_literal_no_choices => L "argparse-single-literal-no-choices"
  | K_ap_other => L "argparse-inference"
  end.

Definition any_param (f : str -> gparam -> bool) (i : ir) : bool :=
  existsb (fun kv => f (fst kv) (snd kv)) (ir_params i).

Definition returns_as_param (i : ir) : list (str * gparam) :=
  match ir_returns i with Has p => [(L "return_type", p)] | _ => [] end.

Definition is_code_default (g : gparam) : bool :=
  match g_default g with
  | Some (DV (VStr s)) => code_quoted s && negb (in_none_types (VStr s)) && negb (code_none_inner s)
  | _ => false
  end.

Definition is_requoted_default (g : gparam) : bool :=
  match g_default g with
  | Some (DV (VStr s)) => negb (code_quoted s) && negb (str_eqb (set_value_str (quote s)) s && str_eqb (set_value_str s) s)
  | _ => false
  end.

(* negative numeric constants anywhere in an expression / statement *)
Fixpoint expr_has_neg (e : expr) : bool :=
  let go := existsb expr_has_neg in
  match e with
  | EConst (VInt z) => (z <? 0)%Z
  | EConst (VFloat r) => startswith [ch 45] r
  | EConst _ | EName _ | EOpaque _ => false
  | EAttr b _ => expr_has_neg b
  | ESub b s => expr_has_neg b || expr_has_neg s
  | ETuple es | EList es => go es
  | EDict ks vs => go ks || go vs
  | ECall f args kws => expr_has_neg f || go args || existsb (fun p => expr_has_neg (snd p)) kws
  | EUnary _ x => expr_has_neg x
  end.

Definition opt_has_neg (o : option expr) : bool := match o with Some e => expr_has_neg e | None => false end.

Fixpoint stmt_has_neg (s : stmt) : bool :=
  match s with
  | SFunc _ a b d r =>
    existsb expr_has_neg (ar_defaults a) || existsb opt_has_neg (ar_kw_defaults a)
    || existsb stmt_has_neg b || existsb expr_has_neg d || opt_has_neg r
  | SClass _ bs b d => existsb expr_has_neg bs || existsb stmt_has_neg b || existsb expr_has_neg d
  | SAnnAssign t a v => expr_has_neg t || expr_has_neg a || opt_has_neg v
  | SAssign ts v => existsb expr_has_neg ts || expr_has_neg v
  | SExpr e => expr_has_neg e
  | SReturn e => opt_has_neg e
  | SOther _ _ bl => existsb (existsb stmt_has_neg) bl
  end.

Definition stmt_has_name_none (s : stmt) : bool :=
  match s with
  | SFunc _ a _ _ r => existsb (fun x => negb (ann_ok (a_ann x))) (all_args a) || negb (ann_ok r)
  | _ => false
  end.

(* a docstring black leaves alone (conservative): every line after the first is empty or starts with the
   block indentation, at least one does so exactly, no line ends in a blank, the last line is exactly the
   indentation or text *)
Definition line_ok (ind : str) (l : str) : bool :=
  match l with
  | [] => true
  | _ => startswith ind l && negb (match last_c l with Some c => isspace c | None => false end)
  end.

Definition docstring_black_stable (s : str) : bool :=
  let ind := L "    " in
  negb (mem_c (ch 92) s) && negb (mem_c tabch s) && negb (mem_c dq s) &&
  match split_nl s with
  | [] => true
  | [one] => str_eqb (strip one) one && negb (str_eqb one [])
  | first :: rest =>
    str_eqb (strip first) first
    && forallb (fun l => Nat.leb (List.length l) 100) (first :: rest)
    && forallb (line_ok ind) (removelast rest)
    && (match last rest [] with
        | [] => false
        | l => str_eqb l ind || line_ok ind l
        end)
    && existsb (fun l => startswith ind l && negb (startswith (ind ++ [sp]) l) && negb (str_eqb l ind)) rest
  end.

Definition artefact_docstring (s : stmt) : option str :=
  match s with
  | SFunc _ _ b _ _ => docstring_of b
  | SClass _ _ b _ => docstring_of b
  | _ => None
  end.

Inductive c06_kind : Type := KFunction | KClass | KArgparse.

(* classification of a failing clause (named by the oracle) for an IR, options and the emitted artefact *)
Definition finding_class_C06 (kind : c06_kind) (clause : str) (i : ir) (inline_types : bool)
           (art : option stmt) : option c06_class :=
  let is c := str_eqb clause (L c) in
  let untyped_none := any_param (fun _ g => typ_is_none g && match g_default g with
                                                              | Some (DV v) => in_none_types v
                                                              | _ => false end) in
  if str_eqb clause (L "unparse") || str_eqb clause (L "compile") then
    match art with
    | Some s => if stmt_has_name_none s then Some K_name_none else None
    | None => None
    end
  else if str_eqb clause (L "reparse") then
    match art with
    | Some s => if stmt_has_neg s then Some K_negative_constant else None
    | None => None
    end
  else if str_eqb clause (L "file_black") then
    match art with
    | Some s => match artefact_docstring s with
                | Some d => if docstring_black_stable d then None else Some K_black_reformats_docstring
                | None => None
                end
    | None => None
    end
  else
  match kind with
  | KFunction =>
    if str_eqb clause (L "emit") then
      match ir_returns i with
      | Has p => match fget (g_doc p) with
                 | Some (_ :: _) => None
                 | _ => Some K_return_without_prose
                 end
      | _ => None
      end
    else if str_eqb clause (L "default") then
      if any_param (fun n g => negb (endswith (L "kwargs") n) && is_code_default g) i then Some K_code_default_is_string
      else if any_param (fun n g => negb (endswith (L "kwargs") n) && is_requoted_default g) i then Some K_str_default_requoted
      else if any_param (fun n g => negb (endswith (L "kwargs") n)
                                    && match g_default g with None => true | _ => false end) i
           then Some K_fn_absent_default_is_None
      else None
    else None
  | KClass =>
    let ps := ir_params i ++ returns_as_param i in
    let anyp f := existsb (fun kv => f (snd kv)) ps in
    if existsb (fun kv => startswith (L "__") (fst kv) && negb (endswith (L "__") (fst kv))) ps
       && (str_eqb clause (L "attr_names_order") || str_eqb clause (L "attr_value")
           || str_eqb clause (L "attr_annotation")) then Some K_cls_private_name_mangled
    else if str_eqb clause (L "emit") then
      if anyp (fun g => match fget (g_typ g), g_default g with
                        | Some t, Some (DV v) =>
                          match needs_quoting (Some t) with
                          | Ok true => truthy v && match v with VStr _ => false | _ => true end
                          | _ => false
                          end
                        | _, _ => false
                        end) then Some K_cls_quote_non_str
      else None
    else if str_eqb clause (L "exec") then
      if anyp (fun g => typ_is_none g && match g_default g with
                                         | Some (DV v) => in_none_types v
                                         | _ => false end) then Some K_cls_nonetype_annotation
      else if anyp (fun g => match fget (g_typ g), g_default g with
                             | Some t, Some (DV (VStr s)) =>
                               negb (code_quoted s)
                               && match needs_quoting (Some t) with Ok false => negb (in_simple_types t) | _ => false end
                             | _, _ => false
                             end) then Some K_cls_str_default_parsed_as_code
      else None
    else if str_eqb clause (L "attr_value") then
      if anyp is_code_default then Some K_code_default_is_string
      else if anyp (fun g => match fget (g_typ g), g_default g with
                             | Some t, Some (DV (VStr s)) =>
                               negb (code_quoted s)
                               && match needs_quoting (Some t) with Ok false => negb (in_simple_types t) | _ => false end
                             | _, _ => false
                             end) then Some K_cls_str_default_parsed_as_code
      else if anyp is_requoted_default then Some K_str_default_requoted
      else if anyp (fun g => match g_default g with Some (DV v) => negb (truthy v) | _ => false end)
           then Some K_cls_falsy_default_is_zero
      else None
    else if str_eqb clause (L "attr_annotation") then
      if anyp (fun g => typ_is_none g) then Some K_cls_type_from_default else None
    else None
  | KArgparse =>
    if str_eqb clause (L "option_choices") then
      if any_param (fun _ g => match fget (g_typ g) with
                               | Some t => match parse_ty_fix t with
                                           | Some (TSub [h] [_]) => str_eqb h (L "Literal")
                                           | _ => false
                                           end
                               | None => false
                               end) i then Some K_ap_single_literal_no_choices
      else None
    else if str_eqb clause (L "option_default") || str_eqb clause (L "option_type")
            || str_eqb clause (L "option_help") || str_eqb clause (L "run") then Some K_ap_other
    else None
  end.

(* ------------------------------------------------------------------ wire *)
Definition dec_kind (e : sexp) : option c06_kind :=
  if is_sym "function" e then Some KFunction
  else if is_sym "class" e then Some KClass
  else if is_sym "argparse" e then Some KArgparse
  else None.

Definition enc_sigparam (p : sigparam) : sexp :=
  SList [enc_str (sp_name p);
         (match sp_kind p with PosOrKw => sym "pos" | KwOnly => sym "kwonly" | VarPos => sym "varpos" | VarKw => sym "varkw" end);
         enc_option enc_expr (sp_default p); enc_option enc_expr (sp_ann p)].

(* FAMILY: run_c06 *)
Definition run_c06 (fn : sexp) (args : list sexp) : option sexp :=
  if is_sym "c06_class" fn then
    match args with
    | [k; clause; i; it; _kw; _edd; _ww; art] =>
      match dec_kind k, clause, dec_ir i, dec_bool it, dec_option dec_stmt art with
      | Some k, Atom c, Some i, Some it, Some art =>
        Some (enc_option (fun x => enc_str (c06_class_name x)) (finding_class_C06 k c i it art))
      | _, _, _, _, _ => None
      end
    | _ => None
    end
  else if is_sym "c06_wf" fn then
    match args with
    | [s] => match dec_stmt s with Some s => Some (enc_bool (wf_python s)) | None => None end
    | _ => None
    end
  else if is_sym "c06_signature" fn then
    match args with
    | [s] => match dec_stmt s with
             | Some s => Some (enc_option (fun r => SList [SList (map enc_sigparam (fst r)); enc_option enc_expr (snd r)])
                                          (py_signature_of s))
             | None => None
             end
    | _ => None
    end
  else None.
