(* C09Instance: the emit / parse / compare side of the abstract layers of model/Sync.v, instantiated with the
   converter models -- what doctrans.conformance hands to and gets from emit.* / parse.* / cmp_ast.

     node     := PyAst.stmt          (the ClassDef / FunctionDef node)
     irT      := IR.ir
     opts     := sync_opts           (_default_options(node, search, type_wanted)())
     opts_of  := opts_inst
     emit_k   := emit_inst w pt      (arg2parse_emit_type[k][1](ir, **opts), every other argument at its default;
                                      the docstring text composed as in C02DocLinkDefs / C03DocLinkDefs / DocEmit)
     type_ok  := type_ok_inst        (type(replacement_node) == type_wanted)
     cmp      := cmp_inst as_written (cmp_ast(o, n) or cmp_ast(o, _as_written(n)); cmp_ast on this fragment is
                                      PyAst.stmt_eqb, i.e. equality of the trees -- what comparing ast.dump means)
     parse_k  := parse_node_inst     (arg2parse_emit_type[k][0](node) with its own defaults: the per-kind parser
                                      applied to the node alone, the docstring read from the node)

   What stays a parameter: the tree layer (tree, parse_file, find, rewrite, render_node, render_tree: files, black,
   ast.parse, find_in_ast, RewriteAtQuery -- proofs/SyncLocate.v instantiates find / rewrite), parse_truth, and
   as_written : stmt -> stmt, the model-less  ast_parse(black.format_str(to_code(Module([n])))).body[0]  of
   conformance._as_written.  w = pure_utils.line_length, pt = the recorded ast.parse table of EmitAst.
   Definitions only. *)
From Coq Require Import List Ascii Bool Arith ZArith.
From Coq Require String.
Import String.StringSyntax.
From DT Require Import PyStr Sexp PyVal TyExpr PureUtils Defaults PyAst IR FS Sync.
From DT Require EmitAst ParseAst ParseSig Merge DocEmit DocParse SyncProps C02Spec C02Codec C02DocLinkDefs C04Spec C04Codec
   C03Spec C03DocLinkDefs C12Spec.
Import ListNotations.

(* ================= _default_options ================= *)

(* the dict _default_options(node, search, type_wanted)() returns; so_ftype is an outcome because
   get_function_type asserts isinstance(node, FunctionDef) *)
Record sync_opts : Type := mkSyncOpts {
  so_name : str;                        (* class_name / function_name: search[-1], or the fixed default *)
  so_ftype : outcome (option str)       (* function_type: None for a missing node, else get_function_type(node) *)
}.

Definition default_name (k : kind) : str :=
  match k with KClass => L "ConfigClass" | _ => L "set_cli_args" end.

Definition opts_inst (o : option stmt) (search : list str) (k : kind) : sync_opts :=
  mkSyncOpts (last search (default_name k))
             (match k with
              | KClass => Ok None                               (* the ClassDef lambda has no function_type *)
              | _ =>
                match o with
                | None => Ok None
                | Some (SFunc _ a _ _ _) => Ok (Some (ParseAst.get_function_type a))
                | Some (SOther _ _ _) => Err Unmodelled
                | Some _ => Err AssertionError
                end
              end).

(* ================= emit_func(ir, **opts) ================= *)

(* emit.class_(ir, class_name=name): emit_call=False, class_bases=("object",), decorator_list=None, word_wrap=True,
   emit_default_doc=False *)
Definition emit_class_inst (w : nat) (pt : EmitAst.ptable) (i : ir) (name : str) : outcome stmt :=
  do r <- EmitAst.emit_class pt i false name [L "object"] [] true
                             (C02DocLinkDefs.class_docstring_text w false true i);
  Ok (fst r).

(* emit.docstring(argparse_doc_ir ir, word_wrap=True) as emit.argparse_function calls it (emit_default_doc=True is
   emit.docstring's own default) *)
Definition argparse_docstring_text (w : nat) (i : ir) : outcome str :=
  do r <- DocEmit.emit_docstring w DocEmit.Rest true true (EmitAst.argparse_doc_ir i);
  Ok (fst r).

(* emit.argparse_function(ir, function_name=name, function_type=ft): emit_default_doc=False, wrap_description=False,
   word_wrap=True *)
Definition emit_argparse_inst (w : nat) (pt : EmitAst.ptable) (i : ir) (name : str) (ft : option str)
  : outcome stmt :=
  do r <- EmitAst.emit_argparse pt i false (Some name) ft false true (argparse_docstring_text w i);
  Ok (fst r).

(* the options of emit.function that conformance leaves at their defaults: word_wrap=True, emit_default_doc=False,
   indent_level=2, emit_separating_tab=PY3_8 (true here), inline_types=True, emit_as_kwonlyargs=True *)
Definition sync_fopts (pt : EmitAst.ptable) (kind_ : str) : C03Spec.fopts :=
  C03Spec.mkFO kind_ true true 2 true false true pt.

Definition emit_function_inst (w : nat) (pt : EmitAst.ptable) (i : ir) (name : str) (ft : option str)
  : outcome stmt :=
  do r <- EmitAst.emit_function pt i (Some name) ft true true
                                (C03DocLinkDefs.function_docstring_text w (sync_fopts pt []) i);
  Ok (fst r).

Definition emit_inst (w : nat) (pt : EmitAst.ptable) (k : kind) (i : ir) (o : sync_opts) : outcome stmt :=
  match k with
  | KClass => emit_class_inst w pt i (so_name o)
  | KArgparse => do ft <- so_ftype o; emit_argparse_inst w pt i (so_name o) ft
  | KFunction => do ft <- so_ftype o; emit_function_inst w pt i (so_name o) ft
  end.

(* type(replacement_node) == type_wanted *)
Definition type_ok_inst (k : kind) (n : stmt) : bool :=
  match k, n with
  | KClass, SClass _ _ _ _ => true
  | KArgparse, SFunc _ _ _ _ _ => true
  | KFunction, SFunc _ _ _ _ _ => true
  | _, _ => false
  end.

(* ================= cmp_ast ================= *)

(* not cmp_ast(o, n) and not cmp_ast(o, _as_written(n))  is the test for rewriting *)
Definition cmp_inst (as_written : stmt -> stmt) (o n : stmt) : bool :=
  stmt_eqb o n || stmt_eqb o (as_written n).

(* ================= parse_func(node) ================= *)

(* parse.class_'s  parse.docstring(get_docstring(class_def).replace(":cvar", ":param"), emit_default_doc=False)  on the
   value ds of the docstring constant; C02DocLinkDefs.class_docstring_ir text is this at ds = class_docstring text *)
Definition class_doc_ir_of_const (ds : str) : outcome ir :=
  do gd <- (if forallb SyncProps.doc_char_ok ds then Ok (SyncProps.cleandoc ds) else Err Unmodelled);
  DocParse.parse_dot_docstring DocParse.ng_unmodelled (replace (L ":cvar") (L ":param") gd) false true false.

(* parse.class_(node): class_name=None, merge_inner_function=None; infer_type / word_wrap as given
   (the code's defaults are False / True) *)
Definition parse_class_node (it ww : bool) (o : stmt) : outcome ir :=
  ParseAst.parse_class
    (match o with
     | SClass _ _ body _ => option_map class_doc_ir_of_const (docstring_of body)
     | _ => None
     end) (ParseAst.CStmt o) None it ww.

(* parse.argparse_ast's  parse_docstring(get_docstring(function_def), emit_default_doc=True)  on the docstring constant;
   a function without docstring: get_docstring gives None, the docstring parser is handed None *)
Definition argparse_doc_ir_of_const (ods : option str) : outcome ir :=
  match ods with
  | Some ds =>
    do gd <- (if forallb SyncProps.doc_char_ok ds then Ok (SyncProps.cleandoc ds) else Err Unmodelled);
    DocParse.parse_docstring DocParse.ng_unmodelled (Some gd) false true true true
  | None => DocParse.parse_docstring DocParse.ng_unmodelled None false true true true
  end.

(* parse.argparse_ast(node): function_type=None, function_name=None *)
Definition parse_argparse_node (o : stmt) : outcome ir :=
  ParseAst.parse_argparse_ast
    (match o with
     | SFunc _ _ body _ _ => argparse_doc_ir_of_const (docstring_of body)
     | _ => Err AssertionError
     end) o None None.

(* parse.function(node): infer_type=False, word_wrap=True, function_type=None, function_name=None; the docstring-derived
   IR as in C03DocLinkDefs.function_docstring_ir; dict iteration orders fixed (C12) *)
Definition parse_function_node (o : stmt) : outcome ir :=
  match o with
  | SFunc _ _ body _ _ =>
    match docstring_of body with
    | Some ds => do d <- C03DocLinkDefs.function_docstring_ir ds;
                 ParseSig.parse_function C12Spec.id_perm C12Spec.id_perm (Some d) o false true None None
    | None => ParseSig.parse_function C12Spec.id_perm C12Spec.id_perm None o false true None None
    end
  | _ => ParseSig.parse_function C12Spec.id_perm C12Spec.id_perm None o false true None None
  end.

Definition parse_node_inst (it ww : bool) (k : kind) (o : stmt) : outcome ir :=
  match k with
  | KClass => parse_class_node it ww o
  | KArgparse => parse_argparse_node o
  | KFunction => parse_function_node o
  end.

(* the relation of the property, per kind: names, order, types, prose, defaults (C02Spec.same_interface, the one
   C01Spec / C02Spec use); for argparse the description as well, after the type normalisation argparse imposes *)
Definition same_interface_inst (k : kind) (truth target : ir) : bool :=
  match k with
  | KClass => C02Spec.same_interface truth target
  | KArgparse => C04Spec.same_interface_argparse (C04Spec.argparse_type_norm truth) target
  | KFunction => C02Spec.same_interface truth target
  end.

(* ================= the round-trip guards ================= *)

(* class targets: guard of C02_partial and the docstring side condition of C02_partial_closed at the options
   conformance uses (emit_default_doc=False, word_wrap=True) *)
Definition guard_C09_class (w : nat) (i : ir) : bool :=
  C02Codec.guard_C02_ast i && C02DocLinkDefs.doc_link_ok w false true i.

Definition outcome_stmt_eqb (a b : outcome stmt) : bool :=
  match a, b with
  | Ok x, Ok y => stmt_eqb x y
  | _, _ => false
  end.

Definition is_ok {A} (o : outcome A) : bool := match o with Ok _ => true | Err _ => false end.

(* argparse targets: guard of C04_partial (stated there for word_wrap=False), every add_argument call is the same
   with word_wrap on (textwrap.fill leaves the help texts alone), the name is not empty, and the docstring layer of the
   argparse function (the fixed description of argparse_doc_ir, which depends on the IR only through the prose and
   type of its return entry) emits and reads back without raising *)
Definition argparse_wrap_neutral (pt : EmitAst.ptable) (i : ir) : bool :=
  forallb (fun kv => outcome_stmt_eqb (EmitAst.param2argparse_param pt true false (fst kv) (snd kv))
                                      (EmitAst.param2argparse_param pt false false (fst kv) (snd kv)))
          (ir_params i).

Definition argparse_doc_layer_ok (w : nat) (i : ir) : bool :=
  match argparse_docstring_text w i with
  | Ok ds => is_ok (argparse_doc_ir_of_const
                      (Some (EmitAst.set_value_str (indent tab ds ++ tab))))
  | Err _ => false
  end.

Definition guard_C09_argparse (w : nat) (pt : EmitAst.ptable) (i : ir) : bool :=
  C04Codec.guard_C04_ast i && argparse_wrap_neutral pt i && argparse_doc_layer_ok w i.

(* what the guard asks of the options: a non-empty name, a function type that was read (from the found node) *)
Definition opts_ok_argparse (o : sync_opts) : bool :=
  match so_name o, so_ftype o with
  | _ :: _, Ok (Some (_ :: _)) => true
  | _, _ => false
  end.

(* a statement  return (a, b, ...)  -- the only statement for which parse.argparse_ast looks at the text of the
   docstring constant itself (_parse_return) *)
Definition is_tuple_return (s : stmt) : bool :=
  match s with SReturn (Some (ETuple _)) => true | _ => false end.

(* ================= function targets (follow-up) ================= *)
From DT Require C06Spec.

(* set_value leaves the docstring text of emit.function alone (it strips one pair of outer quote marks from a text that
   starts and ends with the same quote mark; to_docstring's text starts with a line break) *)
Definition fn_text_unquoted (w : nat) (pt : EmitAst.ptable) (ft : str) (i : ir) : bool :=
  match C03DocLinkDefs.function_docstring_text w (sync_fopts pt ft) i with
  | Ok t => str_eqb (EmitAst.set_value_str t) t
  | Err _ => false
  end.

(* the round trip emit.function -> ast.unparse -> ast.parse -> parse.function of C03 / C03Ext / C19_function_any_name at the
   options conformance leaves at their defaults (sync_fopts), for the function name [name] and the function type [ft] *)
Definition guard_C09_function_core (w : nat) (pt : EmitAst.ptable) (i : ir) (name ft : str) : bool :=
  C06Spec.is_identifier name
  && C03Spec.guard_C03 (sync_fopts pt ft) i
  && C03DocLinkDefs.doc_link_ok w (sync_fopts pt ft) i
  && fn_text_unquoted w pt ft i.

(* the emitted FunctionDef is a fixed point of ast.parse(ast.unparse(.)) (C03Spec.reparse_stmt): no negative number among
   the defaults (CPython reads -5 back as UnaryOp(USub, 5)) *)
Definition fn_reparse_fixed (w : nat) (pt : EmitAst.ptable) (i : ir) (name ft : str) : bool :=
  match emit_function_inst w pt i name (Some ft) with
  | Ok n => match C03Spec.reparse_stmt n with
            | Ok n' => stmt_eqb n n'
            | Err _ => false
            end
  | Err _ => false
  end.

Definition guard_C09_function (w : nat) (pt : EmitAst.ptable) (i : ir) (name ft : str) : bool :=
  guard_C09_function_core w pt i name ft && fn_reparse_fixed w pt i name ft.

(* get_function_type(found node) is one of these *)
Definition function_kinds : list str := [L "static"; L "self"; L "cls"].

(* the guard for a function target named [name], whatever FunctionDef is found at its location *)
Definition guard_C09_function_found (w : nat) (pt : EmitAst.ptable) (i : ir) (name : str) : bool :=
  forallb (guard_C09_function w pt i name) function_kinds.

Definition guard_C09_function_found_core (w : nat) (pt : EmitAst.ptable) (i : ir) (name : str) : bool :=
  forallb (guard_C09_function_core w pt i name) function_kinds.

(* the relation C03 proves for functions: names and order by lookup, strict defaults, and the kind comes back *)
Definition same_interface_function (ft : str) (truth target : ir) : bool :=
  C03Spec.same_interface_fn ft truth target.
