(* C06Spec2: the C06 classifier refined by two failures of the really emitted code that finding_class_C06
   (model/C06Spec.v) leaves unnamed (definitions only).  Both were found by the strengthened oracle of C06 (clauses
   default-accepted / registered-default / parse-defaults / parse-given, new strata), and are recorded as findings
   rather than repaired.  Both classes are decided by the SHAPE of a parameter of the IR, and each names only the
   clauses that shape explains.

   argparse-list-default-unusable  a parameter whose declared type mentions List (ast_utils._parse_node_for_arg then
                                   chooses action='append') with an explicit default.  argparse appends to the
                                   registered default, which is never a list:
                                     a list display of two or more elements  ->  type=loads, default='[64, 32]' (a str):
                                        giving the option raises AttributeError ('str' object has no attribute 'append');
                                     of one element  ->  type=int, default=64: the default is the element, the option
                                        takes one element, giving it raises AttributeError;
                                     of no element  ->  no default at all (None is read where the IR says []);
                                     a scalar (what doctrans' own argparse reader produces for action='append' with a
                                        default)  ->  default=5: giving the option raises AttributeError.
   class-bare-dict-default-lost    a class attribute declared with the bare type `dict` and a default: param2ast
                                   builds Dict(keys=[], values=<the default itself>).  A str default (code or not)
                                   unparses to `cfg: dict = {}` - the default is lost and the node is not the tree its
                                   own text parses to; any other default makes ast.unparse raise TypeError.

   The refined classifier keeps every old class and only adds the new ones where the old classifier is silent.  It is
   given, besides the arguments of the old one, the parameters the failing check speaks of (`entries`: the option a
   per-option clause is about, or the options that were on the command line of a failed parse_args) and how the check
   failed (`mode`). *)
From Coq Require Import List Ascii Bool Arith ZArith.
From Coq Require String.
Import String.StringSyntax.
From DT Require Import PyStr Sexp PyVal TyExpr PureUtils Defaults PyAst IR EmitAst C06Spec.
Import ListNotations.

Inductive c06_class_r : Type :=
| K6r_old (k : c06_class)
| K6r_ap_list_default_unusable
| K6r_cls_bare_dict_default_lost.

Definition c06_class_r_name (k : c06_class_r) : str :=
  match k with
  | K6r_old k0 => c06_class_name k0
  | K6r_ap_list_default_unusable => L "argparse-list-default-unusable"
  | K6r_cls_bare_dict_default_lost => L "class-bare-dict-default-lost"
  end.

(* how a check of the oracle failed: parse_args raised / exited / gave another value than the default; anything else *)
Inductive fail_mode : Type := FM_raised | FM_exited | FM_value | FM_other.

(* ------------------------------------------------------------------ argparse: List type + explicit default *)
(* ast_utils._resolve_arg / _parse_node_for_arg: action='append' exactly when a Name `List` occurs in the parsed type *)
Definition typ_appends (t : str) : bool :=
  negb (in_simple_types t) && negb (str_eqb t (L "dict"))
  && match parse_ty_fix t with
     | Some tree => existsb (fun n => match n with NName id => str_eqb id (L "List") | _ => false end) (walk tree)
     | None => false
     end.

(* commas of a text outside brackets and quotes; was the last character that is not a blank such a comma?
   q: the quote mark of the string literal we are in; esc: the character before was a backslash inside it *)
Fixpoint scan_commas (s : str) (depth : nat) (q : option ascii) (esc : bool) (n : nat) (last : bool) : nat * bool :=
  match s with
  | [] => (n, last)
  | c :: r =>
    match q with
    | Some qc =>
      if esc then scan_commas r depth q false n false
      else if ascii_eqb c (ch 92) then scan_commas r depth q true n false
      else if ascii_eqb c qc then scan_commas r depth None false n false
      else scan_commas r depth q false n false
    | None =>
      if ascii_eqb c sq || ascii_eqb c dq then scan_commas r depth (Some c) false n false
      else if ascii_eqb c (ch 40) || ascii_eqb c (ch 91) || ascii_eqb c (ch 123) then scan_commas r (S depth) None false n false
      else if ascii_eqb c (ch 41) || ascii_eqb c (ch 93) || ascii_eqb c (ch 125) then scan_commas r (depth - 1) None false n false
      else if ascii_eqb c (ch 44) && Nat.eqb depth 0 then scan_commas r depth None false (S n) true
      else if isspace c then scan_commas r depth None false n last
      else scan_commas r depth None false n false
    end
  end.

(* the number of elements of a list display written as text ([], [64], [64, 32], ['a', 'b',]); None: not one *)
Definition list_display_len (text : str) : option nat :=
  let s := strip text in
  if startswith [ch 91] s && endswith [ch 93] s && Nat.leb 2 (List.length s) then
    let body := strip (slice s 1 (List.length s - 1)) in
    match body with
    | [] => Some 0
    | _ => let '(n, last) := scan_commas body 0 None false 0 false in Some (if last then n else S n)
    end
  else None.

Inductive list_default : Type := LD_seq0 | LD_seq1 | LD_seqN | LD_scalar.

(* the shape: a declared type that makes the option append, and an explicit default that is a back-tick quoted list
   display or a scalar (not None, not one of the spellings of None) *)
Definition list_default_of (g : gparam) : option list_default :=
  match fget (g_typ g), g_default g with
  | Some t, Some (DV v) =>
    if typ_appends t then
      match v with
      | VNone => None
      | VStr s =>
        if in_none_types v then None
        else if code_quoted s then
          match list_display_len (strip_chars [bt] s) with
          | Some 0 => Some LD_seq0
          | Some 1 => Some LD_seq1
          | Some _ => Some LD_seqN
          | None => None
          end
        else Some LD_scalar
      | _ => Some LD_scalar
      end
    else None
  | _, _ => None
  end.

Definition is_run_clause (c : str) : bool :=
  str_eqb c (L "default_accepted") || str_eqb c (L "registered_default")
  || str_eqb c (L "parse_defaults") || str_eqb c (L "parse_given").

Definition is_parse_clause (c : str) : bool := str_eqb c (L "parse_defaults") || str_eqb c (L "parse_given").

Definition is_raised (m : fail_mode) : bool := match m with FM_raised => true | _ => false end.

(* what each shape explains: the empty and the one-element display are registered with another type / default than
   the IR's, so every run clause that speaks of the option can fail; a longer display and a scalar are registered
   with a default that reads back as the IR's, only USING the option raises *)
Definition list_default_explains (clause : str) (mode : fail_mode) (ld : list_default) : bool :=
  match ld with
  | LD_seq0 | LD_seq1 => is_run_clause clause
  | LD_seqN | LD_scalar => is_parse_clause clause && is_raised mode
  end.

Definition ap_list_default_unusable (clause : str) (mode : fail_mode) (entries : list str) (i : ir) : bool :=
  existsb (fun kv => existsb (str_eqb (fst kv)) entries
                     && match list_default_of (snd kv) with
                        | Some ld => list_default_explains clause mode ld
                        | None => false
                        end) (ir_params i).

(* ------------------------------------------------------------------ class: bare dict + default *)
(* Some true: a str default (lost); Some false: any other default (ast.unparse raises) *)
Definition bare_dict_default (g : gparam) : option bool :=
  match fget (g_typ g), g_default g with
  | Some t, Some (DV v) =>
    if str_eqb t (L "dict") then
      Some (match v with VStr s => negb (str_eqb s NoneStr) | _ => false end)
    else None
  | _, _ => None
  end.

(* the node param2ast builds for it: a Dict whose keys and values do not pair up *)
Definition lopsided_dict (e : expr) : bool :=
  match e with
  | EDict ks vs => negb (Nat.eqb (List.length ks) (List.length vs))
  | _ => false
  end.

Definition class_has_lopsided_dict (s : stmt) : bool :=
  match s with
  | SClass _ _ b _ =>
    existsb (fun x => match x with SAnnAssign _ _ (Some v) => lopsided_dict v | _ => false end) b
  | _ => false
  end.

Definition is_some_true (o : option bool) : bool := match o with Some true => true | _ => false end.
Definition is_some_false (o : option bool) : bool := match o with Some false => true | _ => false end.

(* (the lost value itself, clause attr_value, is named by the old classes code-default-emitted-as-string /
   class-str-default-parsed-as-code, which speak of every str default under a type like this) *)
Definition cls_bare_dict_default_lost (clause : str) (i : ir) (art : option stmt) : bool :=
  let ps := ir_params i ++ returns_as_param i in
  if str_eqb clause (L "reparse") then
    existsb (fun kv => is_some_true (bare_dict_default (snd kv))) ps
    && match art with Some s => class_has_lopsided_dict s | None => false end
  else if str_eqb clause (L "unparse") then
    existsb (fun kv => is_some_false (bare_dict_default (snd kv))) ps
  else false.

(* ------------------------------------------------------------------ the refined classifier *)
Definition new_class_C06 (kind : c06_kind) (clause : str) (i : ir) (art : option stmt)
           (entries : list str) (mode : fail_mode) : option c06_class_r :=
  match kind with
  | KArgparse => if ap_list_default_unusable clause mode entries i then Some K6r_ap_list_default_unusable else None
  | KClass => if cls_bare_dict_default_lost clause i art then Some K6r_cls_bare_dict_default_lost else None
  | KFunction => None
  end.

Definition finding_class_C06_r (kind : c06_kind) (clause : str) (i : ir) (inline_types : bool) (art : option stmt)
           (entries : list str) (mode : fail_mode) : option c06_class_r :=
  match finding_class_C06 kind clause i inline_types art with
  | Some k => Some (K6r_old k)
  | None => new_class_C06 kind clause i art entries mode
  end.

(* C06Spec has no single guard (its theorems are stated per clause); the region a clause of a kind is claimed on *)
Definition guard_C06_clause (kind : c06_kind) (clause : str) (i : ir) (inline_types : bool) (art : option stmt) : bool :=
  match finding_class_C06 kind clause i inline_types art with None => true | Some _ => false end.

Definition guard_C06_clause_r (kind : c06_kind) (clause : str) (i : ir) (inline_types : bool) (art : option stmt)
           (entries : list str) (mode : fail_mode) : bool :=
  match finding_class_C06_r kind clause i inline_types art entries mode with None => true | Some _ => false end.

(* ------------------------------------------------------------------ wire *)
Definition dec_mode (e : sexp) : option fail_mode :=
  if is_sym "raised" e then Some FM_raised
  else if is_sym "exited" e then Some FM_exited
  else if is_sym "value" e then Some FM_value
  else if is_sym "other" e then Some FM_other
  else None.

(* FAMILY: run_c06r *)
Definition run_c06r (fn : sexp) (args : list sexp) : option sexp :=
  if is_sym "c06_class_r" fn then
    match args with
    | [k; clause; i; it; _kw; _edd; _ww; art; entries; mode] =>
      match dec_kind k, clause, dec_ir i, dec_bool it, dec_option dec_stmt art, dec_list dec_str entries, dec_mode mode with
      | Some k, Atom c, Some i, Some it, Some art, Some entries, Some mode =>
        Some (enc_option (fun x => enc_str (c06_class_r_name x)) (finding_class_C06_r k c i it art entries mode))
      | _, _, _, _, _, _, _ => None
      end
    | _ => None
    end
  else None.
