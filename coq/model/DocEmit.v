(* DocEmit: doctrans/docstring_utils.py:emit_param_str (rest / numpydoc / google),
   doctrans/emit.py:docstring and doctrans/emitter_utils.py:to_docstring (with its inner _fill,
   _param2docstring_param, _joiner), transcribed as they are.
   The wrapping width (pure_utils.line_length, read from the environment at import) is the explicit
   parameter [w] everywhere.  The second component of each result is the caller's param / IR after the
   call; since the three functions now work on copies of the param dicts it is the input itself
   (proofs/DocEmitFacts.v: emit_param_str_pure, emit_docstring_pure, to_docstring_ir).  Definitions only. *)
From Coq Require Import List Ascii Bool Arith ZArith.
From Coq Require String.
Import String.StringSyntax.
From DT Require Import PyStr Sexp PyVal TyExpr Extracted PureUtils Defaults PyAst IR Fill.
Import ListNotations.

Inductive style : Type := Rest | Numpydoc | Google.

Definition style_eqb (a b : style) : bool :=
  match a, b with
  | Rest, Rest | Numpydoc, Numpydoc | Google, Google => true
  | _, _ => false
  end.

(* d.get(k) is truthy: key present with a non-empty str *)
Definition truthy_fld (f : fld str) : option str :=
  match f with Has (c :: r) => Some (c :: r) | _ => None end.

(* _fill = fill if word_wrap else identity   (docstring_utils.py:emit_param_str, emit.py:docstring) *)
Definition fill_or_id (word_wrap : bool) (w : nat) (s : str) : outcome str :=
  if word_wrap then fill w s else Ok s.

Definition is_return (name : str) : bool := str_eqb name (L "return_type").

(* set_default_doc((name, _param), emit_default_doc=...)[1]["doc"], together with the mutated param.
   set_default_doc returns a param whose doc is a str whenever the input doc was one; the other branch
   is unreachable from the callers below (they test _param.get("doc") first). *)
Definition sdd_doc (name : str) (p : param) (emit_default_doc : bool) : outcome (str * param) :=
  do p' <- set_default_doc name p emit_default_doc;
  match p_doc p' with
  | Has d => Ok (d, p')
  | _ => Err KeyError
  end.

Fixpoint mapM {A B} (f : A -> outcome B) (l : list A) : outcome (list B) :=
  match l with
  | [] => Ok []
  | x :: r => do y <- f x; do ys <- mapM f r; Ok (y :: ys)
  end.

Fixpoint cat_options {A} (l : list (option A)) : list A :=
  match l with
  | [] => []
  | Some a :: r => a :: cat_options r
  | None :: r => cat_options r
  end.

Definition nonempty (s : str) : bool := match s with [] => false | _ => true end.

(* ---- docstring_utils.py:emit_param_str, style == "rest" ----
   the two candidate lines before filling, and the param after set_default_doc *)
Definition rest_key (name : str) : str := if is_return name then L "returns" else L "param " ++ name.
Definition rest_key_typ (name : str) : str := if is_return name then L "rtype" else L "type " ++ name.

Definition rest_doc_line (name doc : str) : str := L ":" ++ rest_key name ++ L ": " ++ doc.
Definition rest_typ_line (name typ : str) : str := L ":" ++ rest_key_typ name ++ L ": ```" ++ typ ++ L "```".

Definition rest_raw_lines (name : str) (p : param) (emit_doc emit_type emit_default_doc : bool)
  : outcome (list str * param) :=
  do r1 <- (match (if emit_doc then truthy_fld (p_doc p) else None) with
            | Some _ => do dp <- sdd_doc name p emit_default_doc;
                        Ok (Some (rest_doc_line name (fst dp)), snd dp)
            | None => Ok (None, p)
            end);
  let p' := snd r1 in
  let l2 := match (if emit_type then truthy_fld (p_typ p') else None) with
            | Some t => Some (rest_typ_line name t)
            | None => None
            end in
  Ok (cat_options [fst r1; l2], p').

(* emit_param_str((name, _param), style, emit_doc, emit_type, word_wrap, emit_default_doc).
   The function starts with  _param = dict(_param) : set_default_doc mutates that private copy (the param
   threaded through the branches below); the caller's param is returned, unchanged, as second component *)
Definition emit_param_str (w : nat) (name : str) (p : param) (st : style)
           (emit_doc emit_type word_wrap emit_default_doc : bool) : outcome (str * param) :=
  match st with
  | Rest =>
    do lp <- rest_raw_lines name p emit_doc emit_type emit_default_doc;
    do filled <- mapM (fill_or_id word_wrap w) (fst lp);
    Ok (join [nl] (map (fun s => indent_all_but_first s 1 false) filled), p)
  | Numpydoc =>
    do l1 <- (match (if emit_type then truthy_fld (p_typ p) else None) with
              | Some t => do s <- fill_or_id word_wrap w (if is_return name then t else name ++ L " : " ++ t);
                          Ok (Some s)
              | None => Ok None
              end);
    do l2 <- (match (if emit_doc then truthy_fld (p_doc p) else None) with
              | Some _ => do dp <- sdd_doc name p emit_default_doc;
                          do s <- fill_or_id word_wrap w (indent tab (fst dp));
                          Ok (Some s, snd dp)
              | None => Ok (None, p)
              end);
    Ok (join [nl] (filter nonempty (cat_options [l1; fst l2])), p)
  | Google =>
    let l1 := match truthy_fld (p_typ p) with
              | Some t => Some (if is_return name then L "  " ++ t ++ L ":"
                                else L "  " ++ name ++ L " (" ++ t ++ L "): ")
              | None => None
              end in
    do l2 <- (match (if emit_doc then truthy_fld (p_doc p) else None) with
              | Some _ => do dp <- sdd_doc name p emit_default_doc;
                          Ok (Some ((if is_return name then nl :: L "   " else []) ++ fst dp), snd dp)
              | None => Ok (None, p)
              end);
    Ok (concat (cat_options [l1; fst l2]), p)
  end.

(* ---- params of an IR as scalar-default params; None when some default is an AST node / other object ---- *)
Fixpoint params_of (l : list (str * gparam)) : option (list (str * param)) :=
  match l with
  | [] => Some []
  | (k, g) :: r =>
    match param_of_gparam g, params_of r with
    | Some p, Some r' => Some ((k, p) :: r')
    | _, _ => None
    end
  end.

Definition gparams_of (l : list (str * param)) : list (str * gparam) :=
  map (fun kp => (fst kp, gparam_of_param (snd kp))) l.

(* map an emitter over the items of the params OrderedDict, in order, collecting text and mutated params *)
Fixpoint emit_items {A} (f : str -> param -> outcome (A * param)) (l : list (str * param))
  : outcome (list A * list (str * param)) :=
  match l with
  | [] => Ok ([], [])
  | (k, p) :: r =>
    do sp <- f k p;
    do rest <- emit_items f r;
    Ok (fst sp :: fst rest, (k, snd sp) :: snd rest)
  end.

Definition arg_token (st : style) : str :=
  match st with
  | Rest => hd [] Extracted.arg_tokens_rest
  | Numpydoc => hd [] Extracted.arg_tokens_numpydoc
  | Google => hd [] Extracted.arg_tokens_google
  end.
Definition return_token (st : style) : str :=
  match st with
  | Rest => hd [] Extracted.return_tokens_rest
  | Numpydoc => hd [] Extracted.return_tokens_numpydoc
  | Google => hd [] Extracted.return_tokens_google
  end.

(* ---- emit.py:docstring(intermediate_repr, docstring_format, word_wrap, emit_default_doc) ---- *)
Definition emit_docstring (w : nat) (st : style) (word_wrap emit_default_doc : bool) (i : ir)
  : outcome (str * ir) :=
  match params_of (ir_params i) with
  | None => Err Unmodelled
  | Some ps =>
    do doc <- (match ir_doc i with
               | Missing => Err KeyError
               | FNone => if word_wrap then Err AttributeError else Ok (L "None")
               | Has d => fill_or_id word_wrap w d
               end);
    let nl0 := match st with Rest => [] | _ => [nl] end in
    let nl1 := match st with Numpydoc => [nl] | _ => [] end in
    do pl <- emit_items (fun k p => emit_param_str w k p st true true word_wrap emit_default_doc) ps;
    let param_lines := fst pl in
    let param_lines' := match param_lines, st with
                        | [], _ => param_lines
                        | _, Rest => param_lines
                        | _, _ => arg_token st :: param_lines
                        end in
    let params := join (nl :: match st with Rest => [nl] | _ => [] end) param_lines' in
    do ret <- (match ir_returns i with
               | Has g =>
                 match param_of_gparam g with
                 | None => Err Unmodelled
                 | Some p =>
                   do sp <- emit_param_str w (L "return_type") p st true true word_wrap emit_default_doc;
                   Ok ((match st with Rest => [] | _ => nl :: return_token st end) ++ [nl] ++ fst sp,
                       Has (gparam_of_param (snd sp)))
                 end
               | other => Ok ([], other)
               end);
    (* nothing is written into the caller's IR: emit_param_str works on copies of the param dicts *)
    Ok ([nl] ++ doc ++ [nl; nl] ++ nl0 ++ params ++ [nl] ++ fst ret ++ [nl] ++ nl1, i)
  end.


(* ---- the shape of emit.docstring(ir, "rest", word_wrap=False): blocks and their text ----
   (stated here so that the parser-side layers can state scan/print lemmas against [text_of_blocks];
   proofs/DocEmitFacts.v proves  emit_docstring w Rest false edd i = text_of_blocks (rest_blocks_of_ir edd i)) *)
Record rest_block : Type := mkBlock {
  rb_name : str;
  rb_doc : option str;      (* the prose as written: after set_default_doc *)
  rb_typ : option str
}.

Definition block_lines (b : rest_block) : list str :=
  cat_options [option_map (rest_doc_line (rb_name b)) (rb_doc b);
               option_map (rest_typ_line (rb_name b)) (rb_typ b)].

(* word_wrap off still passes every line through indent_all_but_first (it indents the continuation
   lines of a multi-line prose); on a single line starting with ":" it is the identity *)
Definition rest_entry_text (b : rest_block) : str :=
  join [nl] (map (fun s => indent_all_but_first s 1 false) (block_lines b)).

Definition text_of_blocks (summary : str) (params : list rest_block) (ret : option rest_block) : str :=
  [nl] ++ summary ++ [nl; nl] ++ join [nl; nl] (map rest_entry_text params) ++ [nl]
  ++ match ret with Some b => [nl] ++ rest_entry_text b | None => [] end ++ [nl].

(* the block of one entry, and the entry as set_default_doc leaves it *)
Definition rest_block_of (emit_default_doc : bool) (name : str) (p : param) : outcome (rest_block * param) :=
  do r1 <- (match truthy_fld (p_doc p) with
            | Some _ => do dp <- sdd_doc name p emit_default_doc; Ok (Some (fst dp), snd dp)
            | None => Ok (None, p)
            end);
  Ok (mkBlock name (fst r1) (truthy_fld (p_typ (snd r1))), snd r1).

Definition rest_blocks_of_ir (emit_default_doc : bool) (i : ir)
  : outcome (str * list rest_block * option rest_block * ir) :=
  match params_of (ir_params i) with
  | None => Err Unmodelled
  | Some ps =>
    do doc <- (match ir_doc i with
               | Missing => Err KeyError
               | FNone => Ok (L "None")
               | Has d => Ok d
               end);
    do pl <- emit_items (rest_block_of emit_default_doc) ps;
    do ret <- (match ir_returns i with
               | Has g =>
                 match param_of_gparam g with
                 | None => Err Unmodelled
                 | Some p => do bp <- rest_block_of emit_default_doc (L "return_type") p;
                             Ok (Some (fst bp), Has (gparam_of_param (snd bp)))
                 end
               | other => Ok (None, other)
               end);
    Ok (doc, fst pl, fst ret, i)
  end.

(* ---- emitter_utils.py:to_docstring ---- *)

(* abs(indent_level - 1) for indent_level >= 0 *)
Definition abs_pred (n : nat) : nat := match n with O => 1 | S k => k end.

(* the inner _fill(s) *)
Definition td_fill (w : nat) (word_wrap : bool) (indent_level : nat) (s : str) : outcome str :=
  if word_wrap && existsb (fun line => Nat.ltb w (List.length line)) (splitlines s)
  then do f <- fill w s; Ok (indent_all_but_first f (indent_level + 1) true)
  else Ok s.

(* the inner _joiner(__param, param_type) *)
Definition td_joiner (w : nat) (word_wrap : bool) (indent_level : nat) (a b : option str) : outcome (option str) :=
  let sep := repeat_str tab indent_level in
  match a, b with
  | Some a', None => do f <- td_fill w word_wrap indent_level a'; Ok (Some (f ++ [nl] ++ sep))
  | None, _ => Ok None
  | Some a', Some b' =>
    do fa <- td_fill w word_wrap indent_level (replace [nl] (nl :: sep) a');
    do fb <- td_fill w word_wrap indent_level (replace [nl] (nl :: sep) b');
    Ok (Some (fa ++ [nl] ++ sep ++ fb ++ [nl] ++ sep))
  end.

(* the inner _param2docstring_param((name, _param), "rest", emit_default_doc, indent_level, emit_types);
   the second component is the private copy  dict(_param)  as the function leaves it *)
Definition td_param (w : nat) (word_wrap emit_default_doc emit_types : bool) (indent_level : nat)
           (name : str) (p : param) : outcome (option str * param) :=
  do p1 <- (match p_doc p with
            | Missing => Ok p
            | d => do r <- extract_default_fld d true default_announces None emit_default_doc;
                   Ok (match snd r with
                       | Some v => mkParam (p_doc p) (p_typ p) (Some v)
                       | None => p
                       end)
            end);
  do a <- (match truthy_fld (p_doc p1) with
           | Some _ =>
             do dp <- sdd_doc name p1 emit_default_doc;
             let doc' := multiline_noquote (indent_all_but_first (fst dp) (abs_pred indent_level) false) in
             let p3 := mkParam (Has doc') (p_typ (snd dp)) (p_default (snd dp)) in
             do sp <- emit_param_str w name p3 Rest true false word_wrap emit_default_doc;
             Ok (Some (fst sp), snd sp)
           | None => Ok (None, p1)
           end);
  let p4 := snd a in
  do b <- (match p_typ p4 with
           | Has _ =>
             if emit_types then
               do sp <- emit_param_str w name p4 Rest false true word_wrap emit_default_doc;
               Ok (Some (fst sp), snd sp)
             else Ok (None, p4)
           | _ => Ok (None, p4)
           end);
  do j <- td_joiner w word_wrap indent_level (fst a) (fst b);
  Ok (j, snd b).

Definition gparam_is_empty (g : gparam) : bool :=
  match g_doc g, g_typ g, g_default g with
  | Missing, Missing, None => true
  | _, _, _ => false
  end.

(* to_docstring(intermediate_repr, emit_default_doc, docstring_format, indent_level, emit_types,
                emit_separating_tab, word_wrap);  indent_level >= 0 *)
Definition to_docstring (w : nat) (i : ir) (emit_default_doc : bool) (st : style) (indent_level : nat)
           (emit_types emit_separating_tab word_wrap : bool) : outcome (str * ir) :=
  match st with
  | Rest =>
    match params_of (ir_params i),
          (match ir_returns i with Has g => option_map Some (param_of_gparam g) | _ => Some None end) with
    | Some ps, Some ret =>
      let sep := if emit_separating_tab then repeat_str tab indent_level else [] in
      let p2dp := td_param w word_wrap emit_default_doc emit_types indent_level in
      do header <- (match truthy_fld (ir_doc i) with
                    | Some d =>
                      do f <- td_fill w word_wrap indent_level d;
                      Ok ([nl] ++ indent sep f
                          ++ (if endswith [nl] (rstrip_chars (L " " ++ [tabch]) d) then [] else [nl])
                          ++ sep)
                    | None => Ok []
                    end);
      do pl <- (match ps with
                | [] => Ok ([], ps)
                | _ =>
                  do r <- emit_items (fun k p => do op <- p2dp k p;
                                                 Ok (match fst op with Some s => s | None => [] end, snd op)) ps;
                  Ok ([nl] ++ sep ++ join (nl :: sep) (filter nonempty (fst r)) ++ [nl] ++ sep, snd r)
                end);
      do rt <- (match ret with
                | Some p =>
                  if gparam_is_empty (gparam_of_param p) then Ok ([], ir_returns i)
                  else
                    do op <- p2dp (L "return_type") p;
                    match fst op with
                    | None => Ok ([], ir_returns i)      (* no prose: renders to None, nothing is emitted *)
                    | Some s => if nonempty s then Ok (rstrip s ++ [nl] ++ sep, Has (gparam_of_param (snd op)))
                                else Ok ([], ir_returns i)
                    end
                | None => Ok ([], ir_returns i)
                end);
      (* _param2docstring_param works on  _param = dict(_param) : whatever td_param wrote (extracted default,
         default sentence, re-laid prose) stays in the copy; the caller's IR is returned as it was *)
      Ok (header ++ fst pl ++ fst rt, i)
    | _, _ => Err Unmodelled
    end
  | _ => Err NotImplementedError
  end.

(* ---- wire ---- *)
Definition dec_style (e : sexp) : option style :=
  if is_sym "rest" e then Some Rest
  else if is_sym "numpydoc" e then Some Numpydoc
  else if is_sym "google" e then Some Google
  else None.

Definition opt_bind' {A B} (x : option A) (f : A -> option B) : option B :=
  match x with Some a => f a | None => None end.
Notation "'let?' x := e1 'in' e2" := (opt_bind' e1 (fun x => e2)) (at level 200, x pattern, e1 at level 100, e2 at level 200).

(* FAMILY: run_docemit *)
Definition run_docemit (fn : sexp) (args : list sexp) : option sexp :=
  if is_sym "emit_param_str" fn then
    match args with
    | [w; name; p; st; ed; et; ww; edd] =>
      let? w := dec_nat w in
      let? name := dec_str name in
      let? p := dec_param p in
      let? st := dec_style st in
      let? ed := dec_bool ed in
      let? et := dec_bool et in
      let? ww := dec_bool ww in
      let? edd := dec_bool edd in
      Some (enc_outcome (enc_pair enc_str enc_param) (emit_param_str w name p st ed et ww edd))
    | _ => None
    end
  else if is_sym "emit_docstring" fn then
    match args with
    | [w; st; ww; edd; i] =>
      let? w := dec_nat w in
      let? st := dec_style st in
      let? ww := dec_bool ww in
      let? edd := dec_bool edd in
      let? i := dec_ir i in
      Some (enc_outcome (enc_pair enc_str enc_ir) (emit_docstring w st ww edd i))
    | _ => None
    end
  else if is_sym "fill_at" fn then
    (* textwrap.fill(s, width=w), asked at an explicit width *)
    match args with
    | [w; t] =>
      let? w := dec_nat w in
      let? t := dec_str t in
      Some (enc_outcome enc_str (fill w t))
    | _ => None
    end
  else if is_sym "to_docstring" fn then
    match args with
    | [w; i; edd; st; il; et; est; ww] =>
      let? w := dec_nat w in
      let? i := dec_ir i in
      let? edd := dec_bool edd in
      let? st := dec_style st in
      let? il := dec_nat il in
      let? et := dec_bool et in
      let? est := dec_bool est in
      let? ww := dec_bool ww in
      Some (enc_outcome (enc_pair enc_str enc_ir) (to_docstring w i edd st il et est ww))
    | _ => None
    end
  else None.
