(* SyncProps: doctrans/sync_properties.py (sync_property, sync_properties), source_transformer.ast_parse,
   ast_utils.it2literal / set_value, and the final emit.file as an event list.  Definitions only.

   External code and how it enters
   * to_code (ast.unparse) of an annotation and ast.parse of the wrapped text are tables supplied with the
     request ([sp_unparse], [sp_parse]); the text between them, [str.format] with the single field
     [output_param], is the pure function [format_wrap].  A lookup that fails is [Err Unmodelled].
   * eval(compile(input_ast)) : the value bound to the parameter is supplied ([evald]).
   * ast.parse of the two files : the caller supplies the parsed modules.
   * to_code + black on the final tree : [emit_file] raises what ast.unparse raises on a raw str default,
     declines trees holding an ast.arg where a statement or default belongs (whether that text parses is
     not modelled) and otherwise is one write event carrying the tree.

   Aliasing.  The node found in the input tree is inserted into the output tree as the same object.
   Later mutations of it (a wrap of the same input parameter again, a default attached by a later
   find_in_ast) therefore show in the output tree: they are applied to both trees by identity
   ([set_ann_by_id], [apply_dlog]).  A FunctionDef/ClassDef moved into the output tree by a pair that is
   not the last one would be shared as a container; that is declined ([Err Unmodelled]). *)
From Coq Require Import List Ascii Bool Arith ZArith.
From Coq Require String.
Import String.StringSyntax.
From DT Require Import PyStr Sexp PyVal PureUtils PyAst Locate.
Import ListNotations.

(* ------------------------------------------------------------------ inspect.cleandoc, ast_parse *)
(* text the model of cleandoc covers: printable ASCII and newline (expandtabs is the identity) *)
Definition doc_char_ok (c : ascii) : bool :=
  ascii_eqb c nl || (Nat.leb 32 (code c) && Nat.ltb (code c) 127).

Definition indent_of (line : str) : option nat :=
  match lstrip line with
  | [] => None                                   (* blank line: ignored for the margin *)
  | rest => Some (List.length line - List.length rest)
  end.

Fixpoint min_margin (lines : list str) (acc : option nat) : option nat :=
  match lines with
  | [] => acc
  | l :: r =>
    match indent_of l, acc with
    | Some n, Some m => min_margin r (Some (Nat.min n m))
    | Some n, None => min_margin r (Some n)
    | None, _ => min_margin r acc
    end
  end.

Definition is_empty {A} (s : list A) : bool := match s with [] => true | _ => false end.

(* inspect.py:cleandoc *)
Definition cleandoc (doc : str) : str :=
  match split_nl doc with
  | [] => []
  | first :: rest =>
    let rest' := match min_margin rest None with
                 | Some m => map (skipn m) rest
                 | None => rest
                 end in
    let lines := lstrip first :: rest' in
    let lines := rev (dropwhile is_empty (rev lines)) in
    let lines := dropwhile is_empty lines in
    join [nl] lines
  end.

(* source_transformer.py:ast_parse, the docstring re-emission on a Module *)
Definition ast_parse_remit (m : module) : outcome module :=
  match m with
  | SExpr (EConst (VStr s)) :: rest =>
    if forallb doc_char_ok s then
      Ok (SExpr (EConst (VStr (nl :: tab ++ reindent (cleandoc s) 1 ++ nl :: tab))) :: rest)
    else Err Unmodelled
  | _ => Ok m
  end.

(* ast_parse(source) with the default skip_docstring_remit=False *)
Definition ast_parse_remitting (root : path) (m : module) : outcome amodule :=
  if supported m then (do m' <- ast_parse_remit m; Ok (annotate_at root m')) else Err Unmodelled.

(* ast_parse(source, skip_docstring_remit=True): what sync_properties calls (as of /repo 3e792de) *)
Definition ast_parse (root : path) (m : module) : outcome amodule :=
  if supported m then Ok (annotate_at root m) else Err Unmodelled.

(* ------------------------------------------------------------------ str.format with one keyword *)
Definition lbrace := ch 123.
Definition rbrace := ch 125.

Fixpoint split_at_rbrace (s : str) (acc : str) : option (str * str) :=
  match s with
  | [] => None
  | c :: r => if ascii_eqb c rbrace then Some (rev acc, r) else split_at_rbrace r (c :: acc)
  end.

Definition is_ident_char (c : ascii) : bool := isalnum_c c || ascii_eqb c (ch 95).

(* output_param_wrap.format(output_param=v) *)
Fixpoint format_wrap_aux (fuel : nat) (t v acc : str) : outcome str :=
  match fuel with
  | O => Err Unmodelled
  | S fuel' =>
    match t with
    | [] => Ok (rev acc)
    | c :: r =>
      if ascii_eqb c lbrace then
        match r with
        | c2 :: r2 =>
          if ascii_eqb c2 lbrace then format_wrap_aux fuel' r2 v (lbrace :: acc)
          else
            match split_at_rbrace r [] with
            | None => Err ValueError                         (* expected a closing brace before end of string *)
            | Some (fld, rest) =>
              if str_eqb fld (L "output_param") then format_wrap_aux fuel' rest v (rev v ++ acc)
              else if is_empty fld || forallb isdigit fld then Err IndexError   (* positional field, no positional args *)
              else if forallb (fun x => is_ident_char x || ascii_eqb x sp) fld then Err KeyError
              else Err Unmodelled                            (* conversions, format specs, attribute/index access *)
            end
        | [] => Err ValueError                               (* single opening brace *)
        end
      else if ascii_eqb c rbrace then
        match r with
        | c2 :: r2 => if ascii_eqb c2 rbrace then format_wrap_aux fuel' r2 v (rbrace :: acc) else Err ValueError
        | [] => Err ValueError
        end
      else format_wrap_aux fuel' r v (c :: acc)
    end
  end.

Definition format_wrap (t v : str) : outcome str := format_wrap_aux (S (List.length t)) t v [].

(* ------------------------------------------------------------------ externals *)
Record sp_env : Type := mkEnv {
  sp_unparse : list (expr * str);              (* to_code(annotation) *)
  sp_parse : list (str * outcome expr)         (* ast.parse(text).body[0].value, or the exception *)
}.

Definition ext_unparse (env : sp_env) (e : expr) : outcome str :=
  match List.find (fun p => expr_eqb (fst p) e) (sp_unparse env) with
  | Some p => Ok (snd p)
  | None => Err Unmodelled
  end.

Definition ext_parse (env : sp_env) (s : str) : outcome expr :=
  match List.find (fun p => str_eqb (fst p) s) (sp_parse env) with
  | Some p => snd p
  | None => Err Unmodelled
  end.

(* replacement_node.annotation = ast.parse(wrap.format(output_param=to_code(annotation))).body[0].value *)
Definition wrap_annotation (env : sp_env) (w : str) (ann : expr) : outcome expr :=
  do code <- ext_unparse env ann;
  do text <- format_wrap w code;
  ext_parse env text.

(* ------------------------------------------------------------------ eval mode: it2literal *)
(* what  local[input_param]  was after eval(compile(input_ast)) *)
Inductive evald : Type :=
| EvSeq (l : list pyval)      (* a list or tuple of scalars *)
| EvStr (s : str)             (* a str: it has len() and indexes to its characters *)
| EvNoLen                     (* a scalar without len(): int, float, bool, None *)
| EvErr (e : err)             (* compile/eval raised, or the name is not bound (KeyError) *)
| EvOther.                    (* anything else: not modelled *)

(* ast_utils.py:set_value under PY_GTE_3_8 : a Constant; a str of length > 2 wrapped in matching quote
   marks loses them *)
Definition set_value (v : pyval) : expr :=
  match v with
  | VStr s =>
    match s, last_c s with
    | c :: _, Some d =>
      if Nat.ltb 2 (List.length s)
         && ((ascii_eqb c (ch 34) && ascii_eqb d (ch 34)) || (ascii_eqb c (ch 39) && ascii_eqb d (ch 39)))
      then EConst (VStr (removelast (tl s)))
      else EConst v
    | _, _ => EConst v
    end
  | _ => EConst v
  end.

(* ast_utils.py:it2literal (Index is the identity under PY_GTE_3_9) *)
Definition it2literal (it : evald) : outcome expr :=
  let lit (vs : list pyval) : outcome expr :=
      match vs with
      | [] => Err IndexError                                (* it[0] *)
      | [v] => Ok (ESub (EName (L "Literal")) (set_value v))
      | _ => Ok (ESub (EName (L "Literal")) (ETuple (map set_value vs)))
      end in
  match it with
  | EvSeq vs => lit vs
  | EvStr s => lit (map (fun c => VStr [c]) s)
  | EvNoLen => Err TypeError                                (* len(it) *)
  | EvErr e => Err e
  | EvOther => Err Unmodelled
  end.

(* ------------------------------------------------------------------ identity-directed updates *)
Fixpoint map_stmts (f : astmt -> astmt) (s : astmt) : astmt :=
  f (match s with
     | AFunc i l n a b d r => AFunc i l n a (map (map_stmts f) b) d r
     | AClass i l n bs b d => AClass i l n bs (map (map_stmts f) b) d
     | AOther i t h bl => AOther i t h (map (map (map_stmts f)) bl)
     | _ => s
     end).

Definition set_arg_ann (i : path) (e : expr) (a : aarg) : aarg :=
  if path_eqb (aa_id a) i then mkAArg (aa_id a) (aa_loc a) (aa_idx a) (aa_default a) (aa_name a) (Some e) else a.

Definition set_stmt_ann (i : path) (e : expr) (s : astmt) : astmt :=
  match s with
  | AAnnAssign j l t a v => if path_eqb j i then AAnnAssign j l t e v else s
  | _ => s
  end.

(* node.annotation = e  for the object with identity i, wherever it sits in the tree *)
Definition set_ann_by_id (i : path) (e : expr) (m : amodule) : amodule :=
  map (fun s => map_stmts (set_stmt_ann i e) (map_args_stmt (set_arg_ann i e) s)) m.

Definition is_container (n : anode) : bool :=
  match n with
  | NStmt (AFunc _ _ _ _ _ _ _) => true
  | NStmt (AClass _ _ _ _ _ _) => true
  | _ => false
  end.

(* ------------------------------------------------------------------ sync_property *)
(* the wrap step; returns the replacement node and both trees after the in-place assignment *)
Definition apply_wrap (env : sp_env) (wrap : option str) (n : anode) (input_ast output_ast : amodule)
  : outcome (anode * amodule * amodule) :=
  match wrap with
  | None => Ok (n, input_ast, output_ast)
  | Some w =>
    match n with
    | NArg a =>
      match aa_ann a with
      | None => Ok (n, input_ast, output_ast)
      | Some ann =>
        do e <- wrap_annotation env w ann;
        Ok (NArg (mkAArg (aa_id a) (aa_loc a) (aa_idx a) (aa_default a) (aa_name a) (Some e)),
            set_ann_by_id (aa_id a) e input_ast, set_ann_by_id (aa_id a) e output_ast)
      end
    | NStmt (AArgS a) =>
      match aa_ann a with
      | None => Ok (n, input_ast, output_ast)
      | Some ann =>
        do e <- wrap_annotation env w ann;
        Ok (NStmt (AArgS (mkAArg (aa_id a) (aa_loc a) (aa_idx a) (aa_default a) (aa_name a) (Some e))),
            set_ann_by_id (aa_id a) e input_ast, set_ann_by_id (aa_id a) e output_ast)
      end
    | NStmt (AAnnAssign i l t ann v) =>
      do e <- wrap_annotation env w ann;
      match i with
      | [] => Ok (NStmt (AAnnAssign i l t e v), input_ast, output_ast)     (* the fresh node of eval mode *)
      | _ => Ok (NStmt (AAnnAssign i l t e v), set_ann_by_id i e input_ast, set_ann_by_id i e output_ast)
      end
    | _ => Err NotImplementedError                  (* no attribute `annotation` *)
    end
  end.

(* sync_properties.py:sync_property.  [is_last]: no pair follows (see Aliasing above).
   Returns (gen_ast, input_ast after the call). *)
Definition sync_property (env : sp_env) (input_eval : bool) (input_param : str) (input_ast : amodule)
           (ev : evald) (output_param : str) (wrap : option str) (output_ast : amodule) (is_last : bool)
  : outcome (amodule * amodule) :=
  let search := strip_split [ch 46] output_param in
  do found <-
     (if input_eval then
        if negb (Nat.eqb (count [ch 46] input_param) 0) then Err NotImplementedError
        else
          do lit <- it2literal ev;
          Ok (NStmt (AAnnAssign [] None (EName (last search [])) lit None), input_ast, output_ast)
      else
        do r <- find_in_ast_log (strip_split [ch 46] input_param) input_ast;
        match fst r with
        | None => Err AssertionError                         (* assert replacement_node is not None *)
        | Some n => Ok (n, apply_dlog (snd r) input_ast, apply_dlog (snd r) output_ast)
        end);
  let '(n, input1, output1) := found in
  do wrapped <- apply_wrap env wrap n input1 output1;
  let '(repl, input2, output2) := wrapped in
  if is_container repl && negb is_last then Err Unmodelled
  else if const_hazard search output2 then Err Unmodelled
  else
    do r <- rewrite_visit search repl output2;
    if rw_replaced (snd r) then
      match fst r with
      | NMod gen_ast => Ok (gen_ast, input2)
      | _ => Err Unmodelled
      end
    else Err AssertionError.                                  (* assert rewrite_at_query.replaced is True *)

(* ------------------------------------------------------------------ emit.file on the final tree *)
Inductive file : Type := FInput | FOutput.

Inductive event : Type :=
| EvWrite (f : file) (tree : amodule).      (* open(f, "wt") + write(to_code(tree) through black) + close *)

Definition default_is_raw (d : adefault) : bool := match d with DRaw _ => true | _ => false end.
Definition default_is_arg (d : adefault) : bool := match d with DArg _ => true | _ => false end.

Fixpoint stmt_exists (p : astmt -> bool) (s : astmt) : bool :=
  p s || match s with
         | AFunc _ _ _ _ b _ _ => existsb (stmt_exists p) b
         | AClass _ _ _ _ b _ => existsb (stmt_exists p) b
         | AOther _ _ _ bl => existsb (fun b => existsb (stmt_exists p) b) bl
         | _ => false
         end.

Definition has_raw_default (m : amodule) : bool :=
  existsb (stmt_exists (fun s => match s with
                                 | AFunc _ _ _ a _ _ _ => existsb default_is_raw (aar_defaults a)
                                 | _ => false
                                 end)) m.

Definition has_misplaced_arg (m : amodule) : bool :=
  existsb (stmt_exists (fun s => match s with
                                 | AFunc _ _ _ a _ _ _ => existsb default_is_arg (aar_defaults a)
                                 | AArgS _ => true
                                 | _ => false
                                 end)) m.

(* emit.py:file (mode wt, through black): the source is computed before anything is opened *)
Definition emit_file (tree : amodule) : outcome (list event) :=
  if has_raw_default tree && negb (has_misplaced_arg tree) then Err AttributeError   (* ast.unparse on a str *)
  else if has_raw_default tree || has_misplaced_arg tree then Err Unmodelled
  else Ok [EvWrite FOutput tree].

(* ------------------------------------------------------------------ sync_properties *)
(* the  for (input_param, output_param) in zip(...)  loop; [evs] lines up with the pairs *)
Fixpoint sync_loop (env : sp_env) (input_eval : bool) (wrap : option str)
         (pairs : list (str * str * evald)) (input_ast output_ast : amodule) : outcome (amodule * amodule) :=
  match pairs with
  | [] => Ok (output_ast, input_ast)
  | (ip, op, ev) :: rest =>
    do r <- sync_property env input_eval ip input_ast ev op wrap output_ast (is_empty rest);
    sync_loop env input_eval wrap rest (snd r) (fst r)
  end.

Fixpoint zip3 (a b : list str) (c : list evald) : list (str * str * evald) :=
  match a, b with
  | x :: a', y :: b' =>
    match c with
    | z :: c' => (x, y, z) :: zip3 a' b' c'
    | [] => (x, y, EvOther) :: zip3 a' b' []
    end
  | _, _ => []
  end.

(* sync_properties.py:sync_properties on the two parsed files.  Result: the events that happened and how
   the call ended.  Nothing is written unless the loop and emit.file's rendering both succeed. *)
Definition sync_properties (env : sp_env) (input_eval : bool) (input_m : module) (input_params : list str)
           (output_m : module) (output_params : list str) (wrap : option str) (evs : list evald)
  : list event * outcome unit :=
  let run : outcome (list event) :=
      do input_ast <- ast_parse [1] input_m;
      do output_ast <- ast_parse [0] output_m;
      if negb (Nat.eqb (List.length input_params) (List.length output_params)) then Err AssertionError
      else
        do r <- sync_loop env input_eval wrap (zip3 input_params output_params evs) input_ast output_ast;
        emit_file (fst r) in
  match run with
  | Ok evts => (evts, Ok tt)
  | Err e => ([], Err e)
  end.

(* ------------------------------------------------------------------ wire *)
Definition dec_outcome_expr (e : sexp) : option (outcome expr) :=
  match e with
  | SList [t; x] =>
    if is_sym "ok" t then option_map (fun v => Ok v) (dec_expr x)
    else if is_sym "err" t then
      (if is_sym "SyntaxError" x then Some (Err SyntaxError)
       else if is_sym "IndexError" x then Some (Err IndexError)
       else if is_sym "AttributeError" x then Some (Err AttributeError)
       else if is_sym "ValueError" x then Some (Err ValueError)
       else if is_sym "TypeError" x then Some (Err TypeError)
       else if is_sym "KeyError" x then Some (Err KeyError)
       else Some (Err Unmodelled))
    else None
  | _ => None
  end.

Definition dec_err (x : sexp) : err :=
  if is_sym "SyntaxError" x then SyntaxError
  else if is_sym "IndexError" x then IndexError
  else if is_sym "AttributeError" x then AttributeError
  else if is_sym "ValueError" x then ValueError
  else if is_sym "TypeError" x then TypeError
  else if is_sym "KeyError" x then KeyError
  else if is_sym "AssertionError" x then AssertionError
  else if is_sym "NotImplementedError" x then NotImplementedError
  else if is_sym "StopIteration" x then StopIteration
  else if is_sym "IOError" x then IOError
  else Unmodelled.

Definition dec_evald (e : sexp) : option evald :=
  if is_sym "nolen" e then Some EvNoLen
  else if is_sym "other" e then Some EvOther
  else match e with
       | SList [t; x] =>
         if is_sym "seq" t then option_map EvSeq (dec_list dec_pyval x)
         else if is_sym "str" t then option_map EvStr (dec_str x)
         else if is_sym "err" t then Some (EvErr (dec_err x))
         else None
       | _ => None
       end.

Definition dec_env (e : sexp) : option sp_env :=
  match e with
  | SList [u; p] =>
    match dec_list (dec_pair dec_expr dec_str) u, dec_list (dec_pair dec_str dec_outcome_expr) p with
    | Some u', Some p' => Some (mkEnv u' p')
    | _, _ => None
    end
  | _ => None
  end.

Definition enc_event (e : event) : sexp :=
  match e with
  | EvWrite FOutput t => SList [sym "write"; enc_amodule false t]
  | EvWrite FInput t => SList [sym "write-input"; enc_amodule false t]
  end.

(* FAMILY: run_syncprops *)
Definition run_syncprops (fn : sexp) (args : list sexp) : option sexp :=
  if is_sym "ast_parse" fn then
    match args with
    | [m] => let? m := dec_module m in Some (enc_outcome (enc_amodule true) (ast_parse_remitting [] m))
    | _ => None
    end
  else if is_sym "format_wrap" fn then
    match args with
    | [t; v] => let? t := dec_str t in let? v := dec_str v in Some (enc_outcome enc_str (format_wrap t v))
    | _ => None
    end
  else if is_sym "it2literal" fn then
    match args with
    | [e] => let? e := dec_evald e in Some (enc_outcome enc_expr (it2literal e))
    | _ => None
    end
  else if is_sym "cleandoc" fn then
    match args with
    | [s] => let? s := dec_str s in
             Some (if forallb doc_char_ok s then enc_outcome enc_str (Ok (cleandoc s)) else unmodelled)
    | _ => None
    end
  else if is_sym "sync_properties" fn then
    match args with
    | [env; ev; im; ips; om; ops; w; evs] =>
      let? env := dec_env env in
      let? ev := dec_bool ev in
      let? im := dec_module im in
      let? ips := dec_list dec_str ips in
      let? om := dec_module om in
      let? ops := dec_list dec_str ops in
      let? w := dec_option dec_str w in
      let? evs := dec_list dec_evald evs in
      let r := sync_properties env ev im ips om ops w evs in
      Some (match snd r with
            | Err Unmodelled => unmodelled
            | _ => SList [enc_list enc_event (fst r); enc_outcome (fun _ : unit => sym "unit") (snd r)]
            end)
    | _ => None
    end
  else None.
