(* EmitAst: doctrans/emit.py (class_, function, argparse_function), the ast_utils helpers they
   use (param2ast, _generic_param2ast, param2argparse_param, _resolve_arg, _parse_node_for_arg,
   infer_type_and_default and its three helpers, set_value, set_arg, set_slice, get_value) and
   emitter_utils (get_internal_body, _make_call_meth, RewriteName, ast_parse_fix), transcribed as they
   are over PyAst / IR.  Definitions only.

   Boundaries (explicit inputs, recorded by the harness from the very call being compared):
   - tds : what the call to  to_docstring  returned (text), or the exception it raised.  to_docstring works on
           copies of the parameter dicts: it leaves the IR it is given as it found it, so the emitters read
           the IR they were handed (the correspondence check compares the caller's IR after every call);
   - ds  : what the call to  emit.docstring  returned inside argparse_function;
   - pt  : the parse table: for finitely many source strings, what  ast.parse(s).body[0].value  is
           (Some e), or that it is a SyntaxError (None).  Strings inside TyExpr's fragment are parsed by
           the model itself (parse_ty); the table is consulted for the rest; absent = Unmodelled. *)
From Coq Require Import List Ascii Bool Arith ZArith.
From Coq Require String.
Import String.StringSyntax.
From DT Require Import PyStr Sexp PyVal Extracted TyExpr PureUtils Defaults PyAst IR Fill.
Import ListNotations.

(* ------------------------------------------------------------------ small utilities *)
Fixpoint map_outcome {A B} (f : A -> outcome B) (l : list A) : outcome (list B) :=
  match l with
  | [] => Ok []
  | x :: r => do y <- f x; do ys <- map_outcome f r; Ok (y :: ys)
  end.

Definition opt_str_eqb (a b : option str) : bool := option_eqb str_eqb a b.

(* d.get(k) / d[k] views of an IR field *)
Definition fld_get_opt {A} (f : fld A) : option A := fget f.

(* `a or d[k]` for an optional-string option and a dict field: falsy = None or the empty string *)
Definition py_or (a : option str) (b : fld str) : outcome (option str) :=
  match a with
  | Some (c :: s) => Ok (Some (c :: s))
  | _ => match b with
         | Missing => Err KeyError
         | FNone => Ok None
         | Has s => Ok (Some s)
         end
  end.

(* `x == y` between a dict field known to be present and an optional string *)
Definition fld_eq_opt (f : fld str) (o : option str) : bool :=
  match f, o with
  | FNone, None => true
  | Has a, Some b => str_eqb a b
  | _, _ => false
  end.

(* ------------------------------------------------------------------ ast.parse on code strings *)
Definition ptable := list (str * option expr).

Fixpoint pt_lookup (pt : ptable) (s : str) : option (option expr) :=
  match pt with
  | [] => None
  | (k, v) :: r => if str_eqb k s then Some v else pt_lookup r s
  end.

Definition is_const_word (s : str) : bool :=
  str_eqb s (L "None") || str_eqb s (L "True") || str_eqb s (L "False").

(* a.b.c as Attribute(Attribute(Name a, b), c) *)
Definition chain_expr (parts : list str) : option expr :=
  match parts with
  | [] => None
  | h :: r => if existsb is_const_word parts then None
              else Some (fold_left (fun e a => EAttr e a) r (EName h))
  end.

(* the tree ast.parse builds for a type expression of TyExpr's fragment *)
Fixpoint ty2expr (t : ty) : option expr :=
  let go := (fix go (l : list ty) : option (list expr) :=
               match l with
               | [] => Some []
               | x :: r => match ty2expr x, go r with
                           | Some a, Some b => Some (a :: b)
                           | _, _ => None
                           end
               end) in
  match t with
  | TName parts => chain_expr parts
  | TSub head args =>
    match chain_expr head, go args with
    | Some h, Some [a] => Some (ESub h a)
    | Some h, Some (a :: b :: r) => Some (ESub h (ETuple (a :: b :: r)))
    | _, _ => None
    end
  | TStrLit s => Some (EConst (VStr s))
  | TIntLit z => Some (if (z <? 0)%Z then EUnary (L "USub") (EConst (VInt (- z))) else EConst (VInt z))
  | TConst v => Some (EConst v)
  | TList elts => option_map EList (go elts)
  end.

Definition printable (c : ascii) : bool := Nat.leb 32 (code c) && Nat.leb (code c) 126.

(* a comma directly before a closing bracket (spaces ignored): X[a,] is a 1-tuple subscript to Python
   but the same as X[a] to parse_ty; such text is left to the table *)
Fixpoint comma_before_rb (s : str) (after_comma : bool) : bool :=
  match s with
  | [] => false
  | c :: r =>
    if ascii_eqb c (ch 93) && after_comma then true
    else if ascii_eqb c (ch 44) then comma_before_rb r true
    else if ascii_eqb c sp then comma_before_rb r after_comma
    else comma_before_rb r false
  end.

(* ast.parse(src).body[0].value *)
Definition parse_expr_src (pt : ptable) (src : str) : outcome expr :=
  match strip src with
  | [] => Err IndexError                      (* Module(body=[]).body[0] *)
  | _ =>
    if mem_c bt src && negb (mem_c sq src) && negb (mem_c dq src) then Err SyntaxError
    else match src with
         | c :: _ =>
           if ascii_eqb c sp || ascii_eqb c tabch then Err SyntaxError    (* unexpected indent *)
           else
             let by_table := match pt_lookup pt src with
                             | Some (Some e) => Ok e
                             | Some None => Err SyntaxError
                             | None => Err Unmodelled
                             end in
             if forallb printable src && negb (comma_before_rb src false) then
               match parse_ty src with
               | Some t => match ty2expr t with Some e => Ok e | None => by_table end
               | None => by_table
               end
             else by_table
         | [] => Err IndexError
         end
  end.

(* emitter_utils.ast_parse_fix *)
Definition ast_parse_fix (pt : ptable) (s : str) : outcome expr := parse_expr_src pt (bracket_fix s).

(* ------------------------------------------------------------------ ast_utils.set_value / set_arg / set_slice / get_value *)
Definition both_ends (q : ascii) (s : str) : bool :=
  match s, last_c s with
  | c :: _, Some d => ascii_eqb c q && ascii_eqb d q
  | _, _ => false
  end.

Definition set_value_str (s : str) : str :=
  if Nat.ltb 2 (List.length s) && (both_ends dq s || both_ends sq s)
  then slice s 1 (List.length s - 1) else s.

(* set_value(value) for a scalar (PY_GTE_3_8: always Constant) *)
Definition set_value (v : pyval) : expr :=
  EConst (match v with VStr s => VStr (set_value_str s) | _ => v end).

Definition set_arg (name : str) (ann : option expr) : arg := mkArg name ann.

(* PY_GTE_3_9 *)
Definition set_slice (e : expr) : expr := e.

(* what astwire writes for ast.Name(None, Load()) *)
Definition name_none : expr := EOpaque (L "<Name id=None>").

(* Python objects that defaults become inside infer_type_and_default *)
Inductive pyobj : Type :=
| OV (v : pyval)
| OSeq (tup : bool) (l : list pyobj)
| ODict (kv : list (pyobj * pyobj))
| ONode (e : expr).

Definition neg_float (r : str) : str :=
  if str_eqb r (L "nan") then r
  else match r with
       | c :: r' => if ascii_eqb c (ch 45) then r' else ch 45 :: r
       | [] => r
       end.

(* canonical source of an opaque expression that is certainly a Lambda node (lowest precedence, so the
   text of any other node that contains a lambda puts it in parentheses) *)
Definition opaque_is_lambda (s : str) : bool := startswith (L "lambda ") s || startswith (L "lambda:") s.

(* get_value on a Constant's value *)
Definition gv_const (v : pyval) : pyval := match v with VNone => VStr NoneStr | _ => v end.

(* get_value(node) for an expression node *)
Definition get_value_expr (e : expr) : outcome pyobj :=
  match e with
  | EConst v => Ok (OV (gv_const v))
  | EAttr e' _ => Ok (ONode e')                (* hasattr(node, "value") *)
  | ESub e' _ => Ok (ONode e')
  | EUnary op (EConst v) =>
    if str_eqb op (L "USub") then
      match v with
      | VInt z => Ok (OV (VInt (- z)))
      | VFloat r => Ok (OV (VFloat (neg_float r)))
      | VBool b => Ok (OV (VInt (if b then (-1) else 0)%Z))
      | _ => Err TypeError
      end
    else if str_eqb op (L "UAdd") then
      match v with
      | VInt z => Ok (OV (VInt z))
      | VFloat r => Ok (OV (VFloat r))
      | VBool b => Ok (OV (VInt (if b then 1 else 0)%Z))
      | _ => Err TypeError
      end
    else if str_eqb op (L "Not") then Ok (OV (VBool (negb (truthy v))))
    else if str_eqb op (L "Invert") then
      match v with
      | VInt z => Ok (OV (VInt (- z - 1)))
      | VBool b => Ok (OV (VInt (if b then (-2) else (-1))%Z))
      | _ => Err TypeError
      end
    else Err Unmodelled
  | EName id => Ok (OV (VStr id))
  | EOpaque s => if opaque_is_lambda s then Ok (ONode e) else Err Unmodelled    (* .value attribute? *)
  | _ => Ok (ONode e)
  end.

(* ------------------------------------------------------------------ ast.unparse on the fragment *)
Definition simple_text (s : str) : bool :=
  forallb printable s && negb (mem_c (ch 92) s) && negb (mem_c sq s && mem_c dq s).

Definition unparse_const (v : pyval) : option str :=
  match v with
  | VStr s => if simple_text s then Some (py_repr_str s) else None
  | VFloat r => if str_eqb r (L "inf") then Some (L "1e309")
                else if str_eqb r (L "-inf") then Some (L "-1e309")
                else if str_eqb r (L "nan") then None
                else Some r
  | _ => Some (py_str v)
  end.

(* may stand to the left of  .attr  [..]  (..)  or under a unary operator without parentheses *)
Definition is_atom (e : expr) : bool :=
  match e with
  | EName _ | EAttr _ _ | ESub _ _ | ECall _ _ _ => true
  | EConst (VStr _) => true
  | _ => false
  end.


Fixpoint sequence_opt {A} (l : list (option A)) : option (list A) :=
  match l with
  | [] => Some []
  | Some a :: r => option_map (cons a) (sequence_opt r)
  | None :: _ => None
  end.

Definition comma_sp : str := L ", ".

(* ast.unparse(e); None = declined.  An opaque expression is its own canonical text, but only at the
   top: nested, its precedence is unknown. *)
Fixpoint unparse_in (top : bool) (e : expr) : option str :=
  let items := (fix go (l : list expr) : list (option str) :=
                  match l with
                  | [] => []
                  | x :: r => unparse_in false x :: go r
                  end) in
  let kwitems := (fix go (l : list (option str * expr)) : list (option str) :=
                    match l with
                    | [] => []
                    | (k, v) :: r =>
                      (match k, unparse_in false v with
                       | Some k', Some v' => Some (k' ++ [ch 61] ++ v')
                       | None, Some v' => Some (L "**" ++ v')
                       | _, None => None
                       end) :: go r
                    end) in
  match e with
  | EConst v => unparse_const v
  | EName id => Some id
  | EAttr b a =>
    if is_atom b then option_map (fun s => s ++ [ch 46] ++ a) (unparse_in false b) else None
  | ESub b s =>
    if is_atom b then
      match unparse_in false b with
      | None => None
      | Some bs =>
        match s with
        | ETuple [] => Some (bs ++ L "[()]")
        | ETuple [x] => option_map (fun t => bs ++ [ch 91] ++ t ++ L ",]") (unparse_in false x)
        | ETuple es => option_map (fun l => bs ++ [ch 91] ++ join comma_sp l ++ [ch 93])
                                  (sequence_opt (items es))
        | _ => option_map (fun t => bs ++ [ch 91] ++ t ++ [ch 93]) (unparse_in false s)
        end
      end
    else None
  | ETuple [] => Some (L "()")
  | ETuple [x] => option_map (fun t => [ch 40] ++ t ++ L ",)") (unparse_in false x)
  | ETuple es => option_map (fun l => [ch 40] ++ join comma_sp l ++ [ch 41]) (sequence_opt (items es))
  | EList es => option_map (fun l => [ch 91] ++ join comma_sp l ++ [ch 93]) (sequence_opt (items es))
  | EDict ks vs =>
    if Nat.eqb (List.length ks) (List.length vs) then
      match sequence_opt (items ks), sequence_opt (items vs) with
      | Some k, Some v =>
        Some ([ch 123] ++ join comma_sp (map (fun p => fst p ++ L ": " ++ snd p) (combine k v)) ++ [ch 125])
      | _, _ => None
      end
    else None
  | ECall f args kws =>
    if is_atom f then
      match unparse_in false f, sequence_opt (items args ++ kwitems kws) with
      | Some fs, Some l => Some (fs ++ [ch 40] ++ join comma_sp l ++ [ch 41])
      | _, _ => None
      end
    else None
  | EUnary op x =>
    let operand_ok := is_atom x || match x with
                                   | EConst (VInt z) => (0 <=? z)%Z
                                   | EConst (VFloat r) => negb (startswith [ch 45] r)
                                   | EConst _ => true
                                   | _ => false
                                   end in
    if operand_ok then
      match unparse_in false x with
      | None => None
      | Some t =>
        if str_eqb op (L "USub") then Some (ch 45 :: t)
        else if str_eqb op (L "UAdd") then Some (ch 43 :: t)
        else if str_eqb op (L "Invert") then Some (ch 126 :: t)
        else if str_eqb op (L "Not") then Some (L "not " ++ t)
        else None
      end
    else None
  | EOpaque s => if top then Some s else None
  end.

Definition unparse_expr (e : expr) : outcome str :=
  match unparse_in true e with Some s => Ok s | None => Err Unmodelled end.

(* ------------------------------------------------------------------ ast.literal_eval, json.dumps *)
Fixpoint lit_eval_expr (e : expr) : outcome pyobj :=
  let go := (fix go (l : list expr) : outcome (list pyobj) :=
               match l with
               | [] => Ok []
               | x :: r => do a <- lit_eval_expr x; do b <- go r; Ok (a :: b)
               end) in
  match e with
  | EConst v => Ok (OV v)
  | EUnary op (EConst v) =>
    if str_eqb op (L "USub") then
      match v with
      | VInt z => Ok (OV (VInt (- z)))
      | VFloat r => Ok (OV (VFloat (neg_float r)))
      | _ => Err ValueError
      end
    else if str_eqb op (L "UAdd") then
      match v with
      | VInt z => Ok (OV (VInt z))
      | VFloat r => Ok (OV (VFloat r))
      | _ => Err ValueError
      end
    else Err ValueError
  | ETuple es => do l <- go es; Ok (OSeq true l)
  | EList es => do l <- go es; Ok (OSeq false l)
  | EDict ks vs =>
    if Nat.eqb (List.length ks) (List.length vs)
    then do k <- go ks; do v <- go vs; Ok (ODict (combine k v))
    else Err ValueError
  | EOpaque s => if opaque_is_lambda s then Err ValueError else Err Unmodelled
  | ECall (EName f) [] [] => if str_eqb f (L "set") then Err Unmodelled else Err ValueError
  | _ => Err ValueError
  end.

(* ast.literal_eval(s) for a str *)
Definition lit_eval_str (s : str) : outcome pyval :=
  if str_eqb s (L "(None)") then Ok VNone else literal_eval_scalar s.

Definition json_text (s : str) : bool :=
  forallb printable s && negb (mem_c (ch 92) s) && negb (mem_c dq s).

Fixpoint json_dumps (o : pyobj) : option str :=
  let items := (fix go (l : list pyobj) : list (option str) :=
                  match l with [] => [] | x :: r => json_dumps x :: go r end) in
  let kvitems := (fix go (l : list (pyobj * pyobj)) : list (option str) :=
                    match l with
                    | [] => []
                    | (OV (VStr k), v) :: r =>
                      (if json_text k then option_map (fun t => dq :: k ++ dq :: L ": " ++ t) (json_dumps v)
                       else None) :: go r
                    | _ :: r => None :: go r
                    end) in
  match o with
  | OV VNone => Some (L "null")
  | OV (VBool b) => Some (if b then L "true" else L "false")
  | OV (VInt z) => Some (dec_of_Z z)
  | OV (VFloat r) => if str_eqb r (L "inf") then Some (L "Infinity")
                     else if str_eqb r (L "-inf") then Some (L "-Infinity")
                     else if str_eqb r (L "nan") then Some (L "NaN") else Some r
  | OV (VStr s) => if json_text s then Some (dq :: s ++ [dq]) else None
  | OSeq _ l => option_map (fun t => [ch 91] ++ join comma_sp t ++ [ch 93]) (sequence_opt (items l))
  | ODict kv => option_map (fun t => [ch 123] ++ join comma_sp t ++ [ch 125]) (sequence_opt (kvitems kv))
  | ONode _ => None
  end.

Definition json_dumps_o (o : pyobj) : outcome str :=
  match json_dumps o with Some s => Ok s | None => Err Unmodelled end.

(* type(x).__name__ *)
Definition ast_class_name (e : expr) : outcome str :=
  match e with
  | EConst _ => Ok (L "Constant") | EName _ => Ok (L "Name") | EAttr _ _ => Ok (L "Attribute")
  | ESub _ _ => Ok (L "Subscript") | ETuple _ => Ok (L "Tuple") | EList _ => Ok (L "List")
  | EDict _ _ => Ok (L "Dict") | ECall _ _ _ => Ok (L "Call") | EUnary _ _ => Ok (L "UnaryOp")
  | EOpaque _ => Err Unmodelled
  end.

Definition pyobj_type_name (o : pyobj) : outcome str :=
  match o with
  | OV v => Ok (type_name v)
  | OSeq true _ => Ok (L "tuple")
  | OSeq false _ => Ok (L "list")
  | ODict _ => Ok (L "dict")
  | ONode e => ast_class_name e
  end.

(* ------------------------------------------------------------------ infer_type_and_default and helpers *)
Record itd : Type := mkItd {
  it_action : option str;
  it_default : pyobj;
  it_required : bool;
  it_typ : option str
}.

Definition o_none : pyobj := OV VNone.
Definition o_str (s : str) : pyobj := OV (VStr s).

(* ast_utils._infer_type_and_default_for_list_or_tuple *)
Definition infer_for_list_or_tuple (action : option str) (tup : bool) (l : list pyobj) (required : bool)
  : outcome itd :=
  match l with
  | [] => Ok (mkItd (Some (L "append")) o_none false None)
  | [x] => do tn <- pyobj_type_name x;
           Ok (mkItd (Some (L "append")) x false (Some tn))      (* get_value(x) is x for a non-node *)
  | _ => do s <- json_dumps_o (OSeq tup l);
         Ok (mkItd action (o_str s) required (Some (L "loads")))
  end.

(* ast_utils._parse_default_from_ast, for a node that is not a Constant *)
Definition parse_default_from_ast (action : option str) (n : expr) (required : bool) (typ : option str)
  : outcome itd :=
  match n with
  | EConst _ => Err Unmodelled      (* get_value then _to_code of a non-node: left out of the fragment *)
  | EDict _ _ | ETuple _ =>
    do s <- unparse_expr n; Ok (mkItd action (o_str s) required (Some (L "loads")))
  | EList [] => Ok (mkItd (Some (L "append")) o_none false None)
  | EList [x] =>
    do d <- get_value_expr x;
    do tn <- pyobj_type_name d;
    Ok (mkItd (Some (L "append")) d required (Some tn))
  | EList _ => do s <- unparse_expr n; Ok (mkItd action (o_str s) required (Some (L "loads")))
  | _ =>
    do _ok <- match n with
              | EOpaque t => if opaque_is_lambda t then Ok tt else Err Unmodelled
              | _ => Ok tt
              end;
    do s <- unparse_expr n;
    Ok (mkItd action (o_str (L "```" ++ paren_wrap_code s ++ L "```")) required None)
  end.

(* ast_utils.infer_type_and_default (with _infer_type_and_default_from_quoted inlined);
   fuel bounds the re-entry after unquoting (a value that is again code-quoted) *)
Fixpoint infer_type_and_default (fuel : nat) (pt : ptable) (action : option str) (default : pyobj)
         (typ : option str) (required : bool) : outcome itd :=
  match fuel with
  | O => Err Unmodelled
  | S f =>
    match default with
    | OV (VStr s) =>
      if code_quoted s then
        do e <- parse_expr_src pt (strip_chars [bt] s);
        do d1 <- get_value_expr e;                 (* get_value(get_value(Expr statement)) *)
        do d2 <- match d1 with
                 | OV (VInt _) | OV (VFloat _) => Ok d1
                 | OV (VStr t) =>
                   match lit_eval_str (strip_chars [bt] t) with
                   | Ok v => Ok (OV v)
                   | Err ValueError => Ok d1            (* suppress(ValueError) *)
                   | Err x => Err x
                   end
                 | OV _ => Ok d1                         (* literal_eval(True): ValueError, suppressed *)
                 | ONode n =>
                   match lit_eval_expr n with
                   | Ok o => Ok o
                   | Err ValueError => Ok d1
                   | Err x => Err x
                   end
                 | _ => Ok d1
                 end;
        infer_type_and_default f pt action d2 typ required
      else Ok (mkItd action default required (Some (L "str")))
    | OV VNone =>
      let keep := match typ with
                  | None => false
                  | Some t => contains (L "Optional") t
                              || str_eqb t (L "Any") || str_eqb t (L "pickle.loads") || str_eqb t (L "loads")
                  end in
      Ok (mkItd action default required (if keep then typ else None))
    | OV v => Ok (mkItd action default required (Some (type_name v)))
    | ONode n => parse_default_from_ast action n required typ
    | OSeq tup l => infer_for_list_or_tuple action tup l required
    | ODict _ => do s <- json_dumps_o default; Ok (mkItd action (o_str s) required (Some (L "loads")))
    end
  end.

Definition infer_fuel : nat := 3.

(* ------------------------------------------------------------------ _parse_node_for_arg / _resolve_arg *)
Record rstate : Type := mkRs {
  rs_required : option bool;
  rs_action : option str;
  rs_choices : option (list pyval);
  rs_typ : option str
}.

(* the value of a Constant element of a Tuple slice *)
Definition ty_const_value (t : ty) : option pyval :=
  match t with
  | TStrLit s => Some (VStr s)
  | TIntLit z => if (z <? 0)%Z then None else Some (VInt z)
  | TConst v => Some (gv_const v)
  | _ => None
  end.

Definition parse_node_for_arg (st : rstate) (n : tnode) : rstate :=
  match n with
  | NTuple elts =>
    match sequence_opt (map ty_const_value elts) with
    | Some vs => mkRs (rs_required st) (rs_action st) (Some vs) (rs_typ st)
    | None => st
    end
  | NName id =>
    let st1 :=
        if str_eqb id (L "Optional") then mkRs (Some false) (rs_action st) (rs_choices st) (rs_typ st)
        else if in_simple_types id then mkRs (rs_required st) (rs_action st) (rs_choices st) (Some id)
        else if negb (str_eqb id (L "Union"))
             then mkRs (rs_required st) (rs_action st) (rs_choices st) (Some Extracted.fallback_typ)
             else st in
    if str_eqb id (L "List") then mkRs (rs_required st1) (Some (L "append")) (rs_choices st1) (rs_typ st1)
    else st1
  | _ => st
  end.

Definition class_prefix : str := L "<class '".

Definition required_words : list str :=
  [L "str"; L "complex"; L "int"; L "float"; L "anystr"; L "list"; L "tuple"; L "dict"].

(* ast_utils._resolve_arg; the param's typ key is present on entry (setdefault in the caller) *)
Definition resolve_arg (action : option str) (choices : option (list pyval)) (name : str) (g : gparam)
           (required : bool) (typ : option str)
  : outcome (option str * option (list pyval) * bool * option str * gparam) :=
  match g_typ g with
  | Missing => Err KeyError
  | tf =>
    let tf1 := match tf with
               | Has t => if startswith class_prefix t
                          then Has (slice t (List.length class_prefix) (List.length t - 2)) else tf
               | _ => tf
               end in
    let g1 := mkG (g_doc g) tf1 (g_default g) in
    do st <-
       match tf1 with
       | FNone | Missing => Ok (mkRs None action choices None, required)     (* None is a key of simple_types *)
       | Has t =>
         if in_simple_types t then Ok (mkRs None action choices (Some t), required)
         else if str_eqb t (L "dict") || endswith (L "kwargs") name
         then Ok (mkRs None action choices (Some (L "loads")), negb (endswith (L "kwargs") name))
         else match t with
              | [] => Ok (mkRs None action choices typ, required)
              | _ => match parse_ty_fix t with
                     | Some tree => Ok (fold_left parse_node_for_arg (walk tree) (mkRs None action choices typ), required)
                     | None => Err Unmodelled
                     end
              end
       end;
    let '(s, required1) := st in
    let low := match rs_typ s with Some t => casefold t | None => [] end in
    let req := match rs_required s with
               | None => if existsb (str_eqb low) required_words then Some true else None
               | r => r
               end in
    Ok (rs_action s, rs_choices s, (match req with None => required1 | Some b => b end), rs_typ s, g1)
  end.

Definition fill_if (word_wrap : bool) (s : str) : outcome str :=
  if word_wrap then Fill.fill Extracted.line_length_default s else Ok s.

Definition pyobj_of_dval (d : dval) : outcome pyobj :=
  match d with
  | DV v => Ok (OV v)
  | _ => Err Unmodelled
  end.

Definition argparser : expr := EName (L "argument_parser").

Definition kw (k : String.string) (v : expr) : option str * expr := (Some (L k), v).
Arguments kw k%string_scope v.

(* ast_utils.param2argparse_param: the Expr statement.  It works on a copy of the param dict
   (`_param = dict(_param)`): setdefault("typ", "Any") / setdefault("doc", "") stay private to the call *)
Definition param2argparse_param (pt : ptable) (word_wrap emit_default_doc : bool) (name : str) (g : gparam)
  : outcome stmt :=
  let required0 := match g_default g with
                   | None | Some (DV VNone) => false
                   | Some _ => true
                   end in
  let g1 := match g_typ g with Missing => mkG (g_doc g) (Has (L "Any")) (g_default g) | _ => g end in
  do ra <- resolve_arg None None name g1 required0 (Some (L "str"));
  let '(action, choices, required, typ, g2) := ra in
  let g3 := match g_doc g2 with Missing => mkG (Has []) (g_typ g2) (g_default g2) | _ => g2 end in
  do ed <- extract_default_fld (g_doc g3) true default_announces None emit_default_doc;
  let '(doc, dflt_doc) := ed in
  do dflt_in <- match g_default g3 with
                | Some d => pyobj_of_dval d
                | None => Ok (match dflt_doc with Some v => OV v | None => o_none end)
                end;
  do r <- infer_type_and_default infer_fuel pt action dflt_in typ required;
  let default := it_default r in
  let is_none := match default with OV VNone => true | _ => false end in
  let required1 := if is_none && match g_default g3 with
                                 | Some (DV (VStr s)) => str_eqb s NoneStr
                                 | _ => false
                                 end then false else required in
  let action1 := match it_action r with Some (c :: a) => Some (c :: a) | _ => action end in
  let typ1 := match it_typ r with Some t => Some t | None => typ end in
  let '(typ2, required2) :=
      match typ1 with
      | Some t => if str_eqb t (L "pickle.loads") then (typ1, false)
                  else if str_eqb t (L "str") && match action1 with None => true | _ => false end
                       then (None, required1) else (typ1, required1)
      | None => (typ1, required1)
      end in
  do help <- match doc with
             | Has (c :: d) => do h <- fill_if word_wrap (c :: d); Ok [kw "help" (set_value (VStr h))]
             | _ => Ok []
             end;
  do dkw <- match default with
            | OV VNone => Ok []
            | OV v => Ok [kw "default" (set_value v)]
            | _ => Err Unmodelled
            end;
  let kws :=
      (match typ2 with
       | Some t => [kw "type" (EName (if str_eqb t (L "globals().__getitem__") then L "str" else t))]
       | None => []
       end)
      ++ (match choices with
          | Some cs => [kw "choices" (ETuple (map set_value cs))]
          | None => []
          end)
      ++ (match action1 with Some a => [kw "action" (set_value (VStr a))] | None => [] end)
      ++ help
      ++ (if required2 then [kw "required" (set_value (VBool true))] else [])
      ++ dkw in
  Ok (SExpr (ECall (EAttr argparser (L "add_argument")) [set_value (VStr (L "--" ++ name))] kws)).

(* ------------------------------------------------------------------ param2ast / _generic_param2ast *)
Definition ann_assign (name : str) (ann value : expr) : stmt :=
  SAnnAssign (EName name) ann (Some value).

Definition code_none_inner (s : str) : bool :=
  code_quoted s
  && (let inner := slice s 3 (List.length s - 3) in
      str_eqb inner (L "None") || str_eqb inner (L "(None)")).

(* ast_utils._generic_param2ast; typ is the (str) value of the typ key *)
Definition generic_param2ast (pt : ptable) (name : str) (typ : str) (g : gparam) : outcome stmt :=
  do annotation <- ast_parse_fix pt typ;
  do value <-
     match g_default g with
     | None => Ok (set_value VNone)
     | Some (DV (VStr s)) =>
       if code_none_inner s then Ok (set_value VNone)
       else match parse_expr_src pt s with
            | Ok e => Ok e
            | Err SyntaxError =>
              Ok (set_value (VStr (if code_quoted s then s else L "```" ++ s ++ L "```")))
            | Err x => Err x
            end
     | Some (DV v) => Ok (set_value v)
     | Some _ => Err Unmodelled
     end;
  Ok (ann_assign name annotation value).

Definition typ_is_none (g : gparam) : bool := match g_typ g with Has _ => false | _ => true end.

Definition object_names : list str := [L "Constant"; L "Str"; L "NamedConstant"].

(* simple_types.get(typ) / simple_types[typ] for a str key; complex (0j) is outside the fragment *)
Definition zero_of (t : str) : outcome pyval :=
  if in_simple_types t then
    match simple_type_zero t with Some v => Ok v | None => Err Unmodelled end
  else Ok VNone.

(* ast_utils.param2ast: the AnnAssign and the param dict as left behind *)
Definition param2ast (pt : ptable) (name : str) (g : gparam) : outcome (stmt * gparam) :=
  (* typ from the default's Python type *)
  do g1 <- (if typ_is_none g then
              match g_default g with
              | Some (DV v) => Ok (mkG (g_doc g) (Has (type_name v)) (g_default g))
              | Some (DE (EConst _)) => Ok (mkG (g_doc g) (Has (L "Constant")) (g_default g))
              | Some _ => Err Unmodelled
              | None => Ok g
              end
            else Ok g);
  do g2 <- match g_default g1 with
           | Some (DE (EConst v)) =>
             let d := gv_const v in
             let d' := if in_none_types d then VNone else d in
             let typ' := match g_typ g1 with
                         | Has t => if existsb (str_eqb t) object_names then Has (L "object") else Has t
                         | x => x
                         end in
             Ok (mkG (g_doc g1) typ' (Some (DV d')))
           | Some (DE _) | Some (DO _) => Err Unmodelled
           | Some (DV v) =>
             if pyval_eqb v (VStr NoneStr) then Ok (mkG (g_doc g1) (g_typ g1) (Some (DV VNone))) else Ok g1
           | None => Ok g1
           end;
  let dflt : option pyval := match g_default g2 with Some (DV v) => Some v | _ => None end in
  match fget (g_typ g2) with
  | None =>
    Ok (ann_assign name (EName (L "object")) (set_value (match dflt with Some v => v | None => VNone end)), g2)
  | Some t =>
    do nq <- needs_quoting (Some t);
    if nq then
      do annotation <- (if in_simple_types t then Ok (EName t) else parse_expr_src pt t);
      do value <- match dflt with
                  | Some v => if truthy v then quote_val v else zero_of t
                  | None => zero_of t
                  end;
      Ok (ann_assign name annotation (set_value value), g2)
    else if in_simple_types t then
      do z <- zero_of t;
      let value := match dflt with
                   | Some v => if pyval_eqb v (VStr NoneStr) then VNone else if truthy v then v else z
                   | None => z
                   end in
      Ok (ann_assign name (EName t) (set_value value), g2)
    else if str_eqb t (L "dict") || startswith [ch 42] t then
      match g_default g2 with
      | None => Ok (ann_assign name (set_slice (EName (L "dict"))) (EDict [] []), g2)
      | Some _ => Err Unmodelled        (* Dict(values=<the default itself>): not a well-formed node *)
      end
    else
      do s <- generic_param2ast pt name t g2; Ok (s, g2)
  end.

(* ------------------------------------------------------------------ RewriteName *)
(* identifiers occurring in a text, as maximal runs of identifier characters *)
Fixpoint idents_of (s : str) (cur : str) : list str :=
  match s with
  | [] => match cur with [] => [] | _ => [rev cur] end
  | c :: r =>
    if is_id_char c then idents_of r (c :: cur)
    else match cur with [] => idents_of r [] | _ => rev cur :: idents_of r [] end
  end.

(* `not self.node_ids or node.id in self.node_ids` *)
Definition in_ids (ids : list str) (id : str) : bool :=
  match ids with [] => true | _ => existsb (str_eqb id) ids end.

(* could a piece of canonical source text contain a Name node that RewriteName would replace?
   (ast.unparse prints a Name as its id, delimited by non-identifier characters) *)
Definition mentions (ids : list str) (text : str) : bool :=
  existsb (in_ids ids) (idents_of text []).

Definition self_attr (id : str) : expr := EAttr (EName (L "self")) id.

(* RewriteName(ids).visit on an expression; opaque expressions are left as they are
   (rewritable_expr says when that is what the code does) *)
Fixpoint rewrite_expr (ids : list str) (e : expr) : expr :=
  let go := map (rewrite_expr ids) in
  match e with
  | EName id => if in_ids ids id then self_attr id else e
  | EConst _ => e
  | EAttr b a => EAttr (rewrite_expr ids b) a
  | ESub b s => ESub (rewrite_expr ids b) (rewrite_expr ids s)
  | ETuple es => ETuple (go es)
  | EList es => EList (go es)
  | EDict ks vs => EDict (go ks) (go vs)
  | ECall f args kws =>
    ECall (rewrite_expr ids f) (go args) (map (fun p => (fst p, rewrite_expr ids (snd p))) kws)
  | EUnary op x => EUnary op (rewrite_expr ids x)
  | EOpaque _ => e
  end.

Fixpoint rewritable_expr (ids : list str) (e : expr) : bool :=
  let go := forallb (rewritable_expr ids) in
  match e with
  | EName _ | EConst _ => true
  | EAttr b _ => rewritable_expr ids b
  | ESub b s => rewritable_expr ids b && rewritable_expr ids s
  | ETuple es | EList es => go es
  | EDict ks vs => go ks && go vs
  | ECall f args kws => rewritable_expr ids f && go args && forallb (fun p => rewritable_expr ids (snd p)) kws
  | EUnary _ x => rewritable_expr ids x
  | EOpaque s => negb (mentions ids s)
  end.

Definition rewrite_arg (ids : list str) (a : arg) : arg :=
  mkArg (a_name a) (option_map (rewrite_expr ids) (a_ann a)).

Definition rewrite_arguments (ids : list str) (a : arguments) : arguments :=
  mkArguments (map (rewrite_arg ids) (ar_args a)) (map (rewrite_expr ids) (ar_defaults a))
              (map (rewrite_arg ids) (ar_kwonly a)) (map (option_map (rewrite_expr ids)) (ar_kw_defaults a))
              (option_map (rewrite_arg ids) (ar_vararg a)) (option_map (rewrite_arg ids) (ar_kwarg a)).

Definition rewritable_opt (ids : list str) (o : option expr) : bool :=
  match o with Some e => rewritable_expr ids e | None => true end.

Definition rewritable_arg (ids : list str) (a : arg) : bool := rewritable_opt ids (a_ann a).

Definition rewritable_arguments (ids : list str) (a : arguments) : bool :=
  forallb (rewritable_arg ids) (ar_args a) && forallb (rewritable_expr ids) (ar_defaults a)
  && forallb (rewritable_arg ids) (ar_kwonly a) && forallb (rewritable_opt ids) (ar_kw_defaults a)
  && match ar_vararg a with Some x => rewritable_arg ids x | None => true end
  && match ar_kwarg a with Some x => rewritable_arg ids x | None => true end.

(* RewriteName(ids).visit on a statement: scope-blind, as the code is (function arguments are
   ast.arg nodes, not Name nodes, so a binder keeps its name while its uses are rewritten) *)
Fixpoint rewrite_stmt (ids : list str) (s : stmt) : stmt :=
  let go := map (rewrite_stmt ids) in
  match s with
  | SFunc n a b d r =>
    SFunc n (rewrite_arguments ids a) (go b) (map (rewrite_expr ids) d) (option_map (rewrite_expr ids) r)
  | SClass n bs b d => SClass n (map (rewrite_expr ids) bs) (go b) (map (rewrite_expr ids) d)
  | SAnnAssign t a v => SAnnAssign (rewrite_expr ids t) (rewrite_expr ids a) (option_map (rewrite_expr ids) v)
  | SAssign ts v => SAssign (map (rewrite_expr ids) ts) (rewrite_expr ids v)
  | SExpr e => SExpr (rewrite_expr ids e)
  | SReturn e => SReturn (option_map (rewrite_expr ids) e)
  | SOther t h bl => SOther t h (map go bl)
  end.

Fixpoint rewritable_stmt (ids : list str) (s : stmt) : bool :=
  let go := forallb (rewritable_stmt ids) in
  match s with
  | SFunc _ a b d r =>
    rewritable_arguments ids a && go b && forallb (rewritable_expr ids) d && rewritable_opt ids r
  | SClass _ bs b d => forallb (rewritable_expr ids) bs && go b && forallb (rewritable_expr ids) d
  | SAnnAssign t a v => rewritable_expr ids t && rewritable_expr ids a && rewritable_opt ids v
  | SAssign ts v => forallb (rewritable_expr ids) ts && rewritable_expr ids v
  | SExpr e => rewritable_expr ids e
  | SReturn e => rewritable_opt ids e
  | SOther _ h bl => negb (mentions ids h) && forallb go bl
  end.

(* list(map(RewriteName(ids).visit, body)) *)
Definition rewrite_body (ids : list str) (body : list stmt) : outcome (list stmt) :=
  if forallb (rewritable_stmt ids) body then Ok (map (rewrite_stmt ids) body) else Err Unmodelled.

(* ------------------------------------------------------------------ get_internal_body *)
Definition get_internal_body (target_name target_type : option str) (i : ir) : outcome (list stmt) :=
  match ir_internal i with
  | None => Ok []
  | Some it =>
    match in_body it with
    | [] => Ok []
    | b =>
      match in_from_name it with
      | Missing => Err KeyError
      | fn =>
        if fld_eq_opt fn target_name then
          match in_from_type it with
          | Missing => Err KeyError
          | ft => if fld_eq_opt ft target_type then Ok b else Ok []
          end
        else Ok []
      end
    end
  end.

Definition is_return (s : stmt) : bool := match s with SReturn _ => true | _ => false end.

Definition last_is_return (body : list stmt) : bool :=
  match rev body with s :: _ => is_return s | [] => false end.

(* ------------------------------------------------------------------ _make_call_meth *)
Definition self_only : arguments := mkArguments [mkArg (L "self") None] [] [] [] None None.

Definition call_meth (body : list stmt) : stmt := SFunc (L "__call__") self_only body [] None.

(* the text emit_param_str(("return_type", {"doc": multiline(indent_all_but_first(doc))}), style="rest",
   word_wrap=word_wrap) gives *)
Definition returns_line (word_wrap : bool) (doc : str) : outcome str :=
  match multiline_sq (indent_all_but_first doc 1 false) with
  | [] => Ok []
  | d1 => do line <- fill_if word_wrap (L ":returns: " ++ d1);
          Ok (indent_all_but_first line 1 false)
  end.

(* _make_call_meth(body, return_type, param_names, ...) when body is the return_type dict *)
Definition call_meth_of_dict (pt : ptable) (ids : list str) (word_wrap : bool) (p : gparam) : outcome stmt :=
  do doc_stmt <- match fget (g_doc p) with
                 | None => Ok []
                 | Some d => if in_none_types (VStr d) then Ok []
                             else do t <- returns_line word_wrap d; Ok [SExpr (set_value (VStr t))]
                 end;
  do ret <- match g_default p with
            | None => Err KeyError                                  (* body["default"] *)
            | Some (DV (VStr s)) =>
              if code_quoted s then
                do e <- parse_expr_src pt (strip_chars [bt] s);
                if rewritable_expr ids e then Ok (SReturn (Some (rewrite_expr ids e))) else Err Unmodelled
              else Ok (SReturn (Some (set_value (VStr s))))
            | Some (DV v) => Ok (SReturn (Some (set_value v)))
            | Some _ => Err Unmodelled
            end;
  Ok (call_meth (doc_stmt ++ [ret])).

(* ------------------------------------------------------------------ emit.class_ *)
(* the (deep-copied) IR emit.class_ hands to to_docstring: the return entry folded into params *)
Definition class_fold_returns (i : ir) : ir :=
  match ir_returns i with
  | Has p => mkIR (ir_name i) (ir_type i) (ir_doc i) (od_set (L "return_type") p (ir_params i))
                  Missing (ir_internal i)
  | _ => i
  end.

Definition cls_sep : str := tab.      (* indent_level = 1 *)

Definition class_docstring (text : str) : str :=
  rstrip
    (replace1 ([nl] ++ cls_sep ++ L ":returns:") (L ":cvar return_type:")
       (replace1 (cls_sep ++ L ":cvar ") ([nl] ++ cls_sep ++ L ":cvar ")
          (replace ([nl] ++ cls_sep ++ L ":param ") (L ":cvar ") text))).

Definition gparam_nonempty (p : gparam) : bool :=
  match g_doc p, g_typ p, g_default p with
  | Missing, Missing, None => false
  | _, _, _ => true
  end.

(* emit.class_(ir, emit_call, class_name, class_bases, decorator_list, word_wrap=..., emit_default_doc=...)
   tds: outcome of to_docstring(class_fold_returns ir (body rewritten), indent_level=1, emit_separating_tab=True,
   emit_types=False, ...).  The caller's IR is not touched (deepcopy). *)
Definition emit_class (pt : ptable) (i : ir) (emit_call : bool) (class_name : str) (bases decos : list str)
           (word_wrap : bool) (tds : outcome str) : outcome (stmt * ir) :=
  let has_returns := match ir_returns i with Has _ => true | _ => false end in
  let param_names := od_keys (ir_params i) in
  let body0 := match ir_internal i with Some it => in_body it | None => [] end in
  (* internal_body: Some l = a list of statements, None = the return_type dict *)
  do ib <- match param_names, body0 with
           | [], _ => Ok (Some body0)
           | _, _ :: _ => do b <- rewrite_body param_names body0; Ok (Some b)
           | _, [] => Ok (if has_returns then None else Some [])
           end;
  do text <- tds;
  let i2 := class_fold_returns i in
  let rt := od_get (L "return_type") (ir_params i2) in        (* returns["return_type"]: same dict object *)
  do meth <- (if emit_call then
                match ib with
                | Some [] => Ok []
                | Some b => Ok [call_meth b]
                | None =>
                  match rt with
                  | Some p => if gparam_nonempty p
                              then do m <- call_meth_of_dict pt param_names word_wrap p; Ok [m]
                              else Ok []
                  | None => Err Unmodelled
                  end
                end
              else Ok []);
  do attrs <- map_outcome (fun kv => do r <- param2ast pt (fst kv) (snd kv); Ok (fst r)) (ir_params i2);
  Ok (SClass class_name (map EName bases)
             (SExpr (set_value (VStr (class_docstring text))) :: attrs ++ meth)
             (map EName decos),
      i).

(* ------------------------------------------------------------------ emit.function *)
Definition no_kwargs (kv : str * gparam) : bool := negb (endswith (L "kwargs") (fst kv)).

Definition arg_of_param (pt : ptable) (inline_types : bool) (kv : str * gparam) : outcome arg :=
  let '(name, g) := kv in
  if inline_types then
    match g_typ g with
    | Missing => Ok (set_arg name None)
    | FNone => Ok (set_arg name (Some name_none))          (* None is a key of simple_types: Name(None) *)
    | Has t => if in_simple_types t then Ok (set_arg name (Some (EName t)))
               else do e <- ast_parse_fix pt t; Ok (set_arg name (Some e))
    end
  else Ok (set_arg name None).

Definition default_of_param (kv : str * gparam) : outcome expr :=
  match g_default (snd kv) with
  | None => Ok (set_value VNone)
  | Some (DV v) => if in_none_types v then Ok (set_value VNone) else Ok (set_value v)
  | Some _ => Err Unmodelled          (* Constant(value=<node or other object>) *)
  end.

Definition returns_param (i : ir) : option gparam := fget (ir_returns i).

(* the generated `return <default>` of emit.function *)
Definition function_return_val (pt : ptable) (i : ir) : outcome (option stmt) :=
  match returns_param i with
  | None => Ok None
  | Some p =>
    match g_default p with
    | None => Ok None
    | Some (DV (VStr [])) => Ok None
    | Some (DV (VStr s)) => do e <- parse_expr_src pt (strip_chars [bt] s); Ok (Some (SReturn (Some e)))
    | Some (DV v) => if truthy v then Err AttributeError else Ok None      (* v.strip *)
    | Some (DE _) => Err AttributeError
    | Some (DO _) => Err Unmodelled
    end
  end.

(* where the carried body is spliced in emit.function *)
Definition function_body_splice (internal_body : list stmt) (return_val : option stmt) : list stmt :=
  (match return_val with
   | Some _ => if last_is_return internal_body then removelast internal_body else internal_body
   | None => internal_body
   end) ++ (match return_val with Some r => [r] | None => [] end).

(* emit.function(ir, function_name, function_type, ..., inline_types, emit_as_kwonlyargs)
   tds: outcome of to_docstring(ir, word_wrap, emit_default_doc, emit_types=not inline_types, indent_level,
   emit_separating_tab); it is handed the caller's object (no copy is made) and leaves it as it found it *)
Definition emit_function (pt : ptable) (i : ir) (function_name function_type : option str)
           (inline_types emit_as_kwonlyargs : bool) (tds : outcome str) : outcome (stmt * ir) :=
  let params_no_kwargs := filter no_kwargs (ir_params i) in
  do fname <- py_or function_name (ir_name i);
  do ftype <- py_or function_type (ir_type i);
  let args0 := match ftype with
               | None => []
               | Some t => if str_eqb t (L "static") then [] else [set_arg t None]
               end in
  do args_from_params <- map_outcome (arg_of_param pt inline_types) params_no_kwargs;
  do defaults_from_params <- map_outcome default_of_param params_no_kwargs;
  do internal_body <- get_internal_body fname ftype i;
  do return_val <- function_return_val pt i;
  let kwarg := match filter (fun kv => negb (no_kwargs kv)) (ir_params i) with
               | kv :: _ => Some (set_arg (fst kv) None)
               | [] => None
               end in
  do text <- tds;
  do returns <- (if inline_types then
                   match returns_param i with
                   | Some p => match fget (g_typ p) with
                               | Some (c :: t) => do e <- parse_expr_src pt (c :: t); Ok (Some e)
                               | _ => Ok None
                               end
                   | None => Ok None
                   end
                 else Ok None);
  let a := if emit_as_kwonlyargs
           then mkArguments args0 [] args_from_params (map Some defaults_from_params) None kwarg
           else mkArguments (args0 ++ args_from_params) defaults_from_params [] [] None kwarg in
  match fname with
  | None => Err Unmodelled            (* FunctionDef(name=None) *)
  | Some n =>
    Ok (SFunc n a (SExpr (set_value (VStr text)) :: function_body_splice internal_body return_val) [] returns,
        i)
  end.

(* ------------------------------------------------------------------ emit.argparse_function *)
(* the description the emitter passes to emit.docstring *)
Definition argparse_doc_ir (i : ir) : ir :=
  let ap := mkG (Has (L "argument parser")) (Has (L "ArgumentParser")) None in
  let plain := mkG (Has (L "argument_parser")) (Has (L "ArgumentParser")) None in
  let ret :=
      match returns_param i with
      | Some p =>
        let typ_none := match g_typ p with
                        | Has t => in_none_types (VStr t)
                        | _ => true
                        end in
        if typ_none then plain
        else mkG (Has (match fget (g_doc p) with
                       | Some (c :: d) => L "argument_parser, " ++ (c :: d)
                       | _ => L "argument_parser"
                       end))
                 (Has (L "Tuple[ArgumentParser, " ++ (match g_typ p with Has t => t | _ => [] end) ++ L "]"))
                 None
      | None => plain
      end in
  mkIR Missing Missing (Has (L "Set CLI arguments")) [(L "argument_parser", ap)] (Has ret) None.

(* is the first statement of a carried body a docstring to get_value's eyes? *)
Definition expr_stmt_is_str (s : stmt) : outcome bool :=
  match s with
  | SExpr e => do v <- get_value_expr e;
               Ok (match v with OV (VStr _) => true | _ => false end)
  | _ => Ok false
  end.

(* where the carried body is spliced in emit.argparse_function *)
Definition argparse_body_skip (internal_body : list stmt) : outcome (list stmt) :=
  match internal_body with
  | [] => Ok []
  | s0 :: rest =>
    do is_doc <- expr_stmt_is_str s0;
    if is_doc then
      match rest with
      | SAssign (t0 :: _) _ :: rest' =>
        match t0 with
        | EName id => if str_eqb id (L "argument_parser") then Ok rest' else Ok rest
        | _ => Err AttributeError                     (* .targets[0].id on a non-Name *)
        end
      | SAssign [] _ :: _ => Err IndexError
      | _ => Ok rest
      end
    else Ok internal_body
  end.

Definition argparse_return (pt : ptable) (i : ir) : outcome stmt :=
  match returns_param i with
  | Some p =>
    match g_default p with
    | Some (DV (VStr s)) =>
      if code_quoted s then Ok (SReturn (Some (ETuple [argparser; set_value (VStr s)])))
      else do e <- parse_expr_src pt s; Ok (SReturn (Some (ETuple [argparser; e])))
    | Some (DV _) => Err TypeError                    (* ast.parse(<non-str>) *)
    | Some _ => Err Unmodelled
    | None => Ok (SReturn (Some argparser))
    end
  | None => Ok (SReturn (Some argparser))
  end.

Definition description_assign (v : pyval) : stmt :=
  SAssign [EAttr argparser (L "description")] (set_value v).

(* emit.argparse_function(ir, emit_default_doc, function_name, function_type, wrap_description, word_wrap)
   ds: outcome of emit.docstring(argparse_doc_ir ir, word_wrap=word_wrap) *)
Definition emit_argparse (pt : ptable) (i : ir) (emit_default_doc : bool)
           (function_name function_type : option str) (wrap_description word_wrap : bool)
           (ds : outcome str) : outcome (stmt * ir) :=
  do fname <- py_or function_name (ir_name i);
  do ftype <- py_or function_type (ir_type i);
  do internal_body <- get_internal_body fname ftype i;
  do dtext <- ds;
  do desc <- match ir_doc i with
             | Missing => Err KeyError
             | FNone => if wrap_description then Err AttributeError else Ok VNone
             | Has d => do t <- fill_if wrap_description d; Ok (VStr t)
             end;
  do ps <- map_outcome (fun kv => param2argparse_param pt word_wrap emit_default_doc (fst kv) (snd kv)) (ir_params i);
  do spliced <- argparse_body_skip internal_body;
  do ret <- (if last_is_return internal_body then Ok [] else do r <- argparse_return pt i; Ok [r]);
  match fname with
  | None => Err Unmodelled
  | Some n =>
    Ok (SFunc n (mkArguments [set_arg (L "argument_parser") None] [] [] [] None None)
              (SExpr (set_value (VStr (indent tab dtext ++ tab)))
                     :: description_assign desc :: ps ++ spliced ++ ret)
              [] None,
        i)
  end.

(* emit.file is modelled in FS.v (integrator) *)

(* ------------------------------------------------------------------ wire *)
Definition dec_err (e : sexp) : option err :=
  if is_sym "AttributeError" e then Some AttributeError
  else if is_sym "IndexError" e then Some IndexError
  else if is_sym "ValueError" e then Some ValueError
  else if is_sym "SyntaxError" e then Some SyntaxError
  else if is_sym "TypeError" e then Some TypeError
  else if is_sym "AssertionError" e then Some AssertionError
  else if is_sym "NotImplementedError" e then Some NotImplementedError
  else if is_sym "KeyError" e then Some KeyError
  else if is_sym "StopIteration" e then Some StopIteration
  else if is_sym "IOError" e then Some IOError
  else if is_sym "Unmodelled" e then Some Unmodelled
  else None.

Definition dec_outcome {A} (f : sexp -> option A) (e : sexp) : option (outcome A) :=
  match e with
  | SList [t; x] =>
    if is_sym "ok" t then option_map Ok (f x)
    else if is_sym "err" t then option_map Err (dec_err x)
    else None
  | _ => None
  end.

Definition dec_ptable (e : sexp) : option ptable := dec_list (dec_pair dec_str (dec_option dec_expr)) e.

Fixpoint enc_pyobj (o : pyobj) : sexp :=
  match o with
  | OV v => SList [sym "v"; enc_pyval v]
  | OSeq tup l => SList [sym "seq"; enc_bool tup; SList (map enc_pyobj l)]
  | ODict kv => SList [sym "dict"; SList (map (fun p => SList [enc_pyobj (fst p); enc_pyobj (snd p)]) kv)]
  | ONode e => SList [sym "node"; enc_expr e]
  end.

Definition enc_itd (r : itd) : sexp :=
  SList [enc_option enc_str (it_action r); enc_pyobj (it_default r); enc_bool (it_required r);
         enc_option enc_str (it_typ r)].

Definition enc_stmt_ir (r : stmt * ir) : sexp := SList [enc_stmt (fst r); enc_ir (snd r)].
Definition enc_stmt_gparam (r : stmt * gparam) : sexp := SList [enc_stmt (fst r); enc_gparam (snd r)].

Definition ea_opt_bind {A B} (x : option A) (f : A -> option B) : option B :=
  match x with Some a => f a | None => None end.
Local Notation "'let?' x := e1 'in' e2" := (ea_opt_bind e1 (fun x => e2)) (at level 200, x pattern, e1 at level 100, e2 at level 200).

Definition dec_tds : sexp -> option (outcome str) := dec_outcome dec_str.

(* FAMILY: run_emitast *)
Definition run_emitast (fn : sexp) (args : list sexp) : option sexp :=
  if is_sym "emitast_class" fn then
    match args with
    | [i; ec; cn; bs; ds; ww; tds; pt] =>
      let? i := dec_ir i in let? ec := dec_bool ec in let? cn := dec_str cn in
      let? bs := dec_list dec_str bs in let? ds := dec_list dec_str ds in let? ww := dec_bool ww in
      let? tds := dec_tds tds in let? pt := dec_ptable pt in
      Some (enc_outcome enc_stmt_ir (emit_class pt i ec cn bs ds ww tds))
    | _ => None
    end
  else if is_sym "emitast_function" fn then
    match args with
    | [i; n; t; it; kw; tds; pt] =>
      let? i := dec_ir i in let? n := dec_option dec_str n in let? t := dec_option dec_str t in
      let? it := dec_bool it in let? kw := dec_bool kw in
      let? tds := dec_tds tds in let? pt := dec_ptable pt in
      Some (enc_outcome enc_stmt_ir (emit_function pt i n t it kw tds))
    | _ => None
    end
  else if is_sym "emitast_argparse" fn then
    match args with
    | [i; edd; n; t; wd; ww; ds; pt] =>
      let? i := dec_ir i in let? edd := dec_bool edd in
      let? n := dec_option dec_str n in let? t := dec_option dec_str t in
      let? wd := dec_bool wd in let? ww := dec_bool ww in
      let? ds := dec_outcome dec_str ds in let? pt := dec_ptable pt in
      Some (enc_outcome enc_stmt_ir (emit_argparse pt i edd n t wd ww ds))
    | _ => None
    end
  else if is_sym "emitast_param2ast" fn then
    match args with
    | [n; g; pt] =>
      let? n := dec_str n in let? g := dec_gparam g in let? pt := dec_ptable pt in
      Some (enc_outcome enc_stmt_gparam (param2ast pt n g))
    | _ => None
    end
  else if is_sym "emitast_param2argparse" fn then
    match args with
    | [n; g; ww; edd; pt] =>
      let? n := dec_str n in let? g := dec_gparam g in let? ww := dec_bool ww in let? edd := dec_bool edd in
      let? pt := dec_ptable pt in
      Some (enc_outcome enc_stmt_gparam (do s <- param2argparse_param pt ww edd n g; Ok (s, g)))
    | _ => None
    end
  else if is_sym "emitast_infer" fn then
    match args with
    | [a; d; t; r; pt] =>
      let? a := dec_option dec_str a in let? d := dec_dval d in let? t := dec_option dec_str t in
      let? r := dec_bool r in let? pt := dec_ptable pt in
      Some (enc_outcome enc_itd (do o <- pyobj_of_dval d; infer_type_and_default infer_fuel pt a o t r))
    | _ => None
    end
  else if is_sym "emitast_rewrite" fn then
    match args with
    | [ids; b] =>
      let? ids := dec_list dec_str ids in let? b := dec_list dec_stmt b in
      Some (enc_outcome (fun l => SList (map enc_stmt l)) (rewrite_body ids b))
    | _ => None
    end
  else if is_sym "emitast_internal_body" fn then
    match args with
    | [n; t; i] =>
      let? n := dec_option dec_str n in let? t := dec_option dec_str t in let? i := dec_ir i in
      Some (enc_outcome (fun l => SList (map enc_stmt l)) (get_internal_body n t i))
    | _ => None
    end
  else if is_sym "emitast_parse_expr" fn then
    match args with
    | [s; fix_; pt] =>
      let? s := dec_str s in let? fix_ := dec_bool fix_ in let? pt := dec_ptable pt in
      Some (enc_outcome enc_expr (if fix_ then ast_parse_fix pt s else parse_expr_src pt s))
    | _ => None
    end
  else if is_sym "emitast_unparse" fn then
    match args with
    | [e] => let? e := dec_expr e in Some (enc_outcome enc_str (unparse_expr e))
    | _ => None
    end
  else if is_sym "emitast_set_value" fn then
    match args with
    | [v] => let? v := dec_pyval v in Some (enc_expr (set_value v))
    | _ => None
    end
  else None.
