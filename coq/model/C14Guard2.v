(* C14Guard2: executable side conditions for the strengthened C14 theorems (proofs/C14Success.v):
   - guard_C14_total : guard_C14 plus what makes the single-pair call SUCCEED in the model;
   - guard_C14_multi : the region of several pairs in which every pair lands at the position its output address
     resolves to in the ORIGINAL output file.
   Definitions only. *)
From Coq Require Import List Ascii Bool Arith ZArith.
From Coq Require String.
Import String.StringSyntax.
From DT Require Import PyStr Sexp PyVal PureUtils PyAst Locate SyncProps C15Spec C14Spec.
Import ListNotations.

(* ------------------------------------------------------------------ one pair: success *)
(* the annotation an input node carries (what the template step reads) *)
Definition src_ann (n : pnode) : option expr :=
  match n with
  | PArg a => a_ann a
  | PStmt (SAnnAssign _ ann _) => Some ann
  | _ => None
  end.

(* the request's tables of the two external functions (ast.unparse of the annotation, ast.parse of the wrapped
   text) cover the call and the wrapped text parses: without that the model declines (Unmodelled) *)
Definition wrap_ready (x : c14_input) : bool :=
  match ci_wrap x with
  | None => true
  | Some w =>
    forallb (fun o => match o with
                      | Some (_, n) =>
                        match src_ann n with
                        | Some e => is_ok (wrap_annotation (ci_env x) w e)
                        | None => true
                        end
                      | None => true
                      end) (in_nodes x)
  end.

(* no statement that RewriteAtQuery visits (it does not enter function bodies) carries the location q *)
Fixpoint stmt_loc_free (q : loc) (s : astmt) : bool :=
  match s with
  | AFunc _ _ _ _ _ _ _ => true
  | AClass _ l _ _ b _ => negb (oloc_eqb l q) && forallb (stmt_loc_free q) b
  | AOther _ _ _ bl => forallb (fun b => forallb (stmt_loc_free q) b) bl
  | _ => negb (oloc_eqb (stmt_loc s) q)
  end.

(* an addressed function argument is not shadowed by a class member of the same dotted name (a statement
   replaced by an ast.arg makes emit.file fail).  Sufficient, not necessary: the exact condition is that the
   FIRST node carrying the location is the argument, which the guard's position equality is believed to imply *)
Definition target_unshadowed (x : c14_input) : bool :=
  forallb (fun op => match resolve_at [0] (dotted op) (ci_out x) with
                     | Some (_, PArg _) => forallb (stmt_loc_free (dotted op)) (annotate_at [0] (ci_out x))
                     | _ => true
                     end) (ci_ops x).

Definition guard_C14_total (x : c14_input) : bool :=
  guard_C14 x && addresses_resolve x && wrap_ready x && target_unshadowed x.

(* what is proved inside guard_C14_total: the call succeeds with exactly one write, of the output file; the written
   tree is the parsed output tree (o_mid erases to the output module: only [default] attributes were attached by
   find_in_ast) with exactly the node at the position the output address resolves to replaced (frame relation of
   RewriteAtQuery) by the node the input address resolves to, whose content is what the property expects there
   (the input's name, annotation - through the template - and value) *)
Definition C14_total_holds (x : c14_input) : Prop :=
  exists ip op tree p dst pi src log repl want,
    ci_ips x = [ip] /\ ci_ops x = [op]
    /\ run_C14 x = ([EvWrite FOutput tree], Ok tt)
    /\ resolve_at [0] (dotted op) (ci_out x) = Some (p, dst)
    /\ resolve_at [1] (dotted ip) (ci_in x) = Some (pi, src)
    /\ erase (apply_dlog log (annotate_at [0] (ci_out x))) = ci_out x
    /\ replaced_first (dotted op) repl p (apply_dlog log (annotate_at [0] (ci_out x))) tree
    /\ node_view repl = (pi, want)
    /\ expected_node x src dst = Some (Ok want).

(* ------------------------------------------------------------------ several pairs *)
(* no ClassDef that RewriteAtQuery visits carries the location q *)
Fixpoint class_loc_free (q : loc) (s : astmt) : bool :=
  match s with
  | AFunc _ _ _ _ _ _ _ => true
  | AClass _ l _ _ b _ => negb (oloc_eqb l q) && forallb (class_loc_free q) b
  | AOther _ _ _ bl => forallb (fun b => forallb (class_loc_free q) b) bl
  | _ => true
  end.

Definition anode_loc (n : anode) : option loc :=
  match n with
  | NMod _ => None
  | NStmt s => stmt_loc s
  | NArg a => aa_loc a
  end.

(* a replacement node that no later output address can hit: an argument or an assignment (not a
   FunctionDef/ClassDef) whose _location - the one it got in the INPUT file - is none of the later addresses *)
Definition node_quiet (later : list loc) (n : anode) : bool :=
  match n with
  | NArg _ => true
  | NStmt (AAnnAssign _ _ _ _ _) => true
  | NStmt (AAssign _ _ _ _) => true
  | NStmt (AArgS _) => true
  | _ => false
  end
  && forallb (fun q => negb (oloc_eqb (anode_loc n) q)) later.

(* the first half of sync_property: the replacement node (after the template step) and both trees *)
Definition sp_prepare (env : sp_env) (input_eval : bool) (input_param : str) (input_ast : amodule)
           (ev : evald) (output_param : str) (wrap : option str) (output_ast : amodule)
  : outcome (anode * amodule * amodule) :=
  let search := strip_split [ch 46] output_param in
  do found <-
     (if input_eval then
        if negb (Nat.eqb (count [ch 46] input_param) 0) then Err NotImplementedError
        else
          do lit <- it2literal ev;
          Ok (NStmt (AAnnAssign [] None (EName (last search [])) lit None), input_ast, output_ast)
      else
        do r <- find_in_ast_log (strip_split [ch 46] input_param) input_ast;
        match fst r with
        | None => Err AssertionError
        | Some n => Ok (n, apply_dlog (snd r) input_ast, apply_dlog (snd r) output_ast)
        end);
  let '(n, input1, output1) := found in
  apply_wrap env wrap n input1 output1.

(* along the run of the model: the node every pair (but the last) moves into the output tree is quiet for the
   output addresses still to come.  This is where the defect several-pairs-on-unreannotated-tree bites: the output
   tree is not re-annotated, so a moved node keeps the _location it had in the input file and a later address
   equal to it hits the moved node first *)
Fixpoint quiet_loop (env : sp_env) (input_eval : bool) (wrap : option str)
         (pairs : list (str * str * evald)) (input_ast output_ast : amodule) : bool :=
  match pairs with
  | [] => true
  | (ip, op, ev) :: rest =>
    match sp_prepare env input_eval ip input_ast ev op wrap output_ast,
          sync_property env input_eval ip input_ast ev op wrap output_ast (is_empty rest) with
    | Ok (repl, _, _), Ok (o1, i1) =>
      node_quiet (map (fun pr => dotted (snd (fst pr))) rest) repl
      && quiet_loop env input_eval wrap rest i1 o1
    | _, _ => true
    end
  end.

Fixpoint locs_distinct (l : list loc) : bool :=
  match l with
  | [] => true
  | q :: r => negb (existsb (loc_eqb q) r) && locs_distinct r
  end.

Fixpoint all_pairs_clean (x : c14_input) (ips ops : list str) : bool :=
  match ips, ops with
  | ip :: ips', op :: ops' =>
    match pair_class x ip op with Some _ => false | None => all_pairs_clean x ips' ops' end
  | _, _ => true
  end.

(* several pairs, no eval: every pair is in the single-pair guard region, the output addresses are pairwise
   different, no visited ClassDef carries an addressed location (an addressed node is a leaf), and no moved
   node carries a later output address *)
Definition guard_C14_multi (x : c14_input) : bool :=
  C14_domain x && negb (ci_eval x)
  && all_pairs_clean x (ci_ips x) (ci_ops x)
  && locs_distinct (map dotted (ci_ops x))
  && forallb (fun op => forallb (class_loc_free (dotted op)) (annotate_at [0] (ci_out x))) (ci_ops x)
  && quiet_loop (ci_env x) false (ci_wrap x) (zip3 (ci_ips x) (ci_ops x) (ci_evs x))
                (annotate_at [1] (ci_in x)) (annotate_at [0] (ci_out x)).

(* what is proved for several pairs: in order, every pair replaced exactly one node of the current tree (frame
   relation of RewriteAtQuery), and that node is the one at the position its output address resolves to in the
   ORIGINAL output file *)
Inductive placed (om : module) : list str -> amodule -> amodule -> Prop :=
| pl_nil : forall o, placed om [] o o
| pl_cons : forall op ops o o_mid o1 o' r p n,
    resolve_at [0] (dotted op) om = Some (p, n) ->
    is_mid o o_mid -> replaced_first (dotted op) r p o_mid o1 ->
    placed om ops o1 o' -> placed om (op :: ops) o o'.

(* ------------------------------------------------------------------ round 2: smaller guards *)
(* target_unshadowed is not needed: the first node carrying the location IS the argument (proofs/C14Success.v,
   arg_free_module: tree positions are unique identities in a freshly annotated tree) *)
Definition guard_C14_total' (x : c14_input) : bool :=
  guard_C14 x && addresses_resolve x && wrap_ready x.

(* ------------------------------------------------------------------ round 2: several pairs, success *)
(* find_in_ast attaches no [default] attribute on the way to any input address (the addressed input nodes are
   assignments, class attributes, or arguments without a default value): with no template either, the input tree
   is not mutated between the pairs *)
Definition logs_empty (x : c14_input) : bool :=
  forallb (fun ip => match find_in_ast_log (dotted ip) (annotate_at [1] (ci_in x)) with
                     | Ok (_, []) => true
                     | _ => false
                     end) (ci_ips x).

(* the input node as it sits in a statement list *)
Definition in_stmt (x : c14_input) (ip : str) : option astmt :=
  match find_in_ast_log (dotted ip) (annotate_at [1] (ci_in x)) with
  | Ok (Some n, _) => match node_as_stmt n with Ok s => Some s | Err _ => None end
  | _ => None
  end.

(* no input node holds a string constant equal to the last segment of a LATER output address (the model declines a
   RewriteAtQuery whose search could hit a Constant's _location: const_hazard) *)
Fixpoint hazard_free_pairs (x : c14_input) (ips ops : list str) : bool :=
  match ips, ops with
  | ip :: ips', op :: ops' =>
    match in_stmt x ip with
    | Some s => forallb (fun op' => negb (stmt_hazard (last (dotted op') []) s)) ops'
    | None => true
    end && hazard_free_pairs x ips' ops'
  | _, _ => true
  end.

Definition no_wrap (x : c14_input) : bool := match ci_wrap x with None => true | Some _ => false end.

Definition guard_C14_multi_total (x : c14_input) : bool :=
  guard_C14_multi x && addresses_resolve x && no_wrap x && logs_empty x
  && hazard_free_pairs x (ci_ips x) (ci_ops x).

Definition C14_multi_total_holds (x : c14_input) : Prop :=
  exists tree, run_C14 x = ([EvWrite FOutput tree], Ok tt)
               /\ placed (ci_out x) (ci_ops x) (annotate_at [0] (ci_out x)) tree.
