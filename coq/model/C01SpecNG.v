(* C01SpecNG: property C01 (docstring round trip) for the numpydoc and google styles:
   specification printers (what emit.docstring writes with word_wrap off and default text on),
   the comparison "same interface", the finding classes, the classifier and the guard.
   Definitions only (executable: the harness evaluates them through the driver). *)
From Coq Require Import List Ascii Bool Arith ZArith.
From Coq Require String.
Import String.StringSyntax.
From DT Require Import PyStr Sexp PyVal TyExpr PureUtils Defaults PyAst IR Extracted Run C17Spec DocParseNG.
Import ListNotations.

(* ------------------------------------------------------------------ *)
(* specification printers: docstring_utils.emit_param_str (numpydoc, google) and emit.docstring      *)
(* with word_wrap=False, emit_default_doc=True                                                        *)
(* ------------------------------------------------------------------ *)

(* d.get(k) is truthy *)
Definition truthy_fld (f : fld str) : option str :=
  match f with Has (c :: r) => Some (c :: r) | _ => None end.

(* set_default_doc((name, _param), emit_default_doc=True)[1]["doc"] *)
Definition doc_with_default (name : str) (p : param) : outcome str :=
  do p' <- set_default_doc name p true;
  match p_doc p' with
  | Has d => Ok d
  | FNone => Ok (L "None")
  | Missing => Err KeyError
  end.

Definition return_type_name : str := L "return_type".

(* sep.join(filter(None, parts)) *)
Definition filter_join (sep : str) (parts : list (option str)) : str :=
  join sep (flat_map (fun o => match o with Some (c :: r) => [c :: r] | _ => [] end) parts).

Definition emit_param (style : ngstyle) (name : str) (p : param) : outcome str :=
  let is_ret := str_eqb name return_type_name in
  match style with
  | SNumpydoc =>
    let typ_part := match truthy_fld (p_typ p) with
                    | Some t => Some (if is_ret then t else name ++ L " : " ++ t)
                    | None => None
                    end in
    do doc_part <- match truthy_fld (p_doc p) with
                   | Some _ => do d <- doc_with_default name p; Ok (Some (indent tab d))
                   | None => Ok None
                   end;
    Ok (filter_join [nl] [typ_part; doc_part])
  | SGoogle =>
    let typ_part := match truthy_fld (p_typ p) with
                    | Some t => Some (if is_ret then L "  " ++ t ++ L ":" else L "  " ++ name ++ L " (" ++ t ++ L "): ")
                    | None => None
                    end in
    do doc_part <- match truthy_fld (p_doc p) with
                   | Some _ => do d <- doc_with_default name p;
                               Ok (Some (if is_ret then nl :: L "   " ++ d else d))
                   | None => Ok None
                   end;
    Ok (filter_join [] [typ_part; doc_part])
  end.

Definition scalar_param (g : gparam) : outcome param :=
  match param_of_gparam g with Some p => Ok p | None => Err Unmodelled end.

(* emit.docstring(ir, docstring_format=style, word_wrap=False, emit_default_doc=True) *)
Definition text_of_o (style : ngstyle) (i : ir) : outcome str :=
  do doc <- match ir_doc i with Has d => Ok d | FNone => Ok (L "None") | Missing => Err KeyError end;
  do lines <- map_o (fun np => do p <- scalar_param (snd np); emit_param style (fst np) p) (ir_params i);
  let plines := match lines with [] => [] | _ => nth 0 (arg_tokens_of style) [] :: lines end in
  do ret <- match ir_returns i with
            | Has g => do p <- scalar_param g;
                       do l <- emit_param style return_type_name p;
                       Ok (nl :: nth 0 (return_tokens_of style) [] ++ nl :: l)
            | _ => Ok []
            end;
  Ok (nl :: doc ++ [nl; nl; nl] ++ join [nl] plines ++ [nl] ++ ret ++ [nl]
         ++ match style with SNumpydoc => [nl] | SGoogle => [] end).

Definition text_of (style : ngstyle) (i : ir) : str :=
  match text_of_o style i with Ok s => s | Err _ => [] end.

Definition numpydoc_text_of (i : ir) : str := text_of SNumpydoc i.
Definition google_text_of (i : ir) : str := text_of SGoogle i.

(* ------------------------------------------------------------------ *)
(* same interface                                                       *)
(* ------------------------------------------------------------------ *)

Definition opt_str_eqb (a b : option str) : bool :=
  match a, b with
  | None, None => true
  | Some x, Some y => str_eqb x y
  | _, _ => false
  end.

(* a field as its consumer sees it: d.get(k); absent and None coincide, the empty string does not *)
Definition fld_eqb (a b : fld str) : bool := opt_str_eqb (fget a) (fget b).

(* same value with the same Python type; None, "None" and NoneStr all spell "no value" *)
Definition default_eqb (a b : option dval) : bool :=
  match a, b with
  | None, None => true
  | Some (DV x), Some (DV y) => pyval_eqb x y || (in_none_types x && in_none_types y)
  | Some x, Some y => dval_eqb x y
  | _, _ => false
  end.

Definition gparam_same (p q : gparam) : bool :=
  fld_eqb (g_typ p) (g_typ q) && fld_eqb (g_doc p) (g_doc q) && default_eqb (g_default p) (g_default q).

Fixpoint params_same (a b : list (str * gparam)) : bool :=
  match a, b with
  | [], [] => true
  | (n, p) :: a', (m, q) :: b' => str_eqb n m && gparam_same p q && params_same a' b'
  | _, _ => false
  end.

Definition returns_same (a b : fld gparam) : bool :=
  match a, b with
  | Has p, Has q => gparam_same p q
  | Has _, _ | _, Has _ => false
  | _, _ => true
  end.

Definition same_interface (a b : ir) : bool :=
  fld_eqb (ir_doc a) (ir_doc b) && params_same (ir_params a) (ir_params b)
  && returns_same (ir_returns a) (ir_returns b).

(* ------------------------------------------------------------------ *)
(* the round trip, executable                                           *)
(* ------------------------------------------------------------------ *)

(* parse.docstring(text, emit_default_doc=False): infer_type=False, word_wrap=True, emit_default_prop=True *)
Definition rt_flags : ngflags := mkFlags false true true false.

Definition style3_of (s : ngstyle) : style3 := match s with SGoogle => StGoogle | SNumpydoc => StNumpydoc end.
Definition style3_eqb (a b : style3) : bool :=
  match a, b with
  | StRest, StRest | StGoogle, StGoogle | StNumpydoc, StNumpydoc => true
  | _, _ => false
  end.

Definition C01_ng_at (style : ngstyle) (i : ir) : Prop :=
  exists text i',
    text_of_o style i = Ok text
    /\ detect_style text = style3_of style
    /\ parse_ng style rt_flags text = Ok i'
    /\ same_interface i i' = true.

Inductive rt_result : Type := RtHolds | RtFails (what : str) | RtUnmodelled.

Definition roundtrip (style : ngstyle) (i : ir) : rt_result :=
  match text_of_o style i with
  | Err Unmodelled => RtUnmodelled
  | Err _ => RtFails (L "emit-raises")
  | Ok text =>
    if negb (style3_eqb (detect_style text) (style3_of style)) then RtFails (L "style")
    else match parse_ng style rt_flags text with
         | Err Unmodelled => RtUnmodelled
         | Err _ => RtFails (L "parse-raises")
         | Ok i' => if same_interface i i' then RtHolds else RtFails (L "differs")
         end
  end.

(* ------------------------------------------------------------------ *)
(* domain                                                               *)
(* ------------------------------------------------------------------ *)

Definition is_ident (s : str) : bool :=
  match s with
  | c :: _ => is_id_start c && forallb is_id_char s
  | [] => false
  end.

Fixpoint uniq (l : list str) : bool :=
  match l with
  | [] => true
  | x :: r => negb (existsb (str_eqb x) r) && uniq r
  end.

Definition fld_in_alphabet (f : fld str) : bool :=
  match f with Has s => forallb in_alphabet s && negb (is_empty s) | FNone => false | Missing => true end.

Definition pyval_in_alphabet (v : pyval) : bool :=
  match v with VStr s | VFloat s => forallb in_alphabet s | _ => true end.

Definition gparam_in_domain (g : gparam) : bool :=
  fld_in_alphabet (g_doc g) && fld_in_alphabet (g_typ g)
  && match g_default g with
     | None => true
     | Some (DV v) => pyval_in_alphabet v
     | Some _ => false
     end.

(* the IRs the property ranges over, as far as this layer is concerned: a str summary, uniquely named identifier
   parameters (none called return_type), text fields absent or non-empty over the alphabet, scalar defaults *)
Definition in_domain_ng (i : ir) : bool :=
  match ir_doc i with Has d => forallb in_alphabet d | _ => false end
  && forallb (fun np => is_ident (fst np) && negb (str_eqb (fst np) return_type_name)
                        && gparam_in_domain (snd np)) (ir_params i)
  && uniq (map fst (ir_params i))
  && match ir_returns i with Has g => gparam_in_domain g | _ => true end.

(* ------------------------------------------------------------------ *)
(* finding classes                                                      *)
(* ------------------------------------------------------------------ *)

Inductive c01ng_class : Type :=
| N_text_token            (* a summary, type or prose contains a section token of one of the three styles *)
| N_summary_ws            (* the summary has leading or trailing white space: it comes back stripped *)
| N_google_no_sections    (* google, no parameters and no return entry: nothing marks the style, read as numpydoc *)
| N_param_no_type         (* a parameter without type: its name is never written; entries vanish, merge or end the list *)
| N_type_shape            (* a type with white space at an end, a line break, a colon (google) / final colon (numpydoc), " or " (google), a final ", optional" *)
| N_prose_shape           (* prose with white space at an end or a line break; google: prose in braces, prose ending with a colon *)
| N_prose_optional        (* prose starting with Optional / (Optional) under a type that is not Optional[...]: the type is wrapped *)
| N_prose_announces       (* prose that itself announces a default: a default appears or the prose is cut *)
| N_default_no_prose      (* a default without prose: defaults are only ever written into prose *)
| N_default_codec (k : c17_class)   (* the default does not survive the sentence: class of C17 *)
| N_default_requoted      (* a str default that is itself quote-wrapped loses the quotes *)
| N_kwargs_shape          (* a parameter named ...kwargs without default, with type dict, or with a real default *)
| N_default_then_none     (* a parameter without default after one with a default acquires the zero value of its type *)
| N_return_after_default  (* return entry without default after a parameter with default: the return entry acquires a default *)
| N_type_unparsed         (* a default under a type that the model cannot read as an expression: _infer_default parses the type (SyntaxError for a non-expression) *)
| N_code_default_untyped  (* a back-tick quoted default that survives the sentence (str-like type without brackets) makes the parser drop the type *)
| N_return_partial        (* return entry lacking type or prose: numpydoc IndexError / entries shift; google reads the type as prose *)
| N_google_return_only.   (* google, return entry without parameters: type line and prose come back as one prose string *)

Definition c01ng_class_name (k : c01ng_class) : str :=
  match k with
  | N_text_token => L "text-contains-section-token"
  | N_summary_ws => L "summary-not-stripped"
  | N_google_no_sections => L "google-no-sections-read-as-numpydoc"
  | N_param_no_type => L "param-without-type"
  | N_type_shape => L "type-shape"
  | N_prose_shape => L "prose-shape"
  | N_prose_optional => L "prose-optional-wraps-type"
  | N_prose_announces => L "prose-announces-default"
  | N_default_no_prose => L "default-without-prose"
  | N_default_codec k => L "default-codec:" ++ class_name k
  | N_default_requoted => L "default-requoted"
  | N_kwargs_shape => L "kwargs-shape"
  | N_default_then_none => L "default-forces-later-defaults"
  | N_return_after_default => L "return-after-default"
  | N_type_unparsed => L "default-under-unparsed-type"
  | N_code_default_untyped => L "code-default-drops-type"
  | N_return_partial => L "return-partial"
  | N_google_return_only => L "google-return-only"
  end.

Definition all_tokens : list str :=
  Extracted.rest_tokens ++ Extracted.google_tokens ++ Extracted.numpydoc_tokens.

Definition token_free (s : str) : bool := forallb (fun t => negb (contains t s)) all_tokens.

Definition fld_all (f : str -> bool) (x : fld str) : bool := match x with Has s => f s | _ => true end.

Definition gparam_token_free (g : gparam) : bool := fld_all token_free (g_doc g) && fld_all token_free (g_typ g).

Definition has_nl (s : str) : bool := mem_c nl s.

(* s.strip() == s, stated on the two end characters *)
Definition clean_ends (s : str) : bool :=
  match head_c s with Some c => negb (isspace c) | None => true end
  && match last_c s with Some c => negb (isspace c) | None => true end.

Definition type_shape_ok (style : ngstyle) (t : str) : bool :=
  clean_ends t && negb (has_nl t) && negb (endswith google_opt t)
  && match style with
     | SGoogle => negb (mem_c (ch 58) t) && negb (contains (L " or ") t)
     | SNumpydoc => negb (endswith [ch 58] t)
     end.

(* shape of the prose as written: d is the IR prose, d' the line with the default sentence *)
Definition prose_shape_ok (style : ngstyle) (d : str) : bool :=
  clean_ends d && negb (has_nl d).

Definition written_shape_ok (style : ngstyle) (d' : str) : bool :=
  token_free d' && negb (has_nl d') && clean_ends d' &&
  match style with
  | SGoogle => negb (Nat.ltb 3 (List.length d') && startswith [ch 123] d' && endswith [ch 125] d')
               && negb (endswith [ch 58] d')
  | SNumpydoc => true
  end.

Definition optional_prefix (d : str) : bool := startswith (L "(Optional)") d || startswith (L "Optional") d.

Definition kwargs_name (n : str) : bool := endswith (L "kwargs") n || startswith (L "**") n.

Definition sdefault (g : gparam) : option pyval :=
  match g_default g with Some (DV v) => Some v | _ => None end.

Definition null_default (v : pyval) : bool := pyval_eqb v VNone || pyval_eqb v (VStr NoneStr).

(* does set_default_doc write a sentence for this parameter? (when the prose does not mention defaults) *)
Definition writes_default (name : str) (g : gparam) : bool :=
  match sdefault g with
  | Some v => negb (null_default v) || negb (endswith (L "kwargs") name)
  | None => false
  end.

(* the line set_default_doc produces, when it can be computed *)
Definition written_doc (name : str) (g : gparam) : option str :=
  match param_of_gparam g with
  | Some p => match truthy_fld (p_doc p) with
              | Some _ => match doc_with_default name p with Ok d => Some d | Err _ => None end
              | None => None
              end
  | None => None
  end.

(* class of one entry (parameter or return entry), None when the entry is of the good shape *)
Definition entry_class (style : ngstyle) (name : str) (g : gparam) : option c01ng_class :=
  if negb (gparam_token_free g) then Some N_text_token
  else
  match fget (g_typ g) with
  | None => Some N_param_no_type
  | Some t =>
    if negb (type_shape_ok style t) then Some N_type_shape
    else
      match fget (g_doc g) with
      | None => if writes_default name g then Some N_default_no_prose else None
      | Some d =>
        if negb (prose_shape_ok style d) then Some N_prose_shape
        else if negb (no_announce d) then Some N_prose_announces
        else if optional_prefix d && negb (startswith (L "Optional[") t) then Some N_prose_optional
        else
          let after_value :=
              match written_doc name g with
              | Some d' => if negb (written_shape_ok style d') then Some N_prose_shape
                           else if optional_prefix d' && negb (startswith (L "Optional[") t) then Some N_prose_optional
                           else None
              | None => Some (N_default_codec K_unmodelled)
              end in
          if writes_default name g then
            match sdefault g with
            | Some v =>
              if match needs_quoting_ng (Some t) with Ok _ => false | Err _ => true end then Some N_type_unparsed
              else
              match finding_class_C17 ADefaultsTo d v (Some t) with
              | Some k => Some (N_default_codec k)
              | None =>
                match v with
                | VStr s => if negb (str_eqb (unquote s) s) && negb (null_default v) then Some N_default_requoted
                            else if negb (str_eqb name return_type_name) && negb (kwargs_name name)
                                    && code_quoted s && negb (null_default v) && negb (contains [ch 91] t)
                            then Some N_code_default_untyped
                            else after_value
                | _ => after_value
                end
              end
            | None => after_value
            end
          else after_value
      end
  end.

Definition kwargs_class (name : str) (g : gparam) : option c01ng_class :=
  if kwargs_name name then
    match sdefault g with
    | Some v => if null_default v && negb (opt_str_eqb (fget (g_typ g)) (Some (L "dict")))
                   && negb (startswith [ch 42] name)
                then None else Some N_kwargs_shape
    | None => Some N_kwargs_shape
    end
  else None.

Fixpoint first_class {A} (f : A -> option c01ng_class) (l : list A) : option c01ng_class :=
  match l with
  | [] => None
  | x :: r => match f x with Some k => Some k | None => first_class f r end
  end.

(* once a sentence has been written every later parameter must carry a default *)
Fixpoint defaults_monotone (seen : bool) (ps : list (str * gparam)) : bool :=
  match ps with
  | [] => true
  | (n, g) :: r =>
    let w := writes_default n g in
    (negb seen || w
     || (kwargs_name n && match sdefault g with Some v => null_default v | None => false end
         && match fget (g_typ g) with Some t => negb (in_simple_types t) | None => true end))
    && defaults_monotone (seen || w) r
  end.

Definition finding_class_C01_ng (style : ngstyle) (i : ir) : option c01ng_class :=
  let ps := ir_params i in
  if negb (fld_all token_free (ir_doc i)) then Some N_text_token
  else if negb (fld_all clean_ends (ir_doc i)) then Some N_summary_ws
  else match style, ps, ir_returns i with
       | SGoogle, [], Has _ => Some N_google_return_only
       | SGoogle, [], _ => Some N_google_no_sections
       | _, _, _ =>
         match first_class (fun np => match entry_class style (fst np) (snd np) with
                                      | Some k => Some k
                                      | None => kwargs_class (fst np) (snd np)
                                      end) ps with
         | Some k => Some k
         | None =>
           if negb (defaults_monotone false ps) then Some N_default_then_none
           else
             match ir_returns i with
             | Has r =>
               if negb (gparam_token_free r) then Some N_text_token
               else match fget (g_typ r), fget (g_doc r) with
                    | Some _, Some _ =>
                      match entry_class style return_type_name r with
                      | Some k => Some k
                      | None => if existsb (fun np => writes_default (fst np) (snd np)) ps
                                   && negb (writes_default return_type_name r)
                                then Some N_return_after_default else None
                      end
                    | _, _ => Some N_return_partial
                    end
             | _ => None
             end
         end
       end.

Definition guard_C01_ng (style : ngstyle) (i : ir) : bool :=
  in_domain_ng i && match finding_class_C01_ng style i with None => true | Some _ => false end.

(* ------------------------------------------------------------------ *)
(* the blocks: what the scanner makes of the text of a guard IR          *)
(* ------------------------------------------------------------------ *)

(* the unit the scanner hands to _parse for one entry *)
Definition unit_of_entry (style : ngstyle) (name : str) (g : gparam) : list str :=
  match fget (g_typ g) with
  | Some t =>
    match written_doc name g with
    | Some d' => match style with
                 | SGoogle => [L "  " ++ name ++ L " (" ++ t ++ L "): " ++ d']
                 | SNumpydoc => [name ++ L " : " ++ t; tab ++ d']
                 end
    | None => match style with
              | SGoogle => [L "  " ++ name ++ L " (" ++ t ++ L "): "]
              | SNumpydoc => [name ++ L " : " ++ t]
              end
    end
  | None => []
  end.

Definition units_of_params (style : ngstyle) (ps : list (str * gparam)) : list (list str) :=
  map (fun np => unit_of_entry style (fst np) (snd np)) ps.

Definition return_lines (g : gparam) : option (str * str) :=
  match fget (g_typ g), written_doc return_type_name g with
  | Some t, Some d' => Some (t, d')
  | _, _ => None
  end.

(* the scanned dict for the text of a guard IR (level B of the design: characters to blocks) *)
Definition scanned_of (style : ngstyle) (i : ir) : scanned :=
  let doc := match ir_doc i with Has d => d | _ => [] end in
  let units := units_of_params style (ir_params i) in
  let rl := match ir_returns i with Has g => return_lines g | _ => None end in
  match style with
  | SGoogle =>
    mkScanned doc units
              (match rl with Some (t, d') => RLines [L "  " ++ t ++ L ":"; L "   " ++ d'] | None => RUnits [] end)
              None
  | SNumpydoc =>
    match rl, ir_params i with
    | Some (t, d'), [] => mkScanned doc [] (RUnits [[t; tab ++ d']; [[]]]) None
    | Some (t, d'), _ => mkScanned doc (units ++ [[[]]]) (RUnits [[t; tab ++ d']; [[]]]) None
    | None, [] => mkScanned doc [] (RUnits []) None
    | None, _ => mkScanned doc (units ++ [[[]]; [[]]]) (RUnits []) None
    end
  end.

Fixpoint units_eqb (a b : list (list str)) : bool :=
  match a, b with
  | [], [] => true
  | x :: a', y :: b' => strs_eqb x y && units_eqb a' b'
  | _, _ => false
  end.

Definition retv_eqb (a b : retv) : bool :=
  match a, b with
  | RLines x, RLines y => strs_eqb x y
  | RUnits x, RUnits y => units_eqb x y
  | _, _ => false
  end.

Definition scanned_eqb (a b : scanned) : bool :=
  str_eqb (sc_doc a) (sc_doc b) && units_eqb (sc_args a) (sc_args b) && retv_eqb (sc_ret a) (sc_ret b)
  && match sc_afterward a, sc_afterward b with
     | None, None => true
     | Some x, Some y => strs_eqb x y
     | _, _ => false
     end.

(* the link between text and blocks, executable: the text is over the alphabet and the scanner returns scanned_of *)
Definition scan_link_b (style : ngstyle) (i : ir) : bool :=
  match text_of_o style i with
  | Ok text =>
    forallb in_alphabet text
    && match scan_ng style text with Ok sc => scanned_eqb sc (scanned_of style i) | Err _ => false end
  | Err _ => false
  end.

(* ------------------------------------------------------------------ *)
(* wire                                                                 *)
(* ------------------------------------------------------------------ *)

(* FAMILY: run_c01ng *)
Definition run_c01ng (fn : sexp) (args : list sexp) : option sexp :=
  match args with
  | [st; i] =>
    let? st := dec_ngstyle st in
    let? i := dec_ir i in
    if is_sym "c01_class_ng" fn then
      Some (if negb (in_domain_ng i) then sym "out-of-domain"
            else enc_option (fun k => enc_str (c01ng_class_name k)) (finding_class_C01_ng st i))
    else if is_sym "c01_text_ng" fn then Some (enc_outcome enc_str (text_of_o st i))
    else if is_sym "c01_scan_link_ng" fn then Some (enc_bool (scan_link_b st i))
    else if is_sym "c01_holds_ng" fn then
      Some (match roundtrip st i with
            | RtHolds => sym "true"
            | RtFails w => SList [sym "false"; enc_str w]
            | RtUnmodelled => sym "unmodelled"
            end)
    else None
  | _ => None
  end.
