(* C02Codec: definitions for the AST-level composition of C02
     parse_class d (emit_class ... i ...)
   with the docstring layer decoupled: the emitter takes the text of to_docstring as an input, the parser
   takes the IR d that parse.docstring returned for the class docstring.  What the composition needs of d is
   stated as the boolean doc_agrees (names, order and prose of the documented parameters).
   guard_C02_ast is the sub-domain on which the composition is proved; norm_C02 is the closed form of what
   comes back.  Definitions only. *)
From Coq Require Import List Ascii Bool Arith ZArith.
From Coq Require String.
Import String.StringSyntax.
From DT Require Import PyStr Sexp PyVal TyExpr Extracted PureUtils Defaults PyAst IR EmitAst ParseAst C02Spec.
Import ListNotations.

(* ================= the type fragment ================= *)

(* TyExpr trees that ty2expr turns into a node which show_expr prints as show_ty does:
   string literals without backslash / control characters / both kinds of quote mark, constants None, True,
   False only, no constant word in a dotted name, no empty subscript *)
Fixpoint ty_ok (t : ty) : bool :=
  match t with
  | TName parts => negb (existsb is_const_word parts) && match parts with [] => false | _ => true end
  | TSub head args =>
    negb (existsb is_const_word head) && match head with [] => false | _ => true end
    && match args with [] => false | _ => true end
    && forallb ty_ok args
  | TStrLit s => simple_text s
  | TIntLit _ => true
  | TConst v => match v with VNone | VBool _ => true | _ => false end
  | TList elts => forallb ty_ok elts
  end.

Fixpoint tys2exprs (l : list ty) : option (list expr) :=
  match l with
  | [] => Some []
  | x :: r => match ty2expr x, tys2exprs r with
              | Some a, Some b => Some (a :: b)
              | _, _ => None
              end
  end.

(* the node ast.parse gives for a type text, when the model decides it without the parse table and the
   text is canonical (what ast.unparse prints for that node) *)
Definition typ_ast (t : str) : option expr :=
  match strip t with
  | [] => None
  | _ =>
    if mem_c bt t && negb (mem_c sq t) && negb (mem_c dq t) then None
    else match t with
         | c :: _ =>
           if ascii_eqb c sp || ascii_eqb c tabch then None
           else if forallb printable t && negb (comma_before_rb t false) then
                  match parse_ty t with
                  | Some ty => if ty_ok ty && str_eqb (show_ty ty) t then ty2expr ty else None
                  | None => None
                  end
                else None
         | [] => None
         end
  end.

Definition is_Ok_bool (o : outcome bool) : bool := match o with Ok _ => true | Err _ => false end.
Definition Ok_true (o : outcome bool) : bool := match o with Ok b => b | Err _ => false end.

(* a declared type the class emitter and the class parser both handle inside the model *)
Definition typ_ok_C02 (t : str) : bool :=
  match typ_ast t with Some _ => true | None => false end
  && is_Ok_bool (needs_quoting (Some t))
  && str_eqb (bracket_fix t) t
  && negb (endswith google_opt t)
  && negb (str_eqb t (L "dict")) && negb (startswith [ch 42] t)
  && negb (str_eqb t (L "complex")).

(* ================= values ================= *)

(* a str default that travels unchanged through quote / set_value / unquote / _infer_default *)
Definition str_default_ok (s : str) : bool :=
  negb (both_ends dq s) && negb (both_ends sq s)
  && str_eqb (unquote s) s
  && negb (code_quoted s)
  && negb (in_none_types (VStr s)).

(* the two spellings of None the guard admits *)
Definition is_none_default (v : pyval) : bool :=
  match v with VNone => true | VStr s => str_eqb s NoneStr | _ => false end.

(* defaults per (scalar?, needs quoting?) class of the declared type *)
Definition default_ok_C02 (t : str) (d : option dval) : bool :=
  let nq := Ok_true (needs_quoting (Some t)) in
  match d with
  | None => true
  | Some (DV v) =>
    if in_simple_types t then
      if nq then match v with VStr s => str_default_ok s | _ => false end
      else str_eqb (type_name v) t && negb (pyval_eqb v (VFloat (L "-0.0")))
    else
      if is_none_default v then true
      else if nq then match v with VStr (c :: s) => str_default_ok (c :: s) | _ => false end
           else match v with VInt _ | VFloat _ | VBool _ => true | _ => false end
  | Some _ => false
  end.

Definition prose_ok_C02 (t : str) (g : gparam) : bool :=
  match prose_of g with
  | Some doc =>
    str_eqb (strip doc) doc && negb (mem_c nl doc)
    && (negb (prose_starts_optional doc) || startswith (L "Optional[") t)
  | None => true
  end.

Definition gparam_ok_C02 (g : gparam) : bool :=
  match g_typ g with
  | Has t => typ_ok_C02 t && prose_ok_C02 t g && default_ok_C02 t (g_default g)
  | _ => false
  end.

(* the name plays no part at the AST level (C02_domain keeps a leading star out; a name ending in kwargs only
   changes which branch of _set_name_and_type leaves the entry alone) *)
Definition param_ok_C02 (kv : str * gparam) : bool := gparam_ok_C02 (snd kv).

(* the return entry: as a parameter, without default (a return default is emitted through the parse table) *)
Definition return_ok_C02 (r : fld gparam) : bool :=
  match r with
  | Has g => gparam_ok_C02 g && match g_default g with None => true | Some _ => false end
  | _ => true
  end.

Definition no_carried_body (i : ir) : bool :=
  match ir_internal i with
  | None => true
  | Some it => match in_body it with [] => true | _ => false end
  end.

Definition guard_C02_ast (i : ir) : bool :=
  C02_domain i
  && negb (undocumented_precedes false (ir_params i))
  && forallb param_ok_C02 (ir_params i)
  && return_ok_C02 (ir_returns i)
  && no_carried_body i.

Definition prose_fld_of (g : gparam) : fld str :=
  match prose_of g with Some p => Has p | None => Missing end.

(* ================= the docstring hypothesis ================= *)

Definition documented (kv : str * gparam) : bool :=
  match prose_of (snd kv) with Some _ => true | None => false end.

(* what the docstring round trip provides (C01, ReST, emit_types off; parse.docstring(emit_default_doc=False) on the
   class docstring with :cvar read as :param): the IR d lists exactly the entries that have prose -- the return
   entry folded in under the name return_type -- in order, each with its prose; "returns" is None.  Types and
   defaults found in the docstring are irrelevant: every attribute overwrites them. *)
Definition doc_agrees (i d : ir) : bool :=
  same_params same_prose (filter documented (ir_params (class_fold_returns i))) (ir_params d)
  && match ir_returns d with FNone => true | _ => false end.

(* the canonical such IR (what the ReST parser returns when the docstring round trip holds) *)
Definition doc_ir_of (i : ir) : ir :=
  mkIR FNone (Has (L "static")) (ir_doc i)
       (map (fun kv => (fst kv, mkG (prose_fld_of (snd kv)) Missing None))
            (filter documented (ir_params (class_fold_returns i))))
       FNone None.

(* ================= the closed form of what comes back ================= *)

Definition canon_default (g : gparam) : dval :=
  match g_default (zero_default_norm_param g) with
  | Some (DV v) => if in_none_types v then DV (VStr NoneStr) else DV v
  | Some d => d
  | None => DV (VStr NoneStr)
  end.

Definition prose_fld (g : gparam) : fld str := prose_fld_of g.

Definition norm_param_C02 (g : gparam) : gparam :=
  mkG (prose_fld g) (g_typ g) (Some (canon_default g)).

Definition norm_params_C02 (ps : list (str * gparam)) : list (str * gparam) :=
  map (fun kv => (fst kv, norm_param_C02 (snd kv))) ps.

Definition norm_returns_C02 (r : fld gparam) : fld gparam :=
  match r with Has g => Has (norm_param_C02 g) | _ => FNone end.

(* the options of the oracle: emit_call off, default class name and bases *)
Definition emit_class_default (pt : ptable) (i : ir) (ww : bool) (tds : outcome str) : outcome (stmt * ir) :=
  emit_class pt i false (L "ConfigClass") [L "object"] [] ww tds.

(* the composition as an executable test: Some true = round trip with the closed form *)
Definition C02_roundtrip_b (pt : ptable) (i d : ir) (text : str) (ww it ww' : bool) : option bool :=
  match emit_class_default pt i ww (Ok text) with
  | Ok (s, _) =>
    match parse_class (Some (Ok d)) (CStmt s) None it ww' with
    | Ok i' => Some (list_eqb (fun a b => str_eqb (fst a) (fst b) && same_param_strict (snd a) (snd b))
                              (norm_params_C02 (ir_params i)) (ir_params i')
                     && same_interface_strict (zero_default_norm i) i')
    | Err _ => None
    end
  | Err _ => None
  end.

(* ================= the statement at full strength, and an executable form ================= *)

(* every IR of the supported domain, every option combination, every docstring IR that agrees: the emitted class
   parses back to the same interface up to the zero-value normalisation *)
Definition C02_ast_statement : Prop :=
  forall pt i cn bs ds ww text d it ww',
    C02_domain i = true -> doc_agrees i d = true ->
    exists s i0 i',
      emit_class pt i false cn bs ds ww (Ok text) = Ok (s, i0)
      /\ parse_class (Some (Ok d)) (CStmt s) None it ww' = Ok i'
      /\ same_interface (zero_default_norm i) i' = true.

(* the same at one point, as a computation (false also when the emitter or the parser raises) *)
Definition C02_ast_holds_b (pt : ptable) (i d : ir) (text : str) (ww it ww' : bool) : bool :=
  match emit_class_default pt i ww (Ok text) with
  | Ok (s, _) =>
    match parse_class (Some (Ok d)) (CStmt s) None it ww' with
    | Ok i' => same_interface (zero_default_norm i) i'
    | Err _ => false
    end
  | Err _ => false
  end.

(* ================= wire ================= *)

(* FAMILY: run_c02compose *)
Definition run_c02compose (fn : sexp) (args : list sexp) : option sexp :=
  if is_sym "c02_ast_check" fn then
    match args with
    | [i; ww; it; ww'] =>
      match dec_ir i, dec_bool ww, dec_bool it, dec_bool ww' with
      | Some i, Some ww, Some it, Some ww' =>
        Some (SList [enc_bool (guard_C02_ast i); enc_bool (doc_agrees i (doc_ir_of i));
                     enc_option enc_bool (C02_roundtrip_b [] i (doc_ir_of i) (L "Doc.") ww it ww')])
      | _, _, _, _ => None
      end
    | _ => None
    end
  else None.
