(* C04Codec: definitions for the AST-level composition of C04
     parse_argparse_ast di (emit_argparse ... i ...)
   with the docstring layer decoupled (the emitter takes the text of emit.docstring as an input, the parser takes
   the IR di that parse_docstring returned for the function docstring; neither matters for the parameters).
   guard_C04_ast is the sub-domain on which the composition is proved; norm_params_C04 is the closed form of what
   comes back (it threads the parser's require_default flag).  Definitions only. *)
From Coq Require Import List Ascii Bool Arith ZArith.
From Coq Require String.
Import String.StringSyntax.
From DT Require Import PyStr Sexp PyVal TyExpr Extracted PureUtils Defaults C17Spec PyAst IR EmitAst ParseAst C02Spec C04Spec.
Import ListNotations.

(* ================= what _resolve_arg computes from the type text alone ================= *)

(* _resolve_arg for a name that does not end in kwargs: the state after the walk; None = a branch the guard
   leaves out (class repr, dict, empty text, text outside TyExpr) *)
Definition resolve_plan (t : str) : option rstate :=
  if startswith class_prefix t then None
  else if in_simple_types t then Some (mkRs None None None (Some t))
  else if str_eqb t (L "dict") then None
  else match t with
       | [] => None
       | _ => match parse_ty_fix t with
              | Some tree => Some (fold_left parse_node_for_arg (walk tree) (mkRs None None None (Some (L "str"))))
              | None => None
              end
       end.

(* the shapes the theorem covers: T, Optional[T], List[T] for a scalar T *)
Record shape : Type := mkShape { sh_T : str; sh_append : bool; sh_optional : bool }.

Definition typ_of_shape (sh : shape) : str :=
  let a := if sh_append sh then L "List[" ++ sh_T sh ++ L "]" else sh_T sh in
  if sh_optional sh then L "Optional[" ++ a ++ L "]" else a.

Definition shape_of_typ (t : str) : option shape :=
  match resolve_plan t with
  | Some s =>
    match rs_typ s, rs_choices s with
    | Some T, None =>
      let app := match rs_action s with
                 | None => Some false
                 | Some a => if str_eqb a (L "append") then Some true else None
                 end in
      let opt := match rs_required s with None => Some false | Some false => Some true | Some true => None end in
      match app, opt with
      | Some a, Some o =>
        let sh := mkShape T a o in
        if scalar4 T && negb (a && o) && str_eqb (typ_of_shape sh) t then Some sh else None
      | _, _ => None
      end
    | _, _ => None
    end
  | None => None
  end.

(* Literal['a', 'b', ...] over two or more strings: the choices, when the parser rebuilds exactly this text *)
Fixpoint all_strs (vs : list pyval) : option (list str) :=
  match vs with
  | [] => Some []
  | VStr s :: r => option_map (cons s) (all_strs r)
  | _ :: _ => None
  end.

Definition literal_text (cs : list str) : str :=
  L "Literal[" ++ join (L ", ") (map (fun c => sq :: c ++ [sq]) cs) ++ L "]".

(* text set_value leaves as it is *)
Definition sv_stable (s : str) : bool := negb (both_ends dq s) && negb (both_ends sq s).

Definition literal_of_typ (t : str) : option (list str) :=
  match resolve_plan t with
  | Some s =>
    match rs_typ s, rs_choices s, rs_action s, rs_required s with
    | Some T, Some vs, None, None =>
      match all_strs vs with
      | Some cs =>
        if str_eqb T (L "str") && Nat.leb 2 (List.length cs) && forallb sv_stable cs && str_eqb (literal_text cs) t
        then Some cs else None
      | None => None
      end
    | _, _, _, _ => None
    end
  | None => None
  end.

(* ================= the keywords of one add_argument call ================= *)

Definition kws_of (typ2 : option str) (choices : option (list pyval)) (action1 : option str) (help : option str)
           (required2 : bool) (dflt : option pyval) : list (option str * expr) :=
  (match typ2 with
   | Some t => [kw "type" (EName (if str_eqb t (L "globals().__getitem__") then L "str" else t))]
   | None => []
   end)
  ++ (match choices with Some cs => [kw "choices" (ETuple (map set_value cs))] | None => [] end)
  ++ (match action1 with Some a => [kw "action" (set_value (VStr a))] | None => [] end)
  ++ (match help with Some h => [kw "help" (set_value (VStr h))] | None => [] end)
  ++ (if required2 then [kw "required" (set_value (VBool true))] else [])
  ++ (match dflt with Some v => [kw "default" (set_value v)] | None => [] end).

Definition option_arg (n : str) : list expr := [EConst (VStr (L "--" ++ n))].

(* ================= guard ================= *)

Definition help_ok_C04 (g : gparam) : bool :=
  match prose_of g with
  | Some h => no_announce h && sv_stable h
  | None => true
  end.

Definition default_ok_C04 (sh : shape) (d : option dval) : bool :=
  match d with
  | None => negb (sh_append sh) && (sh_optional sh || negb (str_eqb (sh_T sh) (L "bool")))
  | Some (DV v) =>
    str_eqb (type_name v) (sh_T sh)
    && match v with
       | VStr s => sv_stable s && negb (code_quoted s) && negb (in_none_types (VStr s))
       | _ => true
       end
  | Some _ => false
  end.

(* a str default that travels unchanged *)
Definition str_default_ok_C04 (d : option dval) : bool :=
  match d with
  | Some (DV (VStr s)) => sv_stable s && negb (code_quoted s) && negb (in_none_types (VStr s))
  | _ => false
  end.

Definition gparam_ok_C04 (g : gparam) : bool :=
  match g_typ g with
  | Has t => match shape_of_typ t with
             | Some sh => help_ok_C04 g && default_ok_C04 sh (g_default g)
             | None => match literal_of_typ t with
                       | Some _ => help_ok_C04 g && str_default_ok_C04 (g_default g)
                       | None => false
                       end
             end
  | _ => false
  end.

Definition plain_name_C04 (n : str) : bool := negb (endswith (L "kwargs") n).

Definition param_ok_C04 (kv : str * gparam) : bool := plain_name_C04 (fst kv) && gparam_ok_C04 (snd kv).

(* no return entry with a default (it is emitted through the parse table / re-quoted), no carried body *)
Definition return_ok_C04 (i : ir) : bool :=
  match return_with_default i with Some _ => false | None => true end.

Definition no_carried_body_C04 (i : ir) : bool :=
  match ir_internal i with
  | None => true
  | Some it => match in_body it with [] => true | _ => false end
  end.

Definition doc_ok_C04 (i : ir) : bool :=
  match ir_doc i with Has d => sv_stable d | _ => false end.

Definition guard_C04_ast (i : ir) : bool :=
  C04_domain i && forallb param_ok_C04 (ir_params i) && return_ok_C04 i && no_carried_body_C04 i && doc_ok_C04 i.

(* ================= the closed form of what comes back ================= *)

Definition help_fld (g : gparam) : fld str :=
  match prose_of g with Some h => Has h | None => FNone end.

Definition zero_dval (T : str) : dval :=
  match simple_type_zero T with Some z => DV z | None => DV (VStr NoneStr) end.

(* one parameter, given the parser's require_default flag on entry *)
Definition norm_param_C04 (rd : bool) (g : gparam) : gparam :=
  match g_typ g with
  | Has t =>
    match shape_of_typ t with
    | Some sh =>
      mkG (help_fld g) (Has t)
          (match g_default g with
           | Some d => Some d
           | None => if sh_optional sh then (if rd then Some (DV (VStr NoneStr)) else None)
                     else Some (zero_dval (sh_T sh))
           end)
    | None => mkG (help_fld g) (Has t) (g_default g)         (* Literal[...]: the default is explicit *)
    end
  | _ => g
  end.

Fixpoint norm_params_C04 (rd : bool) (ps : list (str * gparam)) : list (str * gparam) :=
  match ps with
  | [] => []
  | (n, g) :: r =>
    let p := norm_param_C04 rd g in
    (n, p) :: norm_params_C04 (rd || match g_default p with Some _ => true | None => false end) r
  end.

(* ================= the statement at full strength, and an executable form ================= *)

Definition C04_ast_statement : Prop :=
  forall pt i edd fn ft wd ww ds di ft' fnm,
    C04_domain i = true ->
    exists s i0 i',
      emit_argparse pt i edd fn ft wd ww (Ok ds) = Ok (s, i0)
      /\ parse_argparse_ast (Ok di) s ft' fnm = Ok i'
      /\ same_interface_argparse (argparse_type_norm i) i' = true.

Definition empty_doc_ir : ir := mkIR FNone (Has (L "static")) (Has []) [] FNone None.

Definition C04_ast_holds_b (pt : ptable) (i : ir) (edd wd ww : bool) : bool :=
  match emit_argparse pt i edd (Some (L "set_cli_args")) (Some (L "static")) wd ww (Ok (L "Doc.")) with
  | Ok (s, _) =>
    match parse_argparse_ast (Ok empty_doc_ir) s None None with
    | Ok i' => same_interface_argparse (argparse_type_norm i) i'
    | Err _ => false
    end
  | Err _ => false
  end.

(* closed form reached? *)
Definition C04_closed_form_b (pt : ptable) (i : ir) (edd : bool) : option bool :=
  match emit_argparse pt i edd (Some (L "set_cli_args")) (Some (L "static")) false false (Ok (L "Doc.")) with
  | Ok (s, _) =>
    match parse_argparse_ast (Ok empty_doc_ir) s None None with
    | Ok i' => Some (list_eqb (fun a b => str_eqb (fst a) (fst b) && same_param_strict (snd a) (snd b))
                              (norm_params_C04 false (ir_params i)) (ir_params i')
                     && same_description i i')
    | Err _ => None
    end
  | Err _ => None
  end.

(* ================= wire ================= *)

(* FAMILY: run_c04compose *)
Definition run_c04compose (fn : sexp) (args : list sexp) : option sexp :=
  if is_sym "c04_ast_check" fn then
    match args with
    | [i; edd] =>
      match dec_ir i, dec_bool edd with
      | Some i, Some edd =>
        Some (SList [enc_bool (guard_C04_ast i); enc_bool (C04_ast_holds_b [] i edd false false);
                     enc_option enc_bool (C04_closed_form_b [] i edd)])
      | _, _ => None
      end
    | _ => None
    end
  else None.
