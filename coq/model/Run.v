(* Run: request dispatcher used by the correspondence check.  One request per line:
   (function-name arg ...)  ->  one result line.  All decoding/encoding is done here, in Gallina,
   so the same [handle_line] runs extracted (volume) and under vm_compute (cross-check). *)
From Coq Require Import List Ascii Bool Arith ZArith.
From Coq Require String.
Import String.StringSyntax.
From DT Require Import PyStr Sexp PyVal TyExpr PureUtils Defaults.
Import ListNotations.

Definition opt_bind {A B} (x : option A) (f : A -> option B) : option B :=
  match x with Some a => f a | None => None end.
Notation "'let?' x := e1 'in' e2" := (opt_bind e1 (fun x => e2)) (at level 200, x pattern, e1 at level 100, e2 at level 200).

Definition enc_strs := enc_list enc_str.

(* FAMILY: run_defaults *)
Definition run_defaults (fn : sexp) (args : list sexp) : option sexp :=
  if is_sym "extract_default" fn then
    match args with
    | [line; rs; ann; typ; emit] =>
      let? line := dec_str line in
      let? rs := dec_bool rs in
      let? ann := dec_option (dec_list dec_str) ann in
      let? typ := dec_option dec_str typ in
      let? emit := dec_bool emit in
      let ann' := match ann with Some a => a | None => default_announces end in
      Some (enc_outcome (enc_pair enc_str (enc_option enc_pyval))
                        (extract_default line rs ann' typ emit))
    | _ => None
    end
  else if is_sym "set_default_doc" fn then
    match args with
    | [name; p; emit] =>
      let? name := dec_str name in
      let? p := dec_param p in
      let? emit := dec_bool emit in
      Some (enc_outcome enc_param (set_default_doc name p emit))
    | _ => None
    end
  else if is_sym "remove_default_from_param" fn then
    match args with
    | [p; prop] =>
      let? p := dec_param p in
      let? prop := dec_bool prop in
      Some (enc_outcome enc_param (remove_default_from_param p prop))
    | _ => None
    end
  else if is_sym "needs_quoting" fn then
    match args with
    | [typ] => let? typ := dec_option dec_str typ in
               Some (enc_outcome enc_bool (needs_quoting typ))
    | _ => None
    end
  else if is_sym "quote" fn then
    match args with
    | [v] => let? v := dec_pyval v in Some (enc_outcome enc_pyval (quote_val v))
    | _ => None
    end
  else if is_sym "unquote" fn then
    match args with
    | [s] => let? s := dec_str s in Some (enc_str (unquote s))
    | _ => None
    end
  else if is_sym "code_quoted" fn then
    match args with
    | [s] => let? s := dec_str s in Some (enc_bool (code_quoted s))
    | _ => None
    end
  else if is_sym "location_within" fn then
    match args with
    | [c; elems; fold] =>
      let? c := dec_str c in
      let? elems := dec_list dec_str elems in
      let? fold := dec_bool fold in
      Some (enc_option (fun '(a, b, e) => SList [enc_nat a; enc_nat b; enc_str e])
                       (location_within (if fold then casefold else (fun x => x)) c elems))
    | _ => None
    end
  else None.

(* FAMILY: run_pystr *)
Definition run_pystr (fn : sexp) (args : list sexp) : option sexp :=
  match args with
  | [a] =>
    let? a := dec_str a in
    if is_sym "strip" fn then Some (enc_str (strip a))
    else if is_sym "lstrip" fn then Some (enc_str (lstrip a))
    else if is_sym "rstrip" fn then Some (enc_str (rstrip a))
    else if is_sym "casefold" fn then Some (enc_str (casefold a))
    else if is_sym "isdecimal" fn then Some (enc_bool (isdecimal a))
    else if is_sym "isspace" fn then Some (enc_bool (str_isspace a))
    else if is_sym "splitlines" fn then Some (enc_strs (splitlines a))
    else if is_sym "float" fn then Some (enc_outcome enc_str (float_of_str a))
    else if is_sym "literal_eval" fn then Some (enc_outcome enc_pyval (literal_eval_scalar a))
    else if is_sym "deindent" fn then Some (enc_str (deindent a))
    else if is_sym "multiline" fn then Some (enc_str (multiline_sq a))
    else if is_sym "multiline_nq" fn then Some (enc_str (multiline_noquote a))
    else if is_sym "paren_wrap_code" fn then Some (enc_str (paren_wrap_code a))
    else if is_sym "parse_show_ty" fn then
      Some (enc_option enc_str (option_map show_ty (parse_ty_fix a)))
    else if is_sym "parse_ty" fn then
      Some (enc_option enc_ty (parse_ty_fix a))
    else None
  | [a; b] =>
    let? a := dec_str a in
    if is_sym "reindent" fn then
      let? n := dec_nat b in Some (enc_str (reindent a n))
    else
    let? b := dec_str b in
    if is_sym "split" fn then Some (enc_strs (split a b))
    else if is_sym "find" fn then Some (enc_Z (find_z a b 0))
    else if is_sym "count" fn then Some (enc_nat (count a b))
    else if is_sym "startswith" fn then Some (enc_bool (startswith a b))
    else if is_sym "endswith" fn then Some (enc_bool (endswith a b))
    else if is_sym "strip_chars" fn then Some (enc_str (strip_chars a b))
    else if is_sym "partition" fn then
      let '(x, y, z) := partition a b in Some (enc_strs [x; y; z])
    else if is_sym "indent" fn then Some (enc_str (indent a b))
    else if is_sym "strip_split" fn then Some (enc_strs (strip_split a b))
    else None
  | [a; b; c] =>
    let? a := dec_str a in
    if is_sym "indent_all_but_first" fn then
      let? n := dec_nat b in let? w := dec_bool c in Some (enc_str (indent_all_but_first a n w))
    else
    let? b := dec_str b in
    let? c := dec_str c in
    if is_sym "replace" fn then Some (enc_str (replace a b c))
    else if is_sym "replace1" fn then Some (enc_str (replace1 a b c))
    else None
  | _ => None
  end.

Definition families : list (sexp -> list sexp -> option sexp) := [run_defaults; run_pystr].

Fixpoint first_some {A} (fs : list (sexp -> list sexp -> option A)) (fn : sexp) (args : list sexp) : option A :=
  match fs with
  | [] => None
  | f :: r => match f fn args with Some a => Some a | None => first_some r fn args end
  end.

Definition dispatch_with (fams : list (sexp -> list sexp -> option sexp)) (req : sexp) : sexp :=
  match req with
  | SList (fn :: args) =>
    match first_some fams fn args with Some r => r | None => bad_request end
  | _ => bad_request
  end.

Definition handle_line_with fams (line : str) : str :=
  match parse_sexp line with
  | Some req => print_sexp (dispatch_with fams req)
  | None => print_sexp bad_request
  end.

Definition handle_line := handle_line_with families.
