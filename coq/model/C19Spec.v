(* C19Spec: the statement of property C19 over the model of gen (model/Gen.v), the facts about
   Python's parser the theorems assume, the boolean guard of the proved region and the finding
   classes that make up its complement.  Definitions only (executable: the harness evaluates the
   classifier through the driver). *)
From Coq Require Import List Ascii Bool Arith ZArith Permutation.
From Coq Require String.
Import String.StringSyntax.
From DT Require Import PyStr Sexp PyVal Gen.
Import ListNotations.

(* ------------------------------------------------------------------ what is assumed of ast.parse *)
(* a statement whose ast.unparse text parses back to exactly that statement (also in the docstring
   rendering when it is a string statement) *)
Definition wf_top (parse_src : str -> option (list top)) (t : top) : Prop :=
  parse_src (top_text t) = Some [t] /\ parse_src (first_text t) = Some [t].

(* Facts about CPython's ast.parse / ast.unparse that the theorems use.  They are about Python, not
   about doctrans; harness/prop_C19.py tests each of them on the texts of every run.
   Tags of top-level statements do not depend on the position of the statement. *)
Record python_like (parse_src : str -> option (list top)) : Prop := mkPythonLike {
  (* the empty text is the empty module *)
  P_empty : parse_src [] = Some [];
  (* two texts that parse on their own parse, separated by a newline, into the concatenation *)
  P_concat : forall a b ta tb, parse_src a = Some ta -> parse_src b = Some tb ->
                               parse_src (a ++ nl :: b) = Some (ta ++ tb);
  (* a leading blank line and a trailing newline change nothing *)
  P_blank : forall b, parse_src (nl :: b) = parse_src b;
  P_trail : forall a, parse_src (a ++ [nl]) = parse_src a;
  (* ast.unparse output parses back to the same statement *)
  P_canon : forall s tops, parse_src s = Some tops -> Forall (wf_top parse_src) tops;
  (* the text of the __all__ assignment over quote-free printable names is that assignment *)
  P_all : forall names, forallb safe_name names = true ->
                        parse_src (all_text names) = Some [TAll names (all_text names)]
}.

(* ------------------------------------------------------------------ vocabulary of the theorems *)
(* sort key of the hoisting: __future__ imports, other imports, everything else *)
Definition rank (t : top) : nat := if is_future t then 0 else if is_import t then 1 else 2.
Definition nonimp (t : top) : bool := negb (is_import t).
Definition rank_is (k : nat) (t : top) : bool := Nat.eqb (rank t) k.

(* the three-way stable partition the hoisting performs on what follows the docstring *)
Definition hoist3 (l : list top) : list top :=
  filter is_future l ++ filter is_plain_import l ++ filter nonimp l.

Definition doc_part (body : list top) : list top := if has_doc body then firstn 1 body else [].
Definition rest_part (body : list top) : list top := if has_doc body then skipn 1 body else body.

(* statements that are neither imports nor string statements *)
Definition plain_stmt (t : top) : bool :=
  match t with TStr _ _ _ => false | TImport _ _ => false | _ => true end.

(* template text without braces *)
Definition brace_free (s : str) : bool :=
  forallb (fun c => negb (ascii_eqb c lbrace || ascii_eqb c rbrace)) s.

(* the texts returned for the entries, in mapping order *)
Definition texts_of (es : list entry) : list str :=
  map (fun e => match e_res e with Emitted t => t | _ => [] end) es.

(* ------------------------------------------------------------------ the input of the property *)
Inductive route : Type := ViaApi | ViaCli.

(* syntactic facts about the source object of a mapping entry; used only to name the finding class
   of an entry whose conversion raised *)
Record entry_feat : Type := mkFeat {
  f_is_function : bool;
  f_documented : bool;      (* the function, or the class itself, has a docstring *)
  f_n_params : nat;         (* parameters of the function / of __init__ besides self *)
  f_n_required : nat;       (* how many of them have no default value *)
  f_doc_params : bool;      (* that docstring (for a class: the one of __init__) has :param lines *)
  f_annotated : bool;       (* the signature carries annotations *)
  f_returns : bool          (* the function returns a value *)
}.

Record c19_in : Type := mkC19 {
  ci_via : route;
  ci_gen : gen_in;                 (* as for Gen.gen; gi_prepend is the decoded text *)
  ci_prepend_raw : option str;     (* what is typed after --prepend (ViaCli only) *)
  ci_feats : list entry_feat;      (* one per mapping entry *)
  ci_existing : option str         (* content of the output file when it already exists *)
}.

Definition is_some {A} (o : option A) : bool := match o with Some _ => true | None => false end.

(* the command line for this input: every required option present *)
Definition cli_of (x : c19_in) : cli_args :=
  let gi := ci_gen x in
  mkCli (Some (gi_name_tpl gi)) (Some (gi_input_mapping gi)) (Some (gi_type gi)) (Some (L "out.py"))
        (ci_prepend_raw x)
        (match gi_imports_from_file gi with Some _ => Some (L "imports_from") | None => None end)
        (o_emit_call (gi_opts gi))
        (match o_decorator_list (gi_opts gi) with Some l => l | None => [] end).

(* gen as main calls it: emit_default_doc keeps its default True *)
Definition gen_in_of_call (c : gen_call) (gi : gen_in) : gen_in :=
  mkGenIn (gc_name_tpl c) (gc_input_mapping c) (gi_mapping gi) (gc_type c) (gc_prepend c)
          (gi_imports_from_file gi) (gi_prepend_eval gi)
          (mkOpts (gc_emit_call c) true (gc_decorator_list c)).

Definition xSystemExit : exn := L "SystemExit".

(* outcome and the output file afterwards *)
Definition run_c19 (parse_src : str -> option (list top)) (x : c19_in) : gout gen_ok * option str :=
  match ci_via x with
  | ViaApi =>
    let r := snd (gen parse_src (ci_gen x)) in (r, file_after (ci_existing x) r)
  | ViaCli =>
    match cli_gen (cli_of x) (is_some (ci_existing x)) with
    | CliRun c =>
      let r := snd (gen parse_src (gen_in_of_call c (ci_gen x))) in (r, file_after (ci_existing x) r)
    | CliRaise k => (GErr k, ci_existing x)
    | CliUsage => (GErr xSystemExit, ci_existing x)
    | CliUnmodelled => (GErr xUnmodelled, ci_existing x)
    end
  end.

(* ------------------------------------------------------------------ the property at one input *)
(* global__all__ as it should be: the template applied to every key, in mapping order *)
Fixpoint names_of (tpl : str) (es : list entry) : gout (list str) :=
  match es with
  | [] => GOk []
  | e :: r =>
    match format_name tpl (e_name e), names_of tpl r with
    | GOk n, GOk ns => GOk (n :: ns)
    | GErr k, _ => GErr k
    | _, GErr k => GErr k
    end
  end.

(* the statements of the prepended text followed by the import statements of the imports file *)
Definition header_of (parse_src : str -> option (list top)) (gi : gen_in) : option (list top) :=
  match (match gi_prepend gi with None => Some [] | Some p => parse_src p end),
        (match gi_imports_from_file gi with
         | None => Some []
         | Some (GOk f) => option_map get_at_root_imports (parse_src f)
         | Some (GErr _) => None
         end) with
  | Some a, Some b => Some (a ++ b)
  | _, _ => None
  end.

(* the import statements gen takes from the imports file, and the text it makes of them *)
Definition file_imports (parse_src : str -> option (list top)) (gi : gen_in) : list top :=
  match gi_imports_from_file gi with
  | Some (GOk f) => match parse_src f with Some tops => get_at_root_imports tops | None => [] end
  | _ => []
  end.

Definition imports_text (parse_src : str -> option (list top)) (gi : gen_in) : str :=
  join [nl] (map top_text (file_imports parse_src gi)).

Definition is_def_named (n : str) (d : top) : Prop := exists c t, d = TDef c n t.

(* output exists: refusal, file untouched.  Otherwise: the run ends normally and creates the file;
   its text parses; it consists of the header statements (each once, in some order), then exactly
   one definition per mapping entry named by the template in mapping order, then __all__ listing
   exactly those names *)
Definition C19_at (parse_src : str -> option (list top)) (x : c19_in) : Prop :=
  match ci_existing x with
  | Some old =>
    (exists k, fst (run_c19 parse_src x) = GErr k) /\ snd (run_c19 parse_src x) = Some old
  | None =>
    exists g es names header hdr defs,
      fst (run_c19 parse_src x) = GOk g
      /\ snd (run_c19 parse_src x) = Some (g_written g)
      /\ gi_mapping (ci_gen x) = GOk es
      /\ names_of (gi_name_tpl (ci_gen x)) es = GOk names
      /\ g_all g = names
      /\ header_of parse_src (ci_gen x) = Some header
      /\ Permutation hdr header
      /\ parse_src (g_written g) = Some (hdr ++ defs ++ [TAll names (all_text names)])
      /\ Forall2 is_def_named names defs
  end.

(* ------------------------------------------------------------------ domain *)
(* an emitted text is one definition carrying the generated name, and is its own unparse text *)
Definition entry_wf (parse_src : str -> option (list top)) (tpl : str) (e : entry) : bool :=
  match e_res e with
  | Emitted t =>
    match parse_src t, format_name tpl (e_name e) with
    | Some [TDef _ n t'], GOk nm => str_eqb n nm && str_eqb t' t
    | _, _ => false
    end
  | _ => true
  end.

Definition prepend_consistent (x : c19_in) : bool :=
  match ci_via x with
  | ViaApi => true
  | ViaCli =>
    match ci_prepend_raw x, gi_prepend (ci_gen x) with
    | None, None => true
    | Some raw, Some p => match decode_escape raw with GOk p' => str_eqb p' p | GErr _ => false end
    | _, _ => false
    end
  end.

(* well-formed invocations in a well-formed world: a usable template, a mapping that resolves,
   prepend text and imports file that are valid Python and importable, emitters that return one
   definition with the name they were given *)
Definition C19_domain (parse_src : str -> option (list top)) (x : c19_in) : bool :=
  let gi := ci_gen x in
  known_type (gi_type gi)
  && has_dot (gi_input_mapping gi)
  && prepend_consistent x
  && is_some (header_of parse_src gi)
  && negb (is_some (gi_prepend_eval gi))
  && (match gi_imports_from_file gi, gi_prepend gi with
      | Some _, Some p => if nonempty p then is_some (parse_src (strip p)) else true
      | _, _ => true
      end)
  && match gi_mapping gi with
     | GOk es =>
       match names_of (gi_name_tpl gi) es with
       | GOk names => forallb safe_name names
       | GErr _ => false
       end
       && forallb (entry_wf parse_src (gi_name_tpl gi)) es
       && Nat.eqb (List.length (ci_feats x)) (List.length es)
     | GErr _ => false
     end.

(* ------------------------------------------------------------------ finding classes *)
Inductive c19_class : Type :=
| K_api_appends            (* gen() itself never looks at the output file: an existing one is appended to *)
| K_entry_undocumented     (* object without docstring: parse._inspect reads ir["params"] of an empty IR *)
| K_entry_no_params        (* function without parameters: next(iter(sig.parameters.values())) *)
| K_entry_returns_argparse (* function returning a value, type_ "argparse" *)
| K_entry_returns_function (* function returning a value, type_ "function" *)
| K_entry_annotated        (* annotated signature with documented parameters, type_ "class" or "function" *)
| K_entry_untyped_param.   (* type_ "function": a parameter with no type in docstring, signature or default *)

Definition class_name (k : c19_class) : str :=
  match k with
  | K_api_appends => L "api-appends-to-existing-output"
  | K_entry_undocumented => L "entry-undocumented-callable"
  | K_entry_no_params => L "entry-function-without-parameters"
  | K_entry_returns_argparse => L "entry-function-returns-argparse"
  | K_entry_returns_function => L "entry-function-returns-function"
  | K_entry_annotated => L "entry-annotated-callable"
  | K_entry_untyped_param => L "entry-untyped-parameter-function"
  end.

Definition is_emitted (e : entry) : bool := match e_res e with Emitted _ => true | _ => false end.

(* features of the first entry whose conversion did not produce a text *)
Fixpoint first_failed (es : list entry) (fs : list entry_feat) : option entry_feat :=
  match es, fs with
  | e :: r, f :: fr => if is_emitted e then first_failed r fr else Some f
  | _, _ => None
  end.

Definition entry_class (type_ : str) (f : entry_feat) : option c19_class :=
  if negb (f_documented f) then Some K_entry_undocumented
  else if f_is_function f && Nat.eqb (f_n_params f) 0 then Some K_entry_no_params
  else if f_is_function f && f_returns f && str_eqb type_ (L "argparse") then Some K_entry_returns_argparse
  else if f_is_function f && f_returns f && str_eqb type_ (L "function") then Some K_entry_returns_function
  else if f_is_function f && f_annotated f && f_doc_params f
          && (str_eqb type_ (L "class") || str_eqb type_ (L "function")) then Some K_entry_annotated
  else if str_eqb type_ (L "function") && negb (f_doc_params f) && negb (f_annotated f)
          && Nat.ltb 0 (f_n_required f) then Some K_entry_untyped_param
  else None.

Definition entries_of (gi : gen_in) : list entry :=
  match gi_mapping gi with GOk es => es | GErr _ => [] end.

Definition finding_class_C19 (parse_src : str -> option (list top)) (x : c19_in) : option c19_class :=
  let gi := ci_gen x in
  match ci_existing x with
  | Some _ => match ci_via x with ViaApi => Some K_api_appends | ViaCli => None end
  | None =>
    if negb (forallb is_emitted (entries_of gi)) then
      match first_failed (entries_of gi) (ci_feats x) with
      | Some f => entry_class (gi_type gi) f
      | None => None
      end
    else None
  end.

(* the proved region: in the domain, outside every class, every entry converted *)
Definition guard_C19 (parse_src : str -> option (list top)) (x : c19_in) : bool :=
  C19_domain parse_src x
  && match finding_class_C19 parse_src x with None => true | Some _ => false end
  && (is_some (ci_existing x) || forallb is_emitted (entries_of (ci_gen x))).

(* ------------------------------------------------------------------ wire *)
Definition dec_feat (e : sexp) : option entry_feat :=
  match e with
  | SList [a; b; c; r; d; f; g] =>
    let?? a := dec_bool a in let?? b := dec_bool b in let?? c := dec_nat c in let?? r := dec_nat r in
    let?? d := dec_bool d in let?? f := dec_bool f in let?? g := dec_bool g in
    Some (mkFeat a b c r d f g)
  | _ => None
  end.

Definition dec_route (e : sexp) : option route :=
  if is_sym "api" e then Some ViaApi else if is_sym "cli" e then Some ViaCli else None.

Definition dec_c19_in (e : sexp) : option c19_in :=
  match e with
  | SList [via; gi; raw; feats; existing] =>
    let?? via := dec_route via in
    let?? gi := dec_gen_in gi in
    let?? raw := dec_option dec_str raw in
    let?? feats := dec_list dec_feat feats in
    let?? existing := dec_option dec_str existing in
    Some (mkC19 via gi raw feats existing)
  | _ => None
  end.

(* what the model says happens, in the vocabulary of the oracle *)
Definition enc_run (r : gout gen_ok * option str) : sexp :=
  SList [match fst r with
         | GOk g => SList [sym "ok"; enc_str (g_written g); enc_list enc_str (g_all g)]
         | GErr k => SList [sym "err"; Atom k]
         end;
         enc_option enc_str (snd r)].

(* FAMILY: run_c19fam *)
Definition run_c19fam (fn : sexp) (args : list sexp) : option sexp :=
  match args with
  | [x; tab] =>
    match dec_c19_in x, dec_table tab with
    | Some x, Some tab =>
      let ps := table_parse tab in
      if is_sym "c19_class" fn then
        Some (if negb (C19_domain ps x) then sym "out-of-domain"
              else SList [enc_option (fun k => enc_str (class_name k)) (finding_class_C19 ps x);
                          enc_bool (guard_C19 ps x)])
      else if is_sym "c19_run" fn then Some (enc_run (run_c19 ps x))
      else None
    | _, _ => None
    end
  | _ => None
  end.

(* ------------------------------------------------------------------ the full statement *)
(* for a given account of what ast.parse does: every well-formed invocation satisfies C19 *)
Definition C19_statement (parse_src : str -> option (list top)) : Prop :=
  forall x, C19_domain parse_src x = true -> C19_at parse_src x.
