(* Sync: doctrans.conformance (_conform_filename, ground_truth, _get_name_from_namespace,
   _default_options) over the FS model.  The conversion layers (emitters, parsers, ast_parse,
   find_in_ast, RewriteAtQuery, cmp_ast, to_code+black) are Section variables: the control logic
   -- which branch, which mode, which order, which flag, what is printed -- is what this file models.
   Definitions only. *)
From Coq Require Import List Ascii Bool Arith ZArith.
From Coq Require String.
Import String.StringSyntax.
From DT Require Import PyStr Sexp PyVal PureUtils FS.
Import ListNotations.

Inductive kind : Type := KArgparse | KClass | KFunction.

Definition kind_eqb (a b : kind) : bool :=
  match a, b with
  | KArgparse, KArgparse | KClass, KClass | KFunction, KFunction => true
  | _, _ => false
  end.

(* iteration order of arg2parse_emit_type *)
Definition kinds_in_order : list kind := [KArgparse; KClass; KFunction].

Section Sync.
  Variables (node tree irT opts : Type).
  Variable emit_k : kind -> irT -> opts -> outcome node.
  Variable parse_file : path -> bytes -> outcome tree.         (* ast_parse(f.read(), filename) *)
  Variable find : list str -> tree -> option node.             (* find_in_ast *)
  Variable rewrite : list str -> node -> tree -> tree * bool.  (* RewriteAtQuery(search, n).visit(tree), .replaced *)
  Variable cmp : node -> node -> bool.                         (* cmp_ast *)
  Variable render_node : node -> outcome bytes.                (* to_code(Module([n])) then black *)
  Variable render_tree : tree -> outcome bytes.
  Variable opts_of : option node -> list str -> kind -> opts.  (* _default_options(node, search, type_wanted)() *)
  Variable type_ok : kind -> node -> bool.                     (* type(replacement_node) == type_wanted *)
  Variable parse_truth : kind -> option node -> list str -> outcome irT.

  Definition out3 (A : Type) : Type := (fsys * outcome A * list str)%type.

  Definition lift_write (r : fsys * outcome unit) (flag : bool) (printed : list str) : out3 bool :=
    match r with
    | (fs', Ok _) => (fs', Ok flag, printed)
    | (fs', Err e) => (fs', Err e, printed)
    end.

  (* _conform_filename(filename, search, emit_func, replacement_node_ir, type_wanted) *)
  Definition conform (fs : fsys) (file : path) (search : list str) (k : kind) (ir : irT) (f : fault)
    : out3 bool :=
    match fs_get file fs with
    | None =>
      match emit_k k ir (opts_of None search k) with
      | Err e => (fs, Err e, [])
      | Ok n => lift_write (emit_file fs file Wt (render_node n) f) true []
      end
    | Some content =>
      match parse_file file content with
      | Err e => (fs, Err e, [])
      | Ok t =>
        let orig := find search t in
        match emit_k k ir (opts_of orig search k) with
        | Err e => (fs, Err e, [])
        | Ok n =>
          match orig with
          | None => lift_write (emit_file fs file Ap (render_node n) f) true []
          | Some o =>
            match search with
            | [] => (fs, Err AssertionError, [])
            | _ =>
              if negb (type_ok k n) then (fs, Err AssertionError, [])
              else if cmp o n then (fs, Ok false, [])
              else
                let '(t', replaced) := rewrite search n t in
                let printed := [(if replaced then L "modified" else L "unchanged") ++ [tabch] ++ file] in
                if replaced then lift_write (emit_file fs file Wt (render_tree t') f) true printed
                else (fs, Ok false, printed)
            end
          end
        end
      end
    end.

  (* Namespace as seen by ground_truth: per kind the *_names attribute and the files attribute,
     each None or a list *)
  Record sync_args : Type := mkSyncArgs {
    sa_truth : kind;
    sa_names : kind -> option (list str);
    sa_files : kind -> option (list path)
  }.

  (* _get_name_from_namespace(args, fun_name): getattr(args, fun_name + "_names")[0] *)
  Definition name_of (a : sync_args) (k : kind) : outcome str :=
    match sa_names a k with
    | None => Err TypeError           (* None[0] *)
    | Some [] => Err IndexError
    | Some (n :: _) => Ok n
    end.

  (* one kind's files, left to right; stops at the first exception (effects so far stay) *)
  Fixpoint conform_files (fs : fsys) (truth_path : path) (files : list path) (search : list str)
           (k : kind) (ir : irT) (faults : path -> fault) (acc : list (path * bool)) (printed : list str)
    : out3 (list (path * bool)) :=
    match files with
    | [] => (fs, Ok acc, printed)
    | file :: rest =>
      if str_eqb file truth_path then
        conform_files fs truth_path rest search k ir faults (acc ++ [(truth_path, false)]) printed
      else
        match conform fs file search k ir (faults file) with
        | (fs', Ok flag, pr) =>
          conform_files fs' truth_path rest search k ir faults (acc ++ [(file, flag)]) (printed ++ pr)
        | (fs', Err e, pr) => (fs', Err e, printed ++ pr)
        end
    end.

  Fixpoint conform_kinds (fs : fsys) (a : sync_args) (truth_path : path) (ks : list kind) (ir : irT)
           (faults : path -> fault) (acc : list (path * bool)) (printed : list str)
    : out3 (list (path * bool)) :=
    match ks with
    | [] => (fs, Ok acc, printed)
    | k :: rest =>
      match sa_files a k with
      | None => conform_kinds fs a truth_path rest ir faults acc printed
      | Some files =>
        match name_of a k with
        | Err e => (fs, Err e, printed)
        | Ok nm =>
          match conform_files fs truth_path files (strip_split [ch 46] nm) k ir faults acc printed with
          | (fs', Ok acc', pr) => conform_kinds fs' a truth_path rest ir faults acc' pr
          | r => r
          end
        end
      end
    end.

  (* ground_truth(args, truth_file); paths are already real paths *)
  Definition ground_truth (fs : fsys) (a : sync_args) (truth_path : path) (faults : path -> fault)
    : out3 (list (path * bool)) :=
    match name_of a (sa_truth a) with
    | Err e => (fs, Err e, [])
    | Ok nm =>
      let search := split [ch 46] nm in
      match fs_get truth_path fs with
      | None => (fs, Err IOError, [])
      | Some content =>
        match parse_file truth_path content with
        | Err e => (fs, Err e, [])
        | Ok t =>
          match parse_truth (sa_truth a) (find search t) search with
          | Err e => (fs, Err e, [])
          | Ok ir => conform_kinds fs a truth_path kinds_in_order ir faults [] []
          end
        end
      end
    end.

  (* the returned OrderedDict: later entries for the same file overwrite the flag, first position kept *)
  Fixpoint effect_dict (l : list (path * bool)) (acc : list (path * bool)) : list (path * bool) :=
    match l with
    | [] => acc
    | (p, b) :: r =>
      effect_dict r
        ((fix upd (d : list (path * bool)) : list (path * bool) :=
            match d with
            | [] => [(p, b)]
            | (q, c) :: d' => if str_eqb p q then (q, b) :: d' else (q, c) :: upd d'
            end) acc)
    end.
End Sync.

Arguments conform {node tree irT opts}.
Arguments ground_truth {node tree irT opts}.
Arguments conform_files {node tree irT opts}.
Arguments conform_kinds {node tree irT opts}.

(* ---- tabulated instance: one conform call replayed from the answers recorded in a real run ---- *)
Record answers : Type := mkAnswers {
  an_emit : outcome unit;
  an_parse : outcome unit;
  an_found : bool;
  an_type_ok : bool;
  an_cmp : bool;
  an_replaced : bool;
  an_render_node : outcome bytes;
  an_render_tree : outcome bytes
}.

Definition conform_tab (fs : fsys) (file : path) (search : list str) (k : kind) (an : answers) (f : fault)
  : fsys * outcome bool * list str :=
  conform (node := unit) (tree := unit) (irT := unit) (opts := unit)
          (fun _ _ _ => an_emit an)
          (fun _ _ => an_parse an)
          (fun _ _ => if an_found an then Some tt else None)
          (fun _ _ _ => (tt, an_replaced an))
          (fun _ _ => an_cmp an)
          (fun _ => an_render_node an)
          (fun _ => an_render_tree an)
          (fun _ _ _ => tt)
          (fun _ _ => an_type_ok an)
          fs file search k tt f.

(* wire *)
Definition dec_kind (e : sexp) : option kind :=
  if is_sym "argparse_function" e then Some KArgparse
  else if is_sym "class" e then Some KClass
  else if is_sym "function" e then Some KFunction
  else None.

Definition dec_outcome_unit (e : sexp) : option (outcome unit) :=
  match e with
  | SList [t; x] =>
    if is_sym "ok" t then Some (Ok tt)
    else if is_sym "err" t then
      Some (Err (if is_sym "AttributeError" x then AttributeError
                 else if is_sym "IndexError" x then IndexError
                 else if is_sym "ValueError" x then ValueError
                 else if is_sym "SyntaxError" x then SyntaxError
                 else if is_sym "TypeError" x then TypeError
                 else if is_sym "AssertionError" x then AssertionError
                 else if is_sym "NotImplementedError" x then NotImplementedError
                 else if is_sym "KeyError" x then KeyError
                 else if is_sym "StopIteration" x then StopIteration
                 else if is_sym "IOError" x then IOError
                 else Unmodelled))
    else None
  | _ => None
  end.

Definition dec_outcome_bytes (e : sexp) : option (outcome bytes) :=
  match e with
  | SList [t; x] =>
    if is_sym "ok" t then option_map Ok (dec_str x)
    else match dec_outcome_unit e with Some (Err k) => Some (Err k) | _ => None end
  | _ => None
  end.

Definition dec_answers (e : sexp) : option answers :=
  match e with
  | SList [a; b; c; d; x; f; g; h] =>
    match dec_outcome_unit a, dec_outcome_unit b, dec_bool c, dec_bool d, dec_bool x, dec_bool f,
          dec_outcome_bytes g, dec_outcome_bytes h with
    | Some a', Some b', Some c', Some d', Some x', Some f', Some g', Some h' =>
      Some (mkAnswers a' b' c' d' x' f' g' h')
    | _, _, _, _, _, _, _, _ => None
    end
  | _ => None
  end.

(* FAMILY: run_sync *)
Definition run_sync (fn : sexp) (args : list sexp) : option sexp :=
  if is_sym "conform" fn then
    match args with
    | [fs; file; search; k; an; f] =>
      match dec_fs fs, dec_str file, dec_list dec_str search, dec_kind k, dec_answers an, dec_fault f with
      | Some fs, Some file, Some search, Some k, Some an, Some f =>
        let '(fs', r, printed) := conform_tab fs file search k an f in
        Some (SList [enc_option enc_str (fs_get file fs'); enc_option enc_str (fs_get (tmp_of file) fs');
                     enc_outcome enc_bool r; enc_list enc_str printed])
      | _, _, _, _, _, _ => None
      end
    | _ => None
    end
  else if is_sym "emit_file_io" fn then
    match args with
    | [fs; file; m; src; f] =>
      match dec_fs fs, dec_str file, dec_mode m, dec_str src, dec_fault f with
      | Some fs, Some file, Some m, Some src, Some f =>
        let '(fs', r) := emit_file_io fs file m src f in
        Some (SList [enc_option enc_str (fs_get file fs'); enc_option enc_str (fs_get (tmp_of file) fs');
                     enc_outcome (fun _ => sym "unit") r])
      | _, _, _, _, _ => None
      end
    | _ => None
    end
  else None.
