(* Fill: textwrap.fill(text, width) with TextWrapper's defaults (expand_tabs, replace_whitespace,
   drop_whitespace, break_long_words, break_on_hyphens) on the fragment where the regex splitter and
   the long-word breaker are not exercised: no tab, no hyphen that the splitter would break at, every
   word no longer than the width.  Outside the fragment the model declines (Unmodelled).
   Definitions only. *)
From Coq Require Import List Ascii Bool Arith ZArith.
From Coq Require String.
Import String.StringSyntax.
From DT Require Import PyStr Sexp PyVal.
Import ListNotations.

(* TextWrapper's whitespace: "\t\n\x0b\x0c\r " *)
Definition tw_space (c : ascii) : bool :=
  let n := code c in (Nat.leb 9 n && Nat.leb n 13) || Nat.eqb n 32.

(* replace_whitespace: every whitespace character becomes one space *)
Definition replace_ws (s : str) : str := map (fun c => if tw_space c then sp else c) s.

(* chunks: maximal runs of spaces and of non-spaces, in order *)
Fixpoint chunks_aux (s : str) (cur : str) (cur_is_space : bool) : list str :=
  match s with
  | [] => match cur with [] => [] | _ => [rev cur] end
  | c :: r =>
    let is_sp := ascii_eqb c sp in
    match cur with
    | [] => chunks_aux r [c] is_sp
    | _ => if Bool.eqb is_sp cur_is_space then chunks_aux r (c :: cur) cur_is_space
           else rev cur :: chunks_aux r [c] is_sp
    end
  end.

Definition chunks (s : str) : list str := chunks_aux s [] false.

Definition is_space_chunk (c : str) : bool :=
  match c with x :: _ => ascii_eqb x sp | [] => true end.

(* a hyphen at which wordsep_re may split: word character that is not a digit before it and a word
   character after it; or a run of two or more hyphens.  Conservative over-approximation. *)
Definition wordish (c : ascii) : bool := isalnum_c c || ascii_eqb c (ch 95).
Fixpoint risky_hyphen (prev : option ascii) (s : str) : bool :=
  match s with
  | [] => false
  | c :: r =>
    (ascii_eqb c (ch 45)
     && match r with
        | d :: _ => ascii_eqb d (ch 45)
                    || (wordish d && match prev with Some p => wordish p && negb (isdigit p) | None => false end)
        | [] => false
        end)
    || risky_hyphen (Some c) r
  end.

(* take chunks while they fit *)
Fixpoint take_fit (width cur_len : nat) (cs : list str) : list str * list str :=
  match cs with
  | [] => ([], [])
  | c :: r =>
    if Nat.leb (cur_len + List.length c) width then
      let '(taken, rest) := take_fit width (cur_len + List.length c) r in (c :: taken, rest)
    else ([], cs)
  end.

Definition drop_last_space (l : list str) : list str :=
  match rev l with
  | c :: r => if is_space_chunk c then rev r else l
  | [] => l
  end.

(* TextWrapper._wrap_chunks; fuel = number of chunks + 1 (every round consumes at least one chunk
   because no chunk is longer than the width) *)
Fixpoint wrap_chunks (fuel width : nat) (cs : list str) (have_lines : bool) : list str :=
  match fuel with
  | O => []
  | S f =>
    match cs with
    | [] => []
    | c0 :: r0 =>
      let cs1 := if is_space_chunk c0 && have_lines then r0 else cs in
      let '(taken, rest) := take_fit width 0 cs1 in
      let line := drop_last_space taken in
      match line with
      | [] => wrap_chunks f width rest have_lines
      | _ => concat line :: wrap_chunks f width rest true
      end
    end
  end.

(* textwrap.fill(text, width=w) *)
Definition fill (w : nat) (text : str) : outcome str :=
  if mem_c tabch text || risky_hyphen None text then Err Unmodelled
  else
    let cs := chunks (replace_ws text) in
    if existsb (fun c => Nat.ltb w (List.length c)) cs then Err Unmodelled
    else if Nat.eqb w 0 then Err ValueError
    else Ok (join [nl] (wrap_chunks (S (List.length cs)) w cs false)).

(* FAMILY: run_fill *)
Definition run_fill (fn : sexp) (args : list sexp) : option sexp :=
  if is_sym "fill" fn then
    match args with
    | [w; s] =>
      match dec_nat w, dec_str s with
      | Some w, Some s => Some (enc_outcome enc_str (fill w s))
      | _, _ => None
      end
    | _ => None
    end
  else None.
