(* Fill: doctrans.pure_utils.fill, i.e. textwrap.fill(text, width, break_long_words=False,
   break_on_hyphens=False) with TextWrapper's other defaults (expand_tabs, replace_whitespace,
   drop_whitespace).  Only text containing a tab is declined (Unmodelled): tab expansion is column
   dependent.  Definitions only. *)
From Coq Require Import List Ascii Bool Arith ZArith.
From Coq Require String.
Import String.StringSyntax.
From DT Require Import PyStr Sexp PyVal.
Import ListNotations.

(* TextWrapper's whitespace: "\t\n\x0b\x0c\r " *)
Definition tw_space (c : ascii) : bool :=
  let n := code c in (Nat.leb 9 n && Nat.leb n 13) || Nat.eqb n 32.

(* replace_whitespace: every whitespace character becomes one space *)
Definition replace_ws (s : str) : str := map (fun c => if tw_space c then sp else c) s.

(* chunks: maximal runs of spaces and of non-spaces, in order *)
Fixpoint chunks_aux (s : str) (cur : str) (cur_is_space : bool) : list str :=
  match s with
  | [] => match cur with [] => [] | _ => [rev cur] end
  | c :: r =>
    let is_sp := ascii_eqb c sp in
    match cur with
    | [] => chunks_aux r [c] is_sp
    | _ => if Bool.eqb is_sp cur_is_space then chunks_aux r (c :: cur) cur_is_space
           else rev cur :: chunks_aux r [c] is_sp
    end
  end.

Definition chunks (s : str) : list str := chunks_aux s [] false.

Definition is_space_chunk (c : str) : bool :=
  match c with x :: _ => ascii_eqb x sp | [] => true end.

(* take chunks while they fit *)
Fixpoint take_fit (width cur_len : nat) (cs : list str) : list str * list str :=
  match cs with
  | [] => ([], [])
  | c :: r =>
    if Nat.leb (cur_len + List.length c) width then
      let '(taken, rest) := take_fit width (cur_len + List.length c) r in (c :: taken, rest)
    else ([], cs)
  end.

Definition drop_last_space (l : list str) : list str :=
  match rev l with
  | c :: r => if is_space_chunk c then rev r else l
  | [] => l
  end.

(* TextWrapper._wrap_chunks with break_long_words=False; fuel = number of chunks + 1 (every round
   consumes at least one chunk: a chunk longer than the width is put alone on its line) *)
Fixpoint wrap_chunks (fuel width : nat) (cs : list str) (have_lines : bool) : list str :=
  match fuel with
  | O => []
  | S f =>
    match cs with
    | [] => []
    | c0 :: r0 =>
      let cs1 := if is_space_chunk c0 && have_lines then r0 else cs in
      let '(taken, rest) := take_fit width 0 cs1 in
      let '(taken', rest') :=
          match taken, rest with
          | [], c :: r => if Nat.ltb width (List.length c) then ([c], r) else (taken, rest)
          | _, _ => (taken, rest)
          end in
      let line := drop_last_space taken' in
      match line with
      | [] => wrap_chunks f width rest' have_lines
      | _ => concat line :: wrap_chunks f width rest' true
      end
    end
  end.

(* doctrans.pure_utils.fill = textwrap.fill(text, width=w, break_long_words=False, break_on_hyphens=False) *)
Definition fill (w : nat) (text : str) : outcome str :=
  if mem_c tabch text then Err Unmodelled          (* expand_tabs is column dependent: declined *)
  else if Nat.eqb w 0 then Err ValueError
  else
    let cs := chunks (replace_ws text) in
    Ok (join [nl] (wrap_chunks (S (List.length cs)) w cs false)).

(* FAMILY: run_fill *)
Definition run_fill (fn : sexp) (args : list sexp) : option sexp :=
  if is_sym "fill" fn then
    match args with
    | [w; s] =>
      match dec_nat w, dec_str s with
      | Some w, Some s => Some (enc_outcome enc_str (fill w s))
      | _, _ => None
      end
    | _ => None
    end
  else None.
