(* C16Spec: bodies carried verbatim.  The three splice sites of EmitAst (function, argparse, class
   __call__), the statement of the property over them, the boolean guards and the finding classes.
   Definitions only (executable: the harness asks for the class of a failing case through the driver). *)
From Coq Require Import List Ascii Bool Arith ZArith.
From Coq Require String.
Import String.StringSyntax.
From DT Require Import PyStr Sexp PyVal TyExpr PureUtils Defaults PyAst IR EmitAst.
Import ListNotations.

(* ------------------------------------------------------------------ function *)
(* body[:-1] iff the last statement is a Return *)
Definition strip_final_return (b : list stmt) : list stmt :=
  if last_is_return b then removelast b else b.

Definition ends_with (b : list stmt) (r : stmt) : bool :=
  match rev b with s :: _ => stmt_eqb s r | [] => false end.

(* ------------------------------------------------------------------ argparse *)
(* the first carried statement does not look like a docstring to get_value: neither a constant string /
   None expression statement nor a bare name, and get_value can be evaluated on it *)
Definition argparse_first_ok (s : stmt) : bool :=
  match s with
  | SExpr e =>
    match get_value_expr e with
    | Ok (OV (VStr _)) => false
    | Ok _ => true
    | Err _ => false
    end
  | _ => true
  end.

Definition argparse_guard (b : list stmt) : bool :=
  match b with [] => true | s :: _ => argparse_first_ok s end.

(* the statements emit.argparse_function puts after the add_argument calls *)
Definition argparse_tail (pt : ptable) (i : ir) (b : list stmt) : outcome (list stmt) :=
  do spliced <- argparse_body_skip b;
  do ret <- (if last_is_return b then Ok [] else do r <- argparse_return pt i; Ok [r]);
  Ok (spliced ++ ret).

(* ------------------------------------------------------------------ class __call__ : substitution *)
Definition mem_id (ids : list str) (id : str) : bool := existsb (str_eqb id) ids.

(* replace exactly the names in ids by self.<name> *)
Fixpoint subst_expr (ids : list str) (e : expr) : expr :=
  let go := map (subst_expr ids) in
  match e with
  | EName id => if mem_id ids id then self_attr id else e
  | EConst _ => e
  | EAttr b a => EAttr (subst_expr ids b) a
  | ESub b s => ESub (subst_expr ids b) (subst_expr ids s)
  | ETuple es => ETuple (go es)
  | EList es => EList (go es)
  | EDict ks vs => EDict (go ks) (go vs)
  | ECall f args kws =>
    ECall (subst_expr ids f) (go args) (map (fun p => (fst p, subst_expr ids (snd p))) kws)
  | EUnary op x => EUnary op (subst_expr ids x)
  | EOpaque _ => e
  end.

Definition subst_arg (ids : list str) (a : arg) : arg :=
  mkArg (a_name a) (option_map (subst_expr ids) (a_ann a)).

Definition subst_arguments (ids : list str) (a : arguments) : arguments :=
  mkArguments (map (subst_arg ids) (ar_args a)) (map (subst_expr ids) (ar_defaults a))
              (map (subst_arg ids) (ar_kwonly a)) (map (option_map (subst_expr ids)) (ar_kw_defaults a))
              (option_map (subst_arg ids) (ar_vararg a)) (option_map (subst_arg ids) (ar_kwarg a)).

(* names a binding target binds *)
Fixpoint target_names (e : expr) : list str :=
  match e with
  | EName id => [id]
  | ETuple es | EList es => flat_map target_names es
  | _ => []
  end.

(* names a statement binds in the scope it stands in (not descending into nested function / class scopes) *)
Fixpoint stmt_binds (s : stmt) : list str :=
  match s with
  | SFunc n _ _ _ _ => [n]
  | SClass n _ _ _ => [n]
  | SAnnAssign t _ _ => target_names t
  | SAssign ts _ => flat_map target_names ts
  | SOther _ _ bl => flat_map (flat_map stmt_binds) bl
  | _ => []
  end.

Definition opt_arg_name (o : option arg) : list str := match o with Some a => [a_name a] | None => [] end.

Definition args_names (a : arguments) : list str :=
  map a_name (ar_args a) ++ map a_name (ar_kwonly a) ++ opt_arg_name (ar_vararg a) ++ opt_arg_name (ar_kwarg a).

(* the names local to a nested function: its arguments and whatever its body binds *)
Definition fn_bound (a : arguments) (body : list stmt) : list str := args_names a ++ flat_map stmt_binds body.

Definition remove_ids (bound ids : list str) : list str := filter (fun x => negb (mem_id bound x)) ids.

(* scope-aware substitution: inside a nested function the names it binds are no longer the parameters.
   Argument defaults, annotations, decorators and the return annotation are evaluated in the enclosing scope. *)
Fixpoint subst_stmt (ids : list str) (s : stmt) : stmt :=
  match s with
  | SFunc n a b d r =>
    let ids' := remove_ids (fn_bound a b) ids in
    SFunc n (subst_arguments ids a) (map (subst_stmt ids') b) (map (subst_expr ids) d)
          (option_map (subst_expr ids) r)
  | SClass n bs b d =>
    let ids' := remove_ids (flat_map stmt_binds b) ids in
    SClass n (map (subst_expr ids) bs) (map (subst_stmt ids') b) (map (subst_expr ids) d)
  | SAnnAssign t a v => SAnnAssign (subst_expr ids t) (subst_expr ids a) (option_map (subst_expr ids) v)
  | SAssign ts v => SAssign (map (subst_expr ids) ts) (subst_expr ids v)
  | SExpr e => SExpr (subst_expr ids e)
  | SReturn e => SReturn (option_map (subst_expr ids) e)
  | SOther t h bl => SOther t h (map (map (subst_stmt ids)) bl)
  end.

Definition none_bound (bound ids : list str) : bool := forallb (fun x => negb (mem_id bound x)) ids.

(* no binder of a nested function or class shadows a parameter name *)
Fixpoint no_shadow (ids : list str) (s : stmt) : bool :=
  match s with
  | SFunc _ a b _ _ => none_bound (fn_bound a b) ids && forallb (no_shadow ids) b
  | SClass _ _ b _ => none_bound (flat_map stmt_binds b) ids && forallb (no_shadow ids) b
  | SOther _ _ bl => forallb (forallb (no_shadow ids)) bl
  | _ => true
  end.

(* ------------------------------------------------------------------ statement *)
Definition C16_statement : Prop :=
  (* function: the carried statements, in order, nothing dropped or duplicated *)
  (forall b rv, function_body_splice b rv = b)
  (* argparse: the carried statements are spliced as they are *)
  /\ (forall b, argparse_body_skip b = Ok b)
  (* class __call__: RewriteName is the substitution of exactly the parameter references *)
  /\ (forall ids s, ids <> [] -> rewrite_stmt ids s = subst_stmt ids s).

(* ------------------------------------------------------------------ finding classes *)
Inductive c16_class : Type :=
| K_fn_return_replaced       (* the body's final return is dropped for the generated `return <default>` *)
| K_fn_return_appended       (* a body not ending in return gains the generated return *)
| K_ap_leading_string_dropped (* a leading string / None / bare-name statement (and an `argument_parser = ..` after it) is skipped *)
| K_ap_unmodelled
| K_call_shadowed_binder     (* a nested def / class binds a parameter name: its uses are rewritten all the same *)
| K_call_unmodelled.         (* opaque text mentions a parameter name *)

Definition c16_class_name (k : c16_class) : str :=
  match k with
  | K_fn_return_replaced => L "function-return-replaced"
  | K_fn_return_appended => L "function-return-appended"
  | K_ap_leading_string_dropped => L "argparse-leading-string-dropped"
  | K_ap_unmodelled => L "argparse-unmodelled"
  | K_call_shadowed_binder => L "call-shadowed-binder"
  | K_call_unmodelled => L "call-unmodelled"
  end.

Definition finding_class_C16_function (b : list stmt) (rv : option stmt) : option c16_class :=
  match rv with
  | None => None
  | Some r => if ends_with b r && is_return r then None
              else if last_is_return b then Some K_fn_return_replaced else Some K_fn_return_appended
  end.

Definition finding_class_C16_argparse (b : list stmt) : option c16_class :=
  match b with
  | [] => None
  | SExpr e :: _ =>
    match get_value_expr e with
    | Ok (OV (VStr _)) => Some K_ap_leading_string_dropped
    | Ok _ => None
    | Err _ => Some K_ap_unmodelled
    end
  | _ => None
  end.

Definition finding_class_C16_call (ids : list str) (b : list stmt) : option c16_class :=
  if negb (forallb (rewritable_stmt ids) b) then Some K_call_unmodelled
  else if negb (forallb (no_shadow ids) b) then Some K_call_shadowed_binder
  else None.

Definition guard_C16_function (b : list stmt) (rv : option stmt) : bool :=
  match finding_class_C16_function b rv with None => true | Some _ => false end.
Definition guard_C16_call (ids : list str) (b : list stmt) : bool :=
  match ids with [] => false | _ => match finding_class_C16_call ids b with None => true | Some _ => false end end.

(* ------------------------------------------------------------------ wire *)
Definition enc_class (o : option c16_class) : sexp := enc_option (fun k => enc_str (c16_class_name k)) o.

(* FAMILY: run_c16 *)
Definition run_c16 (fn : sexp) (args : list sexp) : option sexp :=
  if is_sym "c16_class_function" fn then
    match args with
    | [b; rv] =>
      match dec_list dec_stmt b, dec_option dec_stmt rv with
      | Some b, Some rv => Some (enc_class (finding_class_C16_function b rv))
      | _, _ => None
      end
    | _ => None
    end
  else if is_sym "c16_class_argparse" fn then
    match args with
    | [b] => match dec_list dec_stmt b with
             | Some b => Some (enc_class (finding_class_C16_argparse b))
             | None => None
             end
    | _ => None
    end
  else if is_sym "c16_class_call" fn then
    match args with
    | [ids; b] =>
      match dec_list dec_str ids, dec_list dec_stmt b with
      | Some ids, Some b => Some (enc_class (finding_class_C16_call ids b))
      | _, _ => None
      end
    | _ => None
    end
  else if is_sym "c16_subst" fn then
    match args with
    | [ids; b] =>
      match dec_list dec_str ids, dec_list dec_stmt b with
      | Some ids, Some b => Some (SList (map (fun s => enc_stmt (subst_stmt ids s)) b))
      | _, _ => None
      end
    | _ => None
    end
  else None.
