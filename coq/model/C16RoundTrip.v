(* C16RoundTrip: the round trip  source -> IR -> source  of property C16 as a composition of the existing
   models: ParseSig.parse_function / ParseAst.parse_argparse_ast / ParseAst.parse_class (what is stored in
   `_internal`, and the return entry parse.function derives from the body) followed by EmitAst.emit_function /
   emit_argparse / emit_class (the three splice sites).  Definitions only: the composed functions, what of
   the source decides the generated return, and the boolean guards.  The complement of the guards is made of
   the finding classes of C16Spec (function-return-replaced, function-return-appended,
   argparse-leading-string-dropped, call-shadowed-binder / call-unmodelled) plus the by-design condition
   that the emitter is asked for the same name and kind the parser read (get_internal_body re-attaches a
   body only then).
   The docstring layer is decoupled as in the models: the parsers take the docstring-derived IR, the
   emitters the docstring text; both are plain inputs here and every theorem quantifies over them. *)
From Coq Require Import List Ascii Bool Arith ZArith.
From Coq Require String.
Import String.StringSyntax.
From DT Require Import PyStr Sexp PyVal TyExpr PureUtils Defaults PyAst IR Merge EmitAst C16Spec.
From DT Require ParseSig ParseAst.
Import ListNotations.

(* the statements of a function / class body after its docstring (parse.py: body[1:] iff get_docstring is
   not None) *)
Definition body_stmts (body : list stmt) : list stmt :=
  match docstring_of body with Some _ => tl body | None => body end.

(* ================================================================== function *)
(* parse.function then emit.function *)
Definition rt_function (pi pj : perm) (d : option ir) (fd : stmt) (infer_type word_wrap : bool)
           (p_type p_name : option str)
           (pt : ptable) (e_name e_type : option str) (inline_types kwonly : bool) (tds : outcome str)
  : outcome (stmt * ir) :=
  do i <- ParseSig.parse_function pi pj d fd infer_type word_wrap p_type p_name;
  emit_function pt i e_name e_type inline_types kwonly tds.

(* the return entry the docstring contributes (after ir_merge with the signature's IR, whose returns is None) *)
Definition doc_returns (d : option ir) (body : list stmt) : fld gparam :=
  match docstring_of body, d with
  | Some _, Some di => match ir_returns di with Has t => Has t | _ => FNone end
  | _, _ => FNone
  end.

(* the `_internal` the docstring IR brings along (parse.docstring never sets one; the model's input may) *)
Definition doc_internal (d : option ir) (body : list stmt) : option internal :=
  match docstring_of body, d with
  | Some _, Some di => ir_internal di
  | _, _ => None
  end.

(* the return entry of the IR parse.function hands back: _interpolate_return on the body, then
   _set_name_and_type; it does not depend on the parameters *)
Definition rt_function_returns (d : option ir) (body : list stmt) (returns : option expr)
           (infer_type word_wrap : bool) : outcome (fld gparam) :=
  do rets <- ParseSig.interpolate_return (body_stmts body) returns (doc_returns d body);
  match rets with
  | Has p => do x <- ParseSig.set_name_and_type (L "return_type") p infer_type word_wrap; Ok (Has (snd x))
  | y => Ok y
  end.

(* function_return_val reads the return entry only *)
Definition return_val_of (pt : ptable) (rets : fld gparam) : outcome (option stmt) :=
  function_return_val pt (mkIR Missing Missing Missing [] rets None).

(* the `return <default>` emit.function generates for the IR parse.function made of this source *)
Definition rt_function_rv (pt : ptable) (d : option ir) (body : list stmt) (returns : option expr)
           (infer_type word_wrap : bool) : outcome (option stmt) :=
  do rets <- rt_function_returns d body returns infer_type word_wrap;
  return_val_of pt rets.

(* the emitter is asked for the name and kind the parser read off the definition
   (function_name / function_type options of both calls taken into account) *)
Definition same_target_function (n : str) (a : arguments) (p_type p_name e_name e_type : option str) : bool :=
  match py_or e_name (Has (ParseSig.opt_or p_name n)),
        py_or e_type (Has (ParseSig.opt_or p_type (ParseSig.get_function_type a))) with
  | Ok en, Ok et => fld_eq_opt (Has n) en && fld_eq_opt (Has (ParseSig.get_function_type a)) et
  | _, _ => false
  end.

(* the class of the round trip on this source: the classes of the function splice at the return the IR
   generates; None also when a conversion raises (nothing is emitted then) *)
Definition finding_class_rt_function (pt : ptable) (d : option ir) (body : list stmt) (returns : option expr)
           (infer_type word_wrap : bool) : option c16_class :=
  match rt_function_rv pt d body returns infer_type word_wrap with
  | Ok rv => finding_class_C16_function (body_stmts body) rv
  | Err _ => None
  end.

Definition is_nil {A} (l : list A) : bool := match l with [] => true | _ => false end.
Definition is_none {A} (o : option A) : bool := match o with None => true | Some _ => false end.

(* a body-less function takes `_internal` from the docstring IR: real docstring IRs have none *)
Definition body_or_clean_doc (d : option ir) (body : list stmt) : bool :=
  negb (is_nil (body_stmts body)) || is_none (doc_internal d body).

Definition guard_rt_function (pt : ptable) (d : option ir) (fd : stmt) (infer_type word_wrap : bool)
           (p_type p_name e_name e_type : option str) : bool :=
  match fd with
  | SFunc n a body _ returns =>
    same_target_function n a p_type p_name e_name e_type
    && body_or_clean_doc d body
    && is_none (finding_class_rt_function pt d body returns infer_type word_wrap)
  | _ => false
  end.

(* ---- class-free sufficient conditions ---- *)
(* no top-level `return <value>` in the body and no default in the docstring's return entry: no return is
   generated *)
Definition no_value_return (stmts : list stmt) : bool :=
  match ParseSig.last_return stmts with Some (Some _) => false | _ => true end.

Definition doc_return_default_absent (d : option ir) (body : list stmt) : bool :=
  match doc_returns d body with
  | Has p => is_none (g_default p)
  | _ => true
  end.

(* the body ends in `return e` where e is not a tuple and get_value leaves a node (a call, an attribute, a
   subscript, a list or dict display, an operator expression carried as text ...): the text stored as the
   return default is the back-quoted source of e; the emitter regenerates `return e` when the parse table
   (= ast.parse) sends that text back to e *)
Definition return_text (e : expr) : str :=
  ParseSig.bt3 ++ rstrip_chars [nl] (ParseSig.show_expr e) ++ ParseSig.bt3.

Definition final_return_reparses (pt : ptable) (stmts : list stmt) : bool :=
  match rev stmts with
  | SReturn (Some e) :: _ =>
    match e with
    | ETuple _ => false
    | _ =>
      match ParseSig.get_value_expr e with
      | Ok (ParseSig.GN (EConst _)) => false
      | Ok (ParseSig.GN _) =>
        negb (in_none_types (VStr (return_text e)))
        && match parse_expr_src pt (strip_chars [bt] (return_text e)) with
           | Ok e' => expr_eqb e' e
           | Err _ => false
           end
      | _ => false
      end
    end
  | _ => false
  end.

(* the body ends in `return <name>`: get_value turns the Name into the str of its id, which is stored as the
   return default and parsed as source again by the emitter *)
Definition final_return_name_reparses (pt : ptable) (stmts : list stmt) : bool :=
  match rev stmts with
  | SReturn (Some (EName id)) :: _ =>
    negb (in_none_types (VStr id))
    && match unquote id with
       | [] => false
       | c :: t => match parse_expr_src pt (strip_chars [bt] (c :: t)) with
                   | Ok e' => expr_eqb e' (EName id)
                   | Err _ => false
                   end
       end
  | _ => false
  end.

(* ================================================================== argparse *)
Definition rt_argparse (doc_ir : outcome ir) (fd : stmt) (p_type p_name : option str)
           (pt : ptable) (emit_default_doc : bool) (e_name e_type : option str) (wrap_description word_wrap : bool)
           (ds : outcome str) : outcome (stmt * ir) :=
  do i <- ParseAst.parse_argparse_ast doc_ir fd p_type p_name;
  emit_argparse pt i emit_default_doc e_name e_type wrap_description word_wrap ds.

(* the statements of an argparse function that are not its interface: parse.argparse_ast's inner_body *)
Definition extras (stmts : list stmt) : list stmt :=
  filter (fun s => negb (ParseAst.is_argparse_description s))
         (filter (fun s => negb (ParseAst.is_argparse_add_argument s)) stmts).

Definition argparse_parsed_type (a : arguments) (p_type : option str) : str :=
  match ParseAst.truthy_opt_str p_type with Some t => t | None => ParseAst.get_function_type a end.

Definition same_target_argparse (n : str) (a : arguments) (p_type p_name e_name e_type : option str) : bool :=
  match py_or e_name (ParseAst.fld_of_opt p_name), py_or e_type (Has (argparse_parsed_type a p_type)) with
  | Ok en, Ok et => fld_eq_opt (Has n) en && fld_eq_opt (Has (L "static")) et
  | _, _ => false
  end.

Definition finding_class_rt_argparse (fbody : list stmt) : option c16_class :=
  finding_class_C16_argparse (extras (body_stmts fbody)).

Definition guard_rt_argparse (fd : stmt) (p_type p_name e_name e_type : option str) : bool :=
  match fd with
  | SFunc n a fbody _ _ =>
    same_target_argparse n a p_type p_name e_name e_type && argparse_guard (extras (body_stmts fbody))
  | _ => false
  end.

(* ================================================================== class *)
(* parse.class_ (AST path) then emit.class_ with emit_call *)
Definition rt_class (doc_ir : option (outcome ir)) (node : ParseAst.cnode) (p_name : option str)
           (infer_type p_word_wrap : bool)
           (pt : ptable) (emit_call : bool) (class_name : str) (bases decos : list str) (word_wrap : bool)
           (tds : outcome str) : outcome (stmt * ir) :=
  do i <- ParseAst.parse_class doc_ir node p_name infer_type p_word_wrap;
  emit_class pt i emit_call class_name bases decos word_wrap tds.

(* the statements of a class body that are not attributes: what parse.class_ stores in `_internal` *)
Definition class_extras (stmts : list stmt) : list stmt :=
  filter (fun s => negb (ParseAst.is_assignment s)) stmts.

(* ---- class: classifier and guard ---- *)
(* class -> IR -> class cannot keep a non-attribute statement of the class body in place: parse.class_ stores
   every statement that is not an AnnAssign / Assign (methods - also an existing __call__ -, nested classes,
   anything else) in `_internal`, and emit.class_ puts that list inside ONE generated __call__ (emit_call) or
   drops it (no emit_call).  So the class is hit exactly when there is something to carry; the emit_call flag
   only decides between nested and dropped. *)
Definition rt_class_class_name : str := L "class-method-rehomed-or-dropped".

Definition finding_class_rt_class (cls : stmt) (emit_call : bool) : option str :=
  match cls with
  | SClass _ _ cbody _ =>
    match class_extras (body_stmts cbody) with
    | [] => None
    | _ :: _ => Some rt_class_class_name
    end
  | _ => None
  end.

Definition guard_rt_class (cls : stmt) (emit_call : bool) : bool :=
  match cls with
  | SClass _ _ _ _ => is_none (finding_class_rt_class cls emit_call)
  | _ => false
  end.

(* ================================================================== wire *)
Definition rt_opt_bind {A B} (x : option A) (f : A -> option B) : option B :=
  match x with Some a => f a | None => None end.
Local Notation "'let?' x := e1 'in' e2" := (rt_opt_bind e1 (fun x => e2)) (at level 200, x pattern, e1 at level 100, e2 at level 200).

Definition enc_rt_result (r : outcome (stmt * ir)) : sexp :=
  enc_outcome enc_stmt (do x <- r; Ok (fst x)).

(* FAMILY: run_c16rt *)
Definition run_c16rt (fn : sexp) (args : list sexp) : option sexp :=
  if is_sym "c16rt_function" fn then
    (* parse.function's arguments as in run_parsesig.parse_function, then emit.function's as in
       run_emitast.emitast_function without the IR *)
    match args with
    | [pi; pj; d; fd; it; ww; pft; pfn; efn; eft; inlt; kw; tds; pt] =>
      let? pi := dec_list dec_str pi in let? pj := dec_list dec_str pj in
      let? d := dec_option dec_ir d in let? fd := dec_stmt fd in
      let? it := dec_bool it in let? ww := dec_bool ww in
      let? pft := dec_option dec_str pft in let? pfn := dec_option dec_str pfn in
      let? efn := dec_option dec_str efn in let? eft := dec_option dec_str eft in
      let? inlt := dec_bool inlt in let? kw := dec_bool kw in
      let? tds := dec_tds tds in let? pt := dec_ptable pt in
      Some (enc_rt_result (rt_function (perm_of_order pi) (perm_of_order pj) d fd it ww pft pfn
                                       pt efn eft inlt kw tds))
    | _ => None
    end
  else if is_sym "c16rt_function_class" fn then
    match args with
    | [pt; d; fd; it; ww] =>
      let? pt := dec_ptable pt in let? d := dec_option dec_ir d in let? fd := dec_stmt fd in
      let? it := dec_bool it in let? ww := dec_bool ww in
      match fd with
      | SFunc _ _ body _ returns => Some (enc_class (finding_class_rt_function pt d body returns it ww))
      | _ => None
      end
    | _ => None
    end
  else if is_sym "c16rt_function_guard" fn then
    match args with
    | [pt; d; fd; it; ww; pft; pfn; efn; eft] =>
      let? pt := dec_ptable pt in let? d := dec_option dec_ir d in let? fd := dec_stmt fd in
      let? it := dec_bool it in let? ww := dec_bool ww in
      let? pft := dec_option dec_str pft in let? pfn := dec_option dec_str pfn in
      let? efn := dec_option dec_str efn in let? eft := dec_option dec_str eft in
      Some (enc_bool (guard_rt_function pt d fd it ww pft pfn efn eft))
    | _ => None
    end
  else if is_sym "c16rt_argparse" fn then
    (* parse.argparse_ast's arguments as in run_parseast.parse_argparse_ast, then emit.argparse_function's as in
       run_emitast.emitast_argparse without the IR *)
    match args with
    | [di; fd; pft; pfn; edd; efn; eft; wd; ww; ds; pt] =>
      let? di := dec_outcome dec_ir di in let? fd := dec_stmt fd in
      let? pft := dec_option dec_str pft in let? pfn := dec_option dec_str pfn in
      let? edd := dec_bool edd in
      let? efn := dec_option dec_str efn in let? eft := dec_option dec_str eft in
      let? wd := dec_bool wd in let? ww := dec_bool ww in
      let? ds := dec_outcome dec_str ds in let? pt := dec_ptable pt in
      Some (enc_rt_result (rt_argparse di fd pft pfn pt edd efn eft wd ww ds))
    | _ => None
    end
  else if is_sym "c16rt_argparse_class" fn then
    match args with
    | [fd] =>
      let? fd := dec_stmt fd in
      match fd with
      | SFunc _ _ fbody _ _ => Some (enc_class (finding_class_rt_argparse fbody))
      | _ => None
      end
    | _ => None
    end
  else if is_sym "c16rt_argparse_guard" fn then
    match args with
    | [fd; pft; pfn; efn; eft] =>
      let? fd := dec_stmt fd in
      let? pft := dec_option dec_str pft in let? pfn := dec_option dec_str pfn in
      let? efn := dec_option dec_str efn in let? eft := dec_option dec_str eft in
      Some (enc_bool (guard_rt_argparse fd pft pfn efn eft))
    | _ => None
    end
  else if is_sym "c16rt_class" fn then
    (* parse.class_'s arguments as in run_parseast.parse_class, then emit.class_'s as in run_emitast.emitast_class
       without the IR *)
    match args with
    | [di; node; pn; it; pww; ec; cn; bases; decos; ww; tds; pt] =>
      let? di := dec_option (dec_outcome dec_ir) di in let? node := ParseAst.dec_cnode node in
      let? pn := dec_option dec_str pn in let? it := dec_bool it in let? pww := dec_bool pww in
      let? ec := dec_bool ec in let? cn := dec_str cn in
      let? bases := dec_list dec_str bases in let? decos := dec_list dec_str decos in
      let? ww := dec_bool ww in let? tds := dec_tds tds in let? pt := dec_ptable pt in
      Some (enc_rt_result (rt_class di node pn it pww pt ec cn bases decos ww tds))
    | _ => None
    end
  else if is_sym "c16rt_class_class" fn then
    match args with
    | [cls; ec] =>
      let? cls := dec_stmt cls in let? ec := dec_bool ec in
      Some (enc_option enc_str (finding_class_rt_class cls ec))
    | _ => None
    end
  else if is_sym "c16rt_class_guard" fn then
    match args with
    | [cls; ec] =>
      let? cls := dec_stmt cls in let? ec := dec_bool ec in
      Some (enc_bool (guard_rt_class cls ec))
    | _ => None
    end
  else None.
