(* TyExpr: the fragment of Python expressions that occurs as type annotations in doctrans IRs.
   parse_ty models  ast.parse(s).body[0].value  on that fragment; show_ty models ast.unparse.
   Definitions only. *)
From Coq Require Import List Ascii Bool Arith ZArith.
From Coq Require String.
Import String.StringSyntax.
From DT Require Import PyStr Sexp PyVal.
Import ListNotations.

Inductive ty : Type :=
| TName (parts : list str)                 (* a.b.c : Name / Attribute chain *)
| TSub (head : list str) (args : list ty)  (* head[args] ; several args = Tuple slice *)
| TStrLit (s : str)
| TIntLit (z : Z)
| TConst (v : pyval)                        (* None / True / False *)
| TList (elts : list ty).                  (* [a, b]  as in Callable[[int], str] *)

Inductive tok : Type :=
| KId (s : str) | KDot | KLb | KRb | KComma | KStr (s : str) | KInt (z : Z).

Definition is_id_start (c : ascii) : bool := isalpha_c c || ascii_eqb c (ch 95).
Definition is_id_char (c : ascii) : bool := isalnum_c c || ascii_eqb c (ch 95).

(* tokenizer; fuel = length of input + 1 *)
Fixpoint lex (fuel : nat) (s : str) : option (list tok) :=
  match fuel with
  | O => None
  | S f =>
    match s with
    | [] => Some []
    | c :: r =>
      if isspace c then lex f r
      else if ascii_eqb c (ch 46) then option_map (cons KDot) (lex f r)
      else if ascii_eqb c (ch 91) then option_map (cons KLb) (lex f r)
      else if ascii_eqb c (ch 93) then option_map (cons KRb) (lex f r)
      else if ascii_eqb c (ch 44) then option_map (cons KComma) (lex f r)
      else if ascii_eqb c (ch 34) || ascii_eqb c (ch 39) then
        let body := takewhile (fun x => negb (ascii_eqb x c)) r in
        let rest := skipn (List.length body) r in
        match rest with
        | _ :: rest' =>
          if mem_c (ch 92) body || mem_c nl body then None
          else option_map (cons (KStr body)) (lex f rest')
        | [] => None
        end
      else if isdigit c || (ascii_eqb c (ch 45) && match r with d :: _ => isdigit d | [] => false end) then
        let neg := ascii_eqb c (ch 45) in
        let s' := if neg then r else s in
        let ds := takewhile isdigit s' in
        let rest := skipn (List.length ds) s' in
        (* "1.5", "1e3", "1_0", "007" are other kinds of literal: decline *)
        match rest with
        | x :: _ => if is_id_char x || ascii_eqb x (ch 46) then None
                    else if negb (str_eqb (dec_of_Z (Z.of_N (N_of_dec ds))) ds) then None
                    else option_map (cons (KInt (if neg then - Z.of_N (N_of_dec ds) else Z.of_N (N_of_dec ds))%Z))
                                    (lex f rest)
        | [] => if negb (str_eqb (dec_of_Z (Z.of_N (N_of_dec ds))) ds) then None
                else Some [KInt (if neg then - Z.of_N (N_of_dec ds) else Z.of_N (N_of_dec ds))%Z]
        end
      else if is_id_start c then
        let id := takewhile is_id_char s in
        option_map (cons (KId id)) (lex f (skipn (List.length id) s))
      else None
    end
  end.

Fixpoint dotted_rest (toks : list tok) (acc : list str) : list str * list tok :=
  match toks with
  | KDot :: KId s :: r => dotted_rest r (s :: acc)
  | _ => (rev acc, toks)
  end.

Definition const_of_id (id : str) : option pyval :=
  if str_eqb id (L "None") then Some VNone
  else if str_eqb id (L "True") then Some (VBool true)
  else if str_eqb id (L "False") then Some (VBool false)
  else None.

(* recursive descent; fuel = number of tokens + 1 *)
Fixpoint parse_ty_toks (fuel : nat) (toks : list tok) : option (ty * list tok) :=
  match fuel with
  | O => None
  | S f =>
    let parse_elts :=
        (fix go (n : nat) (toks : list tok) (acc : list ty) : option (list ty * list tok) :=
           match n with
           | O => None
           | S n' =>
             match toks with
             | KRb :: r => Some (rev acc, r)
             | _ =>
               match parse_ty_toks f toks with
               | Some (t, KComma :: r) => go n' r (t :: acc)
               | Some (t, KRb :: r) => Some (rev (t :: acc), r)
               | _ => None
               end
             end
           end) in
    match toks with
    | KStr s :: r => Some (TStrLit s, r)
    | KInt z :: r => Some (TIntLit z, r)
    | KLb :: r =>
      match parse_elts fuel r [] with
      | Some (elts, r') => Some (TList elts, r')
      | None => None
      end
    | KId id :: r =>
      let '(parts, r') := dotted_rest r [id] in
      match r' with
      | KLb :: r'' =>
        match parse_elts fuel r'' [] with
        | Some ([], _) => None      (* empty subscript is a SyntaxError *)
        | Some (args, r3) => Some (TSub parts args, r3)
        | None => None
        end
      | _ =>
        match parts, const_of_id id with
        | [_], Some v => Some (TConst v, r')
        | _, Some _ => None
        | _, None => Some (TName parts, r')
        end
      end
    | _ => None
    end
  end.

(* keywords that are identifiers to the lexer but not names to Python *)
Definition tok_is_keyword (t : tok) : bool :=
  match t with KId s => existsb (str_eqb s) py_keywords | _ => false end.

(* ast.parse(s).body[0].value on the fragment; None = outside the fragment (may or may not be a
   SyntaxError in Python: the model declines) *)
Definition parse_ty (s : str) : option ty :=
  match lex (S (List.length s)) s with
  | Some toks =>
    if existsb tok_is_keyword toks then None
    else match parse_ty_toks (S (List.length toks)) toks with
         | Some (t, []) => Some t
         | _ => None
         end
  | None => None
  end.

(* emitter_utils.ast_parse_fix / defaults_utils.ast_parse_fix *)
Definition bracket_fix (s : str) : str :=
  if Nat.even (count_c (ch 91) s + count_c (ch 93) s) then s else s ++ [ch 93].

Definition parse_ty_fix (s : str) : option ty := parse_ty (bracket_fix s).

(* repr(str) for strings without quotes/backslashes: single-quoted unless it contains a single quote and no double quote *)
Definition py_repr_str (s : str) : str :=
  if mem_c (ch 39) s && negb (mem_c (ch 34) s) then ch 34 :: s ++ [ch 34]
  else ch 39 :: s ++ [ch 39].

(* ast.unparse *)
Fixpoint show_ty (t : ty) : str :=
  let commas := (fix go (l : list ty) : str :=
                   match l with
                   | [] => []
                   | [x] => show_ty x
                   | x :: r => show_ty x ++ L ", " ++ go r
                   end) in
  match t with
  | TName parts => join [ch 46] parts
  | TSub head args => join [ch 46] head ++ ch 91 :: commas args ++ [ch 93]
  | TStrLit s => py_repr_str s
  | TIntLit z => dec_of_Z z
  | TConst v => py_str v
  | TList elts => ch 91 :: commas elts ++ [ch 93]
  end.

(* ast.walk order (breadth-first) over the nodes doctrans inspects.  Node kinds:
   Name id, StrConst s, OtherConst, TupleNode elts (only for multi-arg subscripts), Other. *)
Inductive tnode : Type :=
| NName (id : str)
| NStr (s : str)
| NConst
| NTuple (elts : list ty)
| NOther.

(* children in CPython field order, as a queue of "pending" items *)
Inductive pend : Type :=
| PTy (t : ty)
| PChain (parts : list str)            (* Attribute/Name chain still to be visited: reversed prefix *)
| PTuple (elts : list ty).

(* one BFS step: emit the node for the item and return its children *)
Definition visit (p : pend) : tnode * list pend :=
  match p with
  | PTy (TName parts) | PChain parts =>
    match rev parts with
    | [] => (NOther, [])
    | [x] => (NName x, [])
    | _ :: pre => (NOther, [PChain (rev pre)])      (* Attribute(value=<prefix>) *)
    end
  | PTy (TSub head args) =>
    (NOther, [PChain head; match args with [a] => PTy a | _ => PTuple args end])
  | PTy (TStrLit s) => (NStr s, [])
  | PTy (TIntLit _) | PTy (TConst _) => (NConst, [])
  | PTy (TList elts) => (NOther, map PTy elts)
  | PTuple elts => (NTuple elts, map PTy elts)
  end.

Fixpoint ty_size (t : ty) : nat :=
  match t with
  | TName parts => S (List.length parts)
  | TSub head args => S (S (List.length head)) + fold_right (fun a n => ty_size a + n) 0 args
  | TList elts => S (fold_right (fun a n => ty_size a + n) 0 elts)
  | _ => 1
  end.

Fixpoint bfs (fuel : nat) (queue : list pend) : list tnode :=
  match fuel with
  | O => []
  | S f =>
    match queue with
    | [] => []
    | p :: q => let '(n, kids) := visit p in n :: bfs f (q ++ kids)
    end
  end.

Definition walk (t : ty) : list tnode := bfs (4 * ty_size t + 4) [PTy t].

(* wire *)
Fixpoint enc_ty (t : ty) : sexp :=
  match t with
  | TName parts => SList [sym "name"; enc_list enc_str parts]
  | TSub head args => SList [sym "sub"; enc_list enc_str head; SList (map enc_ty args)]
  | TStrLit s => SList [sym "strlit"; enc_str s]
  | TIntLit z => SList [sym "intlit"; enc_Z z]
  | TConst v => SList [sym "const"; enc_pyval v]
  | TList elts => SList [sym "list"; SList (map enc_ty elts)]
  end.
