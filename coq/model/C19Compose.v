(* C19Compose: gen.py:gen composed with the converter models.  Definitions only.

   model/Gen.v takes, for every entry of the input mapping, the text of the generated definition as a recorded INPUT
   (entry_res = Emitted text).  Here that text is COMPUTED from the entry's interface description, as gen.py does it:

       to_code(getattr(emit, <type>)(getattr(parse, function | class_)(obj, ...), emit_default_doc=..., **kwargs[type_]))

     parse.class_(obj, merge_inner_function="__init__") / parse.function(obj) on a LIVE object is parse._inspect: it
       stays an input (ce_parsed: the IR it returned, or the exception it raised);
     emit.class_(ir, class_name=nm, decorator_list=..., emit_call=..., emit_default_doc=...)        EmitAst.emit_class
       with emit.class_'s own defaults class_bases=("object",), word_wrap=True and the docstring text of
       C02DocLinkDefs.class_docstring_text (DocEmit.to_docstring, indent_level 1, emit_types off);
     emit.function(ir, function_name=nm, function_type="static", emit_default_doc=...)              EmitAst.emit_function
       with emit.function's own defaults word_wrap=True, indent_level=2, emit_separating_tab=PY3_8 (true on the
       interpreter in use), inline_types=True, emit_as_kwonlyargs=True and the docstring text of
       C03DocLinkDefs.function_docstring_text (DocEmit.to_docstring);
     emit.argparse_function(ir, function_name=nm, emit_default_doc=...)                             EmitAst.emit_argparse
       with its own defaults function_type="static", wrap_description=False, word_wrap=True and the docstring text
       emit.docstring(argparse_doc_ir ir, word_wrap=True) (DocEmit.emit_docstring);
     nm = name_tpl.format(name=name) (Gen.format_name);
     to_code = ast.unparse: an input (to_code : stmt -> gout str; GErr = it raised), as is what ast.parse makes of
       a text (parse_src of Gen.v / C19Spec.python_like) and of the code strings inside an IR (ce_pt, the boundary
       input of EmitAst).

   Also: the reading of a generated definition by the parser of its kind (parse_back: parse.class_ /
   parse.function / parse.argparse_ast at their own defaults over the models ParseAst.parse_class,
   ParseSig.parse_function after C03Spec.reparse_stmt, ParseAst.parse_argparse_ast, with the docstring-derived IR
   composed as in C02DocLinkDefs / C03DocLinkDefs), the per-kind comparison, and the per-entry guard under which
   the round trip is proved (proofs/C19ComposeFacts.v). *)
From Coq Require Import List Ascii Bool Arith ZArith.
From Coq Require String.
Import String.StringSyntax.
From DT Require Import PyStr Sexp PyVal TyExpr Extracted PureUtils Defaults PyAst IR EmitAst ParseAst.
From DT Require Import C02Spec C02Codec C04Spec C04Codec Gen C19Spec.
From DT Require DocEmit C06Spec C18Spec C02DocLinkDefs C03Spec C03DocLinkDefs.
Import ListNotations.

(* pure_utils.line_length as gen leaves it *)
Definition gen_width : nat := Extracted.line_length_default.

(* ------------------------------------------------------------------ the three output types *)
Inductive gkind : Type := GClass | GFunction | GArgparse.

Definition kind_of (type_ : str) : option gkind :=
  if str_eqb type_ (L "class") then Some GClass
  else if str_eqb type_ (L "function") then Some GFunction
  else if str_eqb type_ (L "argparse") then Some GArgparse
  else None.

(* decorator_list=None and decorator_list=[] both give no decorators *)
Definition decos_of (o : gen_opts) : list str :=
  match o_decorator_list o with Some l => l | None => [] end.

(* the options emit.function runs with when gen calls it *)
Definition gen_fopts (pt : ptable) (edd : bool) : C03Spec.fopts :=
  C03Spec.mkFO (L "static") true true 2 true edd true pt.

(* emit.docstring(argparse_doc_ir ir, word_wrap=True): emit_default_doc=True is emit.docstring's own default *)
Definition argparse_docstring_text (w : nat) (i : ir) : outcome str :=
  do r <- DocEmit.emit_docstring w DocEmit.Rest true true (argparse_doc_ir i);
  Ok (fst r).

(* ------------------------------------------------------------------ one generated definition *)
(* the docstring text the emitter of the kind composes *)
Definition entry_docstring (k : gkind) (o : gen_opts) (pt : ptable) (i : ir) : outcome str :=
  match k with
  | GClass => C02DocLinkDefs.class_docstring_text gen_width (o_emit_default_doc o) true i
  | GFunction => C03DocLinkDefs.function_docstring_text gen_width (gen_fopts pt (o_emit_default_doc o)) i
  | GArgparse => argparse_docstring_text gen_width i
  end.

(* getattr(emit, ...)(ir, emit_default_doc=emit_default_doc, **kwargs[type_]) with nm the templated name *)
Definition entry_def (k : gkind) (o : gen_opts) (pt : ptable) (nm : str) (i : ir) : outcome stmt :=
  match k with
  | GClass =>
    do r <- emit_class pt i (o_emit_call o) nm [L "object"] (decos_of o) true (entry_docstring GClass o pt i);
    Ok (fst r)
  | GFunction =>
    do r <- emit_function pt i (Some nm) (Some (L "static")) true true (entry_docstring GFunction o pt i);
    Ok (fst r)
  | GArgparse =>
    do r <- emit_argparse pt i (o_emit_default_doc o) (Some nm) (Some (L "static")) false true
                          (entry_docstring GArgparse o pt i);
    Ok (fst r)
  end.

Definition def_name (s : stmt) : option str :=
  match s with
  | SFunc n _ _ _ _ => Some n
  | SClass n _ _ _ => Some n
  | _ => None
  end.

Definition def_is_class (s : stmt) : bool := match s with SClass _ _ _ _ => true | _ => false end.

(* ------------------------------------------------------------------ the composed mapping entry *)
Record centry : Type := mkCE {
  ce_name : str;               (* the key of the mapping *)
  ce_is_function : bool;       (* isinstance(obj, FunctionDef) or isfunction(obj) *)
  ce_parsed : gout ir;         (* INPUT: what parse.function(obj) / parse.class_(obj, merge_inner_function="__init__")
                                  returned for the live object (parse._inspect), or the exception it raised *)
  ce_pt : ptable               (* INPUT: what ast.parse makes of the code strings (types, defaults) of that IR *)
}.

Definition exn_of_err (e : err) : exn :=
  match enc_err e with Atom a => a | SList _ => xUnmodelled end.

(* what Gen.v records per entry, computed *)
Definition entry_res_of (to_code : stmt -> gout str) (k : option gkind) (o : gen_opts) (tpl : str) (ce : centry)
  : entry_res :=
  match ce_parsed ce with
  | GErr x => ParseRaises x
  | GOk i =>
    match k, format_name tpl (ce_name ce) with
    | Some k, GOk nm =>
      match entry_def k o (ce_pt ce) nm i with
      | Ok s => match to_code s with GOk t => Emitted t | GErr x => EmitRaises x end
      | Err e => EmitRaises (exn_of_err e)
      end
    | _, _ => Parsed            (* not reached: run_entries ends before it looks at the result *)
    end
  end.

Definition entry_of (to_code : stmt -> gout str) (k : option gkind) (o : gen_opts) (tpl : str) (ce : centry) : entry :=
  mkEntry (ce_name ce) (ce_is_function ce) (entry_res_of to_code k o tpl ce).

(* the arguments and environment of gen, with the mapping given by interface descriptions *)
Record cgen_in : Type := mkCGen {
  cg_name_tpl : str;
  cg_input_mapping : str;
  cg_mapping : gout (list centry);
  cg_type : str;
  cg_prepend : option str;
  cg_imports_from_file : option (gout str);
  cg_prepend_eval : option exn;
  cg_opts : gen_opts
}.

Definition gen_in_of (to_code : stmt -> gout str) (c : cgen_in) : gen_in :=
  mkGenIn (cg_name_tpl c) (cg_input_mapping c)
          (match cg_mapping c with
           | GOk ces => GOk (map (entry_of to_code (kind_of (cg_type c)) (cg_opts c) (cg_name_tpl c)) ces)
           | GErr x => GErr x
           end)
          (cg_type c) (cg_prepend c) (cg_imports_from_file c) (cg_prepend_eval c) (cg_opts c).

(* gen.py:gen with the per-entry conversion computed *)
Definition cgen (parse_src : str -> option (list top)) (to_code : stmt -> gout str) (c : cgen_in)
  : list event * gout gen_ok :=
  gen parse_src (gen_in_of to_code c).

Definition centries_of (c : cgen_in) : list centry :=
  match cg_mapping c with GOk ces => ces | GErr _ => [] end.

(* ------------------------------------------------------------------ reading a generated definition back *)
(* what ast.parse(to_code(node)).body[0] is, in PyAst terms.  For a function it is modelled
   (C03Spec.reparse_stmt: negative numbers come back as UnaryOp, ...).  For a class and an argparse function the
   emitted tree is taken as a fixed point of unparse/parse, exactly as props/C02.v and props/C04.v take it
   (their R1, checked per case by the oracle, not proved). *)
Definition reparse_def (k : gkind) (s : stmt) : outcome stmt :=
  match k with
  | GFunction => C03Spec.reparse_stmt s
  | _ => Ok s
  end.

(* parse.class_(node) / parse.function(node) / parse.argparse_ast(node) at their own defaults on the re-parsed
   definition.  The docstring-derived IR is composed as in C02DocLinkDefs / C03DocLinkDefs from the text the emitter
   wrote (class: the :cvar rewriting, ast.get_docstring = inspect.cleandoc, the :param rewriting, parse.docstring;
   function: inspect.cleandoc, parse.docstring).  For argparse the parser model takes the IR [di] that
   parse.docstring returned for the docstring of the generated function: its parameters do not depend on it. *)
Definition parse_back (k : gkind) (o : gen_opts) (pt : ptable) (i : ir) (di : ir) (s : stmt) : outcome ir :=
  do s' <- reparse_def k s;
  match k with
  | GClass =>
    do text <- entry_docstring GClass o pt i;
    parse_class (Some (C02DocLinkDefs.class_docstring_ir text)) (CStmt s') None false true
  | GFunction =>
    do text <- entry_docstring GFunction o pt i;
    do d <- C03DocLinkDefs.function_docstring_ir text;
    C03Spec.parse_fn (Some d) s'
  | GArgparse => parse_argparse_ast (Ok di) s' None None
  end.

(* the interface comparison of the kind: C02Spec.same_interface (class), C03Spec.same_interface_fn with kind static
   (function; strict on defaults), C04Spec.same_interface_argparse against the argparse-normalised types *)
Definition describes (k : gkind) (i i' : ir) : bool :=
  match k with
  | GClass => same_interface i i'
  | GFunction => C03Spec.same_interface_fn (L "static") i i'
  | GArgparse => same_interface_argparse (argparse_type_norm i) i'
  end.

(* ------------------------------------------------------------------ the per-entry guard *)
Definition is_Ok {A} (x : outcome A) : bool := match x with Ok _ => true | Err _ => false end.

(* every help text handed to textwrap.fill (word_wrap=True is emit.argparse_function's default) is one that fill
   leaves alone *)
Definition argparse_help_nowrap (i : ir) : bool :=
  Nat.ltb 0 gen_width
  && forallb (fun kv => match prose_of (snd kv) with
                     | Some d => C18Spec.nowrap_line gen_width d
                     | None => true
                     end) (ir_params i).

Definition no_return_entry (i : ir) : bool := match ir_returns i with Has _ => false | _ => true end.

(* the region in which the round trip of the kind is proved:
   class     props/C02Ext.v C02_partial_closed (guard_C02_ast, doc_link_ok); emit_call off, or no return entry
             (with emit_call and a return entry emit.class_ builds a __call__ method from the entry's default:
             KeyError when there is none)
   function  props/C03Ext.v C03_partial_closed (guard_C03, doc_link_ok) with the options above; the templated name
             is an identifier
   argparse  props/C04.v C04_partial (guard_C04_ast) with a non-empty name, help texts that are not re-flowed, and
             a docstring text that emit.docstring returns *)
Definition entry_guard (k : gkind) (o : gen_opts) (pt : ptable) (nm : str) (i : ir) : bool :=
  match k with
  | GClass =>
    (negb (o_emit_call o) || no_return_entry i) && guard_C02_ast i
    && C02DocLinkDefs.doc_link_ok gen_width (o_emit_default_doc o) true i
  | GFunction =>
    C06Spec.is_identifier nm
    && C03Spec.guard_C03 (gen_fopts pt (o_emit_default_doc o)) i
    && C03DocLinkDefs.doc_link_ok gen_width (gen_fopts pt (o_emit_default_doc o)) i
  | GArgparse =>
    Gen.nonempty nm && guard_C04_ast i && argparse_help_nowrap i
    && is_Ok (argparse_docstring_text gen_width i)
  end.

(* the guard at a mapping entry: the live object parsed, and its description is in the region *)
Definition centry_guard (k : gkind) (o : gen_opts) (tpl : str) (ce : centry) : bool :=
  match ce_parsed ce, format_name tpl (ce_name ce) with
  | GOk i, GOk nm => entry_guard k o (ce_pt ce) nm i
  | _, _ => false
  end.

(* ------------------------------------------------------------------ the per-entry statement, executable *)
(* the definition exists, carries the templated name, reads back, and what is read describes the same interface *)
Definition entry_round_trip_b (k : gkind) (o : gen_opts) (pt : ptable) (nm : str) (i di : ir) : bool :=
  match entry_def k o pt nm i with
  | Ok s =>
    match def_name s with
    | Some n => str_eqb n nm
    | None => false
    end
    && match parse_back k o pt i di s with
       | Ok i' => describes k i i'
       | Err _ => false
       end
  | Err _ => false
  end.

(* ------------------------------------------------------------------ the module-level vocabulary *)
(* one written definition d against the mapping entry it was generated from: the live object parsed to i; the
   emitter of the kind, called as gen calls it, returned the tree s named by the template; d is the definition
   statement with that name whose ast.unparse text is to_code(s); and s, read back by the parser of the kind
   (whatever IR di parse.docstring returned for an argparse docstring), describes the interface i *)
Definition def_describes (to_code : stmt -> gout str) (k : gkind) (o : gen_opts) (tpl : str)
           (ce : centry) (d : top) : Prop :=
  exists nm i s c text,
    ce_parsed ce = GOk i
    /\ format_name tpl (ce_name ce) = GOk nm
    /\ entry_def k o (ce_pt ce) nm i = Ok s
    /\ def_name s = Some nm
    /\ to_code s = GOk text
    /\ d = TDef c nm text
    /\ forall di, exists i', parse_back k o (ce_pt ce) i di s = Ok i' /\ describes k i i' = true.

(* through the CLI, main calls gen with emit_default_doc=True and decorator_list=None when no --decorator is
   given: the options the composed entries were computed with are those gen runs with *)
Definition route_opts_ok (x : c19_in) : bool :=
  match ci_via x with
  | ViaApi => true
  | ViaCli =>
    o_emit_default_doc (gi_opts (ci_gen x))
    && match o_decorator_list (gi_opts (ci_gen x)) with Some [] => false | _ => true end
  end.
