(* FS: the file system as a finite map path -> bytes, and doctrans.emit.file as a sequence of I/O steps
   with an explicit fault point (the OS write model of DESIGN.md 4.3: a failing write may have put any
   prefix into the file it was writing; os.replace is atomic).  Definitions only.
   emit.file (after the /repo fix):  render+format (may raise)  ->  [append: read old, terminate its last
   line]  ->  open tmp "wt"  ->  write  ->  os.replace(tmp, target)  ;  on any exception: remove tmp, re-raise. *)
From Coq Require Import List Ascii Bool Arith ZArith.
From Coq Require String.
Import String.StringSyntax.
From DT Require Import PyStr Sexp PyVal.
Import ListNotations.

Definition path := str.
Definition bytes := str.
Definition fsys := list (path * bytes).

Fixpoint fs_get (p : path) (fs : fsys) : option bytes :=
  match fs with
  | [] => None
  | (q, b) :: r => if str_eqb p q then Some b else fs_get p r
  end.

Fixpoint fs_remove (p : path) (fs : fsys) : fsys :=
  match fs with
  | [] => []
  | (q, b) :: r => if str_eqb p q then fs_remove p r else (q, b) :: fs_remove p r
  end.

Definition fs_set (p : path) (b : bytes) (fs : fsys) : fsys := (p, b) :: fs_remove p fs.

Inductive mode : Type := Wt | Ap.

(* where an I/O error strikes during one emit.file call *)
Inductive fault : Type :=
| NoFault
| FailReadOld            (* append mode: reading the existing file raises *)
| FailOpenTmp            (* open(tmp, "wt") raises before creating it *)
| FailWriteTmp (k : nat) (* write raises after k characters reached the temporary file *)
| FailReplace.           (* os.replace raises *)

Definition tmp_suffix : str := L ".doctrans-tmp".
Definition tmp_of (p : path) : path := p ++ tmp_suffix.

(* existing content with its last line terminated *)
Definition terminate (old : bytes) : bytes :=
  match old with
  | [] => []
  | _ => if endswith [nl] old then old else old ++ [nl]
  end.

(* the content emit.file intends to leave in `file` *)
Definition intended (fs : fsys) (file : path) (m : mode) (src : bytes) : bytes :=
  match m, fs_get file fs with
  | Ap, Some old => terminate old ++ src
  | _, _ => src
  end.

(* the I/O part of emit.file: returns the file system afterwards and whether it raised *)
Definition emit_file_io (fs : fsys) (file : path) (m : mode) (src : bytes) (f : fault)
  : fsys * outcome unit :=
  let new := intended fs file m src in
  let reads_old := match m, fs_get file fs with Ap, Some _ => true | _, _ => false end in
  match f with
  | FailReadOld => if reads_old then (fs, Err IOError) else (fs_set file new (fs_remove (tmp_of file) fs), Ok tt)
  | FailOpenTmp => (fs_remove (tmp_of file) fs, Err IOError)   (* the handler removes a stale tmp if one exists *)
  | FailWriteTmp k =>
    (* tmp holds a prefix, the handler removes it *)
    (fs_remove (tmp_of file) (fs_set (tmp_of file) (firstn k new) fs), Err IOError)
  | FailReplace => (fs_remove (tmp_of file) (fs_set (tmp_of file) new fs), Err IOError)
  | NoFault => (fs_set file new (fs_remove (tmp_of file) fs), Ok tt)
  end.

(* emit.file: rendering (to_code + black) happens first; an error there touches nothing *)
Definition emit_file (fs : fsys) (file : path) (m : mode) (rendered : outcome bytes) (f : fault)
  : fsys * outcome unit :=
  match rendered with
  | Err e => (fs, Err e)
  | Ok src => emit_file_io fs file m src f
  end.

(* wire *)
Definition enc_fs (fs : fsys) : sexp := enc_list (enc_pair enc_str enc_str) fs.
Definition dec_fs (e : sexp) : option fsys := dec_list (dec_pair dec_str dec_str) e.
Definition enc_mode (m : mode) : sexp := match m with Wt => sym "wt" | Ap => sym "a" end.
Definition dec_mode (e : sexp) : option mode :=
  if is_sym "wt" e then Some Wt else if is_sym "a" e then Some Ap else None.
Definition dec_fault (e : sexp) : option fault :=
  if is_sym "nofault" e then Some NoFault
  else if is_sym "fail-read-old" e then Some FailReadOld
  else if is_sym "fail-open-tmp" e then Some FailOpenTmp
  else if is_sym "fail-replace" e then Some FailReplace
  else match e with
       | SList [t; k] => if is_sym "fail-write-tmp" t then option_map FailWriteTmp (dec_nat k) else None
       | _ => None
       end.
