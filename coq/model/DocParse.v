(* DocParse: doctrans/docstring_parsers.py (style detection, the ReST scanner and parser,
   _set_name_and_type, _infer_default, _set_param_values), emitter_utils.interpolate_defaults and
   parse.docstring, transcribed as they are.  The numpydoc/google scanner+parser is a parameter.
   Also the specification printer [rest_text_of] (what emit.docstring writes in ReST style with
   word_wrap off and emit_default_doc on).  Definitions only. *)
From Coq Require Import List Ascii Bool Arith ZArith.
From Coq Require String.
Import String.StringSyntax.
From DT Require Import PyStr Sexp PyVal TyExpr PureUtils Defaults PyAst IR Extracted.
Import ListNotations.

(* ------------------------------------------------------------------ Python indexing *)

(* normalisation of a slice bound / a start position against a length *)
Definition norm_idx (len : nat) (i : Z) : nat :=
  if (i <? 0)%Z then Z.to_nat (Z.max 0 (Z.of_nat len + i)) else Nat.min (Z.to_nat i) len.

(* s[a:b] *)
Definition py_slice (s : str) (a b : Z) : str :=
  slice s (norm_idx (List.length s) a) (norm_idx (List.length s) b).

(* s[a:] *)
Definition py_slice_from (s : str) (a : Z) : str := skipn (norm_idx (List.length s) a) s.

(* s.find(sub, start) for a non-empty sub *)
Definition py_find (sub s : str) (start : Z) : Z := find_z sub s (norm_idx (List.length s) start).

(* ------------------------------------------------------------------ style detection *)

Inductive style : Type := Rest | Google | Numpydoc.

(* docstring_parsers.py:parse_docstring, the cascade over TOKENS *)
Definition detect_style (docstring : option str) : style :=
  match docstring with
  | None => Rest
  | Some d =>
    if existsb (fun t => contains t d) Extracted.rest_tokens then Rest
    else if existsb (fun t => contains t d) Extracted.google_tokens then Google
    else Numpydoc
  end.

(* ------------------------------------------------------------------ the ReST scanner *)

(* docstring_parsers.py:_scan_phase_rest.
   [rstack] is the character stack, top first (so it is the code's [stack_rev] when read forwards);
   [rscanned] is [scanned], last element first.
   One iteration of the inner  for token in rev_known_tokens_t  loop: [stack_rev] was computed once,
   before the loop, and is not refreshed when [stack] is reassigned; the trailing [continue] only
   moves on to the next token. *)
Definition scan_tok_step (stack_rev : str) (st : str * list (bool * str)) (tok : str)
  : str * list (bool * str) :=
  let '(rstack, rscanned) := st in
  let n := List.length tok in
  if startswith (rev tok) stack_rev then          (* tuple(stack_rev[:token_len]) == token *)
    let emitted := if Nat.eqb n 0 then [] else rev (skipn n rstack) in     (* stack[:-token_len] *)
    let flag := match rscanned with [] => false | _ => true end in       (* bool(len(scanned)) *)
    (* stack = stack[len(scanned[-1][1]):][:token_len] : what is left after the emitted prefix has at
       most token_len characters (all of them when the stack is shorter), so this is the top
       token_len characters *)
    (firstn n rstack, (flag, emitted) :: rscanned)
  else st.

Fixpoint scan_rest_chars (toks : list str) (s : str) (rstack : str) (rscanned : list (bool * str))
  : str * list (bool * str) :=
  match s with
  | [] => (rstack, rscanned)
  | c :: r =>
    let rstack1 := c :: rstack in
    let st := fold_left (scan_tok_step rstack1) toks (rstack1, rscanned) in
    scan_rest_chars toks r (fst st) (snd st)
  end.

Definition scan_rest_with (toks : list str) (docstring : str) : list (bool * str) :=
  let st := scan_rest_chars toks docstring [] [] in
  match fst st with
  | [] => rev (snd st)
  | rstack =>
    let final := rev rstack in
    let flag := (match snd st with (b, _) :: _ => b | [] => false end)
                || existsb (fun t => startswith t final) toks in
    rev ((flag, final) :: snd st)
  end.

Definition rest_scan_tokens : list str := Extracted.arg_tokens_rest ++ Extracted.return_tokens_rest.

Definition scan_rest (docstring : str) : list (bool * str) := scan_rest_with rest_scan_tokens docstring.

(* ------------------------------------------------------------------ helpers of the parse phase *)

(* docstring_parsers.py:_set_param_values; true = the key is typ, false = doc *)
Definition set_param_values (input_str val sw : str) : bool * str :=
  if startswith sw input_str then
    let v := replace (L "```") [] val in
    (true, if startswith (L "**") v then L "dict" else v)
  else (false, val).

Definition set_kv (p : param) (kv : bool * str) : param :=
  if fst kv then mkParam (p_doc p) (Has (snd kv)) (p_default p)
  else mkParam (Has (snd kv)) (p_typ p) (p_default p).

Definition empty_param : param := mkParam Missing Missing None.

(* d.update(e) on parameter dicts *)
Definition update_param (d e : param) : param :=
  mkParam (match p_doc e with Missing => p_doc d | x => x end)
          (match p_typ e with Missing => p_typ d | x => x end)
          (match p_default e with None => p_default d | x => x end).

(* emitter_utils.py:interpolate_defaults (returns the mutated dict; the name passes through) *)
Definition interpolate_defaults (p : param) (announces : list str) (require_default emit_default_doc : bool)
  : outcome param :=
  do p1 <- match p_doc p with
           | Missing => Ok p
           | d =>
             do r <- extract_default_fld d true announces (fget (p_typ p)) emit_default_doc;
             Ok (mkParam (fst r) (p_typ p)
                         (match snd r with
                          | None | Some VNone => p_default p        (* if default is not None *)
                          | Some v => Some (unquote_val v)
                          end))
           end;
  if require_default && (match p_default p1 with None | Some VNone => true | Some _ => false end) then
    match p_typ p1 with
    | Missing => Ok (mkParam (p_doc p1) (p_typ p1) (Some (VStr NoneStr)))     (* memoryview not in simple_types *)
    | FNone => if Extracted.simple_types_has_None_key
               then Ok (mkParam (p_doc p1) (p_typ p1) (Some VNone))
               else Ok (mkParam (p_doc p1) (p_typ p1) (Some (VStr NoneStr)))
    | Has t => if in_simple_types t
               then match simple_type_zero t with
                    | Some z => Ok (mkParam (p_doc p1) (p_typ p1) (Some z))
                    | None => Err Unmodelled                                     (* complex *)
                    end
               else Ok (mkParam (p_doc p1) (p_typ p1) (Some (VStr NoneStr)))
    end
  else Ok p1.

Definition is_str_val (v : pyval) : bool := match v with VStr _ => true | _ => false end.
Definition fld_is_none {A} (f : fld A) : bool := match f with Has _ => false | _ => true end.

(* docstring_parsers.py:_infer_default on a dict whose default is a scalar (the ast-valued branches,
   which now come before the unquoting branch, do not apply to scalars; needs_quoting is still
   evaluated before the isinstance test of its  or ) *)
Definition infer_default (p : param) (infer_type : bool) : outcome param :=
  match p_default p with
  | None => Err KeyError
  | Some d0 =>
    let d1 := if in_none_types d0 then VStr NoneStr else d0 in
    let typ1 := if infer_type && fld_is_none (p_typ p) && negb (in_none_types d1)
                then Has (type_name d1) else p_typ p in
    do nq <- needs_quoting (fget typ1);
    let d2 := if nq || is_str_val d1 then unquote_val d1 else d1 in
    let not_nonestr := negb (pyval_eqb d2 (VStr NoneStr)) in
    let typ2 := if fld_is_none typ1 && not_nonestr then Has (type_name d2) else typ1 in
    if not_nonestr && code_quoted_val d2 then
      match typ2 with
      | Missing => Err KeyError              (* bracket not in iter(()), then del of a missing key *)
      | FNone => Err TypeError               (* bracket in None *)
      | Has t => if contains [ch 91] t then Ok (mkParam (p_doc p) typ2 (Some d2))
                 else Ok (mkParam (p_doc p) Missing (Some d2))
      end
    else Ok (mkParam (p_doc p) typ2 (Some d2))
  end.

Definition google_opt : str := L ", optional".

(* docstring_parsers.py:_set_name_and_type *)
Definition set_name_and_type (name : option str) (p : param) (infer_type word_wrap : bool)
  : outcome (str * param) :=
  match name with
  | None => Err AttributeError
  | Some name0 =>
    do np <- (if endswith (L "kwargs") name0 || startswith (L "**") name0 then
                let typ' := match p_typ p with
                            | Missing => Has (L "Optional[dict]")
                            | Has t => if str_eqb t (L "dict") then Has (L "Optional[dict]") else Has t
                            | FNone => FNone
                            end in
                let d' := match p_default p with None => Some (VStr NoneStr) | d => d end in
                Ok (lstrip_chars [ch 42] name0, mkParam (p_doc p) typ' d')
              else match p_default p with
                   | Some _ => do p' <- infer_default p infer_type; Ok (name0, p')
                   | None => Ok (name0, p)
                   end);
    let name1 := fst np in
    let p1 := snd np in
    let typ1 := match p_typ p1 with
                | Has t => if endswith google_opt t
                           then Has (L "Optional[" ++ firstn (List.length t - List.length google_opt) t ++ L "]")
                           else Has t
                | x => x
                end in
    match p_doc p1 with
    | Has (c :: dr) =>
      let d := c :: dr in
      let d' := rstrip (if word_wrap then join [sp] (map strip (split_nl d)) else d) in
      if startswith (L "(Optional)") d' || startswith (L "Optional") d' then
        match typ1 with
        | Missing => Ok (name1, mkParam (Has d') typ1 (p_default p1))
        | FNone => Err AttributeError
        | Has t => if startswith (L "Optional[") t then Ok (name1, mkParam (Has d') typ1 (p_default p1))
                   else Ok (name1, mkParam (Has d') (Has (L "Optional[" ++ t ++ L "]")) (p_default p1))
        end
      else Ok (name1, mkParam (Has d') typ1 (p_default p1))
    | _ => Ok (name1, mkParam Missing typ1 (p_default p1))      (* doc missing, None or empty: key deleted *)
    end
  end.

(* ------------------------------------------------------------------ _parse_phase_rest *)

Record rstate : Type := mkRS {
  rs_doc : str;                              (* intermediate_repr["doc"] *)
  rs_params : list (str * param);            (* intermediate_repr["params"] *)
  rs_returns : option param;                 (* None = intermediate_repr["returns"] is None *)
  rs_cur : option str * param                (* the running [param] pair *)
}.

Definition init_rstate : rstate := mkRS [] [] None (None, empty_param).

Definition last_str (l : list str) : str := match rev l with x :: _ => x | [] => [] end.

(* the two calls of _remove_default_from_param guarded by
   if not emit_default_doc and not emit_default_prop *)
Definition maybe_remove (p : param) (emit_default_prop emit_default_doc : bool) : outcome param :=
  if negb emit_default_doc && negb emit_default_prop
  then remove_default_from_param p emit_default_doc
  else Ok p.

Definition parse_rest_line (infer_type word_wrap emit_default_prop emit_default_doc : bool)
           (st : rstate) (el : bool * str) : outcome rstate :=
  let '(is_token, line) := el in
  if is_token then
    if existsb (fun t => startswith t line) Extracted.return_tokens_rest then
      let nxt_colon := py_find [ch 58] line 1 in
      let val := strip (py_slice_from line (nxt_colon + 1)) in
      let base := match rs_returns st with None => empty_param | Some r => r end in
      let kv := set_param_values line val (last_str Extracted.return_tokens_rest) in
      do p <- interpolate_defaults (set_kv empty_param kv) default_announces false emit_default_doc;
      Ok (mkRS (rs_doc st) (rs_params st) (Some (update_param base p)) (rs_cur st))
    else
      let fst_space := py_find [sp] line 0 in
      let nxt_colon := py_find [ch 58] line fst_space in
      let name := py_slice line (fst_space + 1) nxt_colon in
      do flushed <-
         (match fst (rs_cur st) with
          | Some n =>
            if negb (str_eqb n name) then
              match n with
              | [] => Err IndexError                                        (* param[0][0] on the empty name *)
              | c :: _ =>
                if ascii_eqb c (ch 42) then Ok (rs_params st, (None, empty_param))
                else Ok (od_set n (snd (rs_cur st)) (rs_params st), (None, empty_param))
              end
            else Ok (rs_params st, rs_cur st)
          | None => Ok (rs_params st, rs_cur st)
          end);
      let params' := fst flushed in
      let cur := snd flushed in
      let val := strip (py_slice_from line (nxt_colon + 1)) in
      let p1 := set_kv (snd cur) (set_param_values line val (L ":type")) in
      do p2 <- interpolate_defaults p1 default_announces false emit_default_doc;
      do np <- set_name_and_type (Some name) p2 infer_type word_wrap;
      do p4 <- maybe_remove (snd np) emit_default_prop emit_default_doc;
      Ok (mkRS (rs_doc st) params' (rs_returns st) (Some (fst np), p4))
  else
    match rs_doc st with
    | [] => Ok (mkRS (strip line) (rs_params st) (rs_returns st) (rs_cur st))
    | _ => Ok st
    end.

Fixpoint fold_outcome {A B} (f : A -> B -> outcome A) (l : list B) (a : A) : outcome A :=
  match l with
  | [] => Ok a
  | x :: r => do a' <- f a x; fold_outcome f r a'
  end.

(* the loop, then the final flush  if param and param[0] is not None:  (the pair itself is always
   truthy: a non-empty list or tuple; only a pair that has a name is flushed) *)
Definition parse_phase_rest (scanned : list (bool * str))
           (infer_type word_wrap emit_default_prop emit_default_doc : bool) : outcome rstate :=
  do st <- fold_outcome (parse_rest_line infer_type word_wrap emit_default_prop emit_default_doc)
                        scanned init_rstate;
  match fst (rs_cur st) with
  | None => Ok st
  | Some _ =>
    do p <- interpolate_defaults (snd (rs_cur st)) default_announces false emit_default_doc;
    do np <- set_name_and_type (fst (rs_cur st)) p infer_type word_wrap;
    do p' <- maybe_remove (snd np) emit_default_prop emit_default_doc;
    Ok (mkRS (rs_doc st) (od_set (fst np) p' (rs_params st)) (rs_returns st) (rs_cur st))
  end.

Fixpoint map_outcome {A B} (f : A -> outcome B) (l : list A) : outcome (list B) :=
  match l with
  | [] => Ok []
  | x :: r => do y <- f x; do ys <- map_outcome f r; Ok (y :: ys)
  end.

Definition map_params (f : param -> outcome param) (l : list (str * param)) : outcome (list (str * param)) :=
  map_outcome (fun kv => do p <- f (snd kv); Ok (fst kv, p)) l.

Definition map_returns (f : param -> outcome param) (r : option param) : outcome (option param) :=
  match r with None => Ok None | Some p => do p' <- f p; Ok (Some p') end.

Definition ir_of_parts (doc : str) (params : list (str * param)) (returns : option param) : ir :=
  mkIR FNone (Has (L "static")) (Has doc)
       (map (fun kv => (fst kv, gparam_of_param (snd kv))) params)
       (match returns with None => FNone | Some r => Has (gparam_of_param r) end)
       None.

(* the block  if not emit_default_prop:  of parse_docstring, any style *)
Definition post_remove (emit_default_prop : bool) (params : list (str * param)) (returns : option param)
  : outcome (list (str * param) * option param) :=
  if emit_default_prop then Ok (params, returns)
  else
    do ps <- map_params (fun p => remove_default_from_param p emit_default_prop) params;
    do r <- map_returns (fun p => remove_default_from_param p emit_default_prop) returns;
    Ok (ps, r).

(* parse_docstring on a non-empty ReST-style docstring: scan, parse, the  if style is Style.rest  block,
   the  if not emit_default_prop  block *)
Definition parse_rest (docstring : str) (infer_type word_wrap emit_default_prop emit_default_doc : bool)
  : outcome ir :=
  do st <- parse_phase_rest (scan_rest docstring) infer_type word_wrap emit_default_prop emit_default_doc;
  do ps <- map_params (fun p => interpolate_defaults p default_announces false emit_default_doc) (rs_params st);
  do r <- map_returns (fun p => interpolate_defaults p default_announces false emit_default_doc) (rs_returns st);
  do pr <- post_remove emit_default_prop ps r;
  Ok (ir_of_parts (rs_doc st) (fst pr) (snd pr)).

Definition base_ir : ir := mkIR FNone (Has (L "static")) (Has []) [] FNone None.

(* what the numpydoc/google scanner+parser hands back: doc, params, returns after _parse_phase *)
Definition ng_parser : Type :=
  style -> str -> bool -> bool -> bool -> bool -> outcome (str * list (str * gparam) * option gparam).

Definition ng_unmodelled : ng_parser := fun _ _ _ _ _ _ => Err Unmodelled.

Definition params_of_gparams (l : list (str * gparam)) : outcome (list (str * param)) :=
  map_outcome (fun kv => match param_of_gparam (snd kv) with
                         | Some p => Ok (fst kv, p)
                         | None => Err Unmodelled
                         end) l.

(* docstring_parsers.py:parse_docstring with default_search_announce=None *)
Definition parse_docstring (ng : ng_parser) (docstring : option str)
           (infer_type word_wrap emit_default_prop emit_default_doc : bool) : outcome ir :=
  match docstring with
  | None | Some [] => Ok base_ir
  | Some d =>
    match detect_style docstring with
    | Rest => parse_rest d infer_type word_wrap emit_default_prop emit_default_doc
    | sty =>
      do r <- ng sty d infer_type word_wrap emit_default_prop emit_default_doc;
      let '(doc, gps, gr) := r in
      if emit_default_prop then
        Ok (mkIR FNone (Has (L "static")) (Has doc) gps
                 (match gr with None => FNone | Some g => Has g end) None)
      else
        do ps <- params_of_gparams gps;
        do ret <- match gr with
                  | None => Ok None
                  | Some g => match param_of_gparam g with Some p => Ok (Some p) | None => Err Unmodelled end
                  end;
        do pr <- post_remove emit_default_prop ps ret;
        Ok (ir_of_parts doc (fst pr) (snd pr))
    end
  end.

(* parse.py:docstring (return_tuple=False); its own defaults are infer_type=False, emit_default_prop=True,
   emit_default_doc=True and parse_docstring's word_wrap=True *)
Definition parse_dot_docstring (ng : ng_parser) (doc_string : str)
           (infer_type emit_default_prop emit_default_doc : bool) : outcome ir :=
  parse_docstring ng (Some doc_string) infer_type true emit_default_prop emit_default_doc.

(* ------------------------------------------------------------------ specification printer *)

Definition truthy_fld (f : fld str) : bool := match f with Has (_ :: _) => true | _ => false end.

(* docstring_utils.py:emit_param_str, style rest, word_wrap=False, emit_default_doc=True.
   The pieces (doc line, type line) before joining. *)
Definition rest_param_lines (name : str) (g : gparam) : outcome (list str) :=
  let is_ret := str_eqb name (L "return_type") in
  let key := if is_ret then L "returns" else L "param " ++ name in
  let key_typ := if is_ret then L "rtype" else L "type " ++ name in
  do doc_line <-
     (if truthy_fld (g_doc g) then
        match param_of_gparam g with
        | None => Err Unmodelled
        | Some p =>
          do p' <- set_default_doc name p true;
          match p_doc p' with
          | Has d => Ok [L ":" ++ key ++ L ": " ++ d]
          | _ => Err Unmodelled
          end
        end
      else Ok []);
  let typ_line := match g_typ g with
                  | Has (c :: t) => [L ":" ++ key_typ ++ L ": ```" ++ (c :: t) ++ L "```"]
                  | _ => []
                  end in
  Ok (doc_line ++ typ_line).

Definition rest_param_text (name : str) (g : gparam) : outcome str :=
  do ls <- rest_param_lines name g;
  Ok (join [nl] (map (fun l => indent_all_but_first l 1 false) ls)).

(* emit.py:docstring with docstring_format=rest, word_wrap=False, emit_default_doc=True *)
Definition rest_text_of (i : ir) : outcome str :=
  do doc <- match ir_doc i with
            | Has d => Ok d
            | FNone => Ok (L "None")
            | Missing => Err KeyError
            end;
  do ps <- map_outcome (fun kv => rest_param_text (fst kv) (snd kv)) (ir_params i);
  do ret <- match ir_returns i with
            | Has g => do t <- rest_param_text (L "return_type") g; Ok (nl :: t)
            | _ => Ok []
            end;
  Ok ([nl] ++ doc ++ [nl; nl] ++ join [nl; nl] ps ++ [nl] ++ ret ++ [nl]).

(* ------------------------------------------------------------------ wire *)

Definition enc_style (s : style) : sexp :=
  match s with Rest => sym "rest" | Google => sym "google" | Numpydoc => sym "numpydoc" end.

Definition enc_scanned (l : list (bool * str)) : sexp := enc_list (enc_pair enc_bool enc_str) l.

Definition opt_bind' {A B} (x : option A) (f : A -> option B) : option B :=
  match x with Some a => f a | None => None end.
Notation "'let?' x := e1 'in' e2" := (opt_bind' e1 (fun x => e2))
  (at level 200, x pattern, e1 at level 100, e2 at level 200).

Definition with_param (g : gparam) (f : param -> outcome param) : outcome gparam :=
  match param_of_gparam g with
  | Some p => do p' <- f p; Ok (gparam_of_param p')
  | None => Err Unmodelled
  end.

(* FAMILY: run_docparse *)
Definition run_docparse (fn : sexp) (args : list sexp) : option sexp :=
  if is_sym "detect_style" fn then
    match args with
    | [d] => let? d := dec_option dec_str d in Some (enc_style (detect_style d))
    | _ => None
    end
  else if is_sym "scan_rest" fn then
    match args with
    | [d] => let? d := dec_str d in Some (enc_scanned (scan_rest d))
    | _ => None
    end
  else if is_sym "parse_docstring" fn then
    match args with
    | [d; it; ww; prop; edd] =>
      let? d := dec_option dec_str d in
      let? it := dec_bool it in
      let? ww := dec_bool ww in
      let? prop := dec_bool prop in
      let? edd := dec_bool edd in
      Some (enc_outcome enc_ir (parse_docstring ng_unmodelled d it ww prop edd))
    | _ => None
    end
  else if is_sym "parse_dot_docstring" fn then
    match args with
    | [d; it; prop; edd] =>
      let? d := dec_str d in
      let? it := dec_bool it in
      let? prop := dec_bool prop in
      let? edd := dec_bool edd in
      Some (enc_outcome enc_ir (parse_dot_docstring ng_unmodelled d it prop edd))
    | _ => None
    end
  else if is_sym "interpolate_defaults" fn then
    match args with
    | [g; req; edd] =>
      let? g := dec_gparam g in
      let? req := dec_bool req in
      let? edd := dec_bool edd in
      Some (enc_outcome enc_gparam (with_param g (fun p => interpolate_defaults p default_announces req edd)))
    | _ => None
    end
  else if is_sym "set_name_and_type" fn then
    match args with
    | [name; g; it; ww] =>
      let? name := dec_option dec_str name in
      let? g := dec_gparam g in
      let? it := dec_bool it in
      let? ww := dec_bool ww in
      Some (enc_outcome (enc_pair enc_str enc_gparam)
              (match name, param_of_gparam g with
               | None, _ => Err AttributeError
               | Some _, None => Err Unmodelled
               | Some _, Some p => do np <- set_name_and_type name p it ww;
                                   Ok (fst np, gparam_of_param (snd np))
               end))
    | _ => None
    end
  else if is_sym "rest_text_of" fn then
    match args with
    | [i] => let? i := dec_ir i in Some (enc_outcome enc_str (rest_text_of i))
    | _ => None
    end
  else None.
