(* Defaults: doctrans/defaults_utils.py (extract_default, set_default_doc, needs_quoting,
   _remove_default_from_param) and pure_utils.location_within, transcribed as they are.
   Definitions only. *)
From Coq Require Import List Ascii Bool Arith ZArith.
From Coq Require String.
Import String.StringSyntax.
From DT Require Import PyStr Sexp PyVal TyExpr PureUtils.
Import ListNotations.

(* ---- dict-like parameter record ----
   doc / typ: key missing, key present with None, key present with a str.
   default : key missing, or present with a value (VNone = present with None). *)
Inductive fld (A : Type) : Type := Missing | FNone | Has (a : A).
Arguments Missing {A}.
Arguments FNone {A}.
Arguments Has {A} a.

Record param : Type := mkParam {
  p_doc : fld str;
  p_typ : fld str;
  p_default : option pyval
}.

(* d.get(k) as an option: Missing and None collapse *)
Definition fget {A} (f : fld A) : option A := match f with Has a => Some a | _ => None end.

(* location_within(container, iterable, cmp) with cmp = equality after [norm] on both sides.
   Returns (start, end, elem). *)
Fixpoint location_within (norm : str -> str) (container : str) (elems : list str)
  : option (nat * nat * str) :=
  match elems with
  | [] => None
  | e :: r =>
    if Nat.ltb (List.length container) (List.length e) then location_within norm container r
    else match find (norm e) (norm container) with
         | Some i => Some (i, i + List.length e, e)
         | None => location_within norm container r
         end
  end.

Definition default_announces : list str :=
  [L "defaults to "; L "defaults to" ++ [nl]; L "Default value is "; L "Default:"].

(* needs_quoting(typ) *)
Definition needs_quoting_ty (t : ty) : bool :=
  match t with
  | TName [x] => str_eqb x (L "str")
  | TName _ => false     (* isinstance(parsed, Name) is false for Attribute; falls to the walk *)
  | _ => false
  end.

Definition node_needs_quote (n : tnode) : bool :=
  match n with
  | NStr _ => true
  | NName id => str_eqb id (L "str")
  | _ => false
  end.

Definition needs_quoting (typ : option str) : outcome bool :=
  match typ with
  | None => Ok false
  | Some t =>
    if startswith [ch 42] t then Ok false
    else if str_eqb t (L "str") || str_eqb t (L "Optional[str]") then Ok true
    else
      let t' := strip (replace [nl] [] t) in
      match parse_ty_fix t' with
      | None => Err Unmodelled
      | Some (TName [x]) => Ok (str_eqb x (L "str"))
      | Some tree => Ok (existsb node_needs_quote (walk tree))
      end
  end.

(* the character scan of extract_default: returns the raw default text *)
Definition is_par (c : ascii) : bool :=
  mem_c c (L "{[()]}").

Fixpoint scan_default (s : str) (depth : nat) : str :=
  match s with
  | [] => []
  | c :: r =>
    if ascii_eqb c (ch 46)
       && (match r with [] => true | d :: _ => negb (isdigit d) end)
       && Nat.eqb depth 0
    then []
    else c :: scan_default r (if is_par c then S depth else depth)
  end.

(* Python slice line[:k] for a possibly negative k *)
Definition slice_to_z (s : str) (k : Z) : str :=
  if (k <? 0)%Z then firstn (List.length s - Z.to_nat (- k)) s else firstn (Z.to_nat k) s.

Definition rstrip_set (c : ascii) : bool :=
  ascii_eqb c sp || ascii_eqb c tabch || ascii_eqb c nl || ascii_eqb c (ch 46).

(* default[:1] in {"-", "+"} and default[1:].isdecimal() *)
Definition signed_decimal (s : str) : bool :=
  match s with
  | c :: r => (ascii_eqb c (ch 45) || ascii_eqb c (ch 43)) && isdecimal r
  | [] => false
  end.

(* the coercion block *)
Definition coerce_default (typ : option str) (default : str) : outcome pyval :=
  let typed := match typ with
               | Some t => in_simple_types t && negb (in_none_types (VStr default))
               | None => false
               end in
  if typed then
    match typ with
    | Some t => do lit <- literal_eval_scalar default; coerce t lit
    | None => Err Unmodelled
    end
  else if isdecimal default then Ok (VInt (Z.of_N (N_of_dec default)))
  else if signed_decimal default then
    match Z_of_dec_signed default with Some z => Ok (VInt z) | None => Err Unmodelled end
  else if str_eqb default (L "True") then Ok (VBool true)
  else if str_eqb default (L "False") then Ok (VBool false)
  else match float_of_str default with
       | Ok r => Ok (VFloat r)
       | Err ValueError => Ok (VStr default)
       | Err e => Err e
       end.

(* extract_default(line, rstrip_default, default_search_announce, typ, emit_default_doc)
   for a str line; announces = the tuple searched (default_announces when None was passed) *)
Definition extract_default (line : str) (rstrip_default : bool) (announces : list str)
           (typ : option str) (emit_default_doc : bool) : outcome (str * option pyval) :=
  match location_within casefold line announces with
  | None => Ok (line, None)
  | Some (start_idx, end_idx, _) =>
    let sub_l := skipn end_idx line in
    let raw := scan_default sub_l 0 in
    let rest_offset := end_idx + List.length raw in
    let d1 := strip_chars (L " `" ++ [tabch]) raw in
    let d2 := if startswith [ch 40] d1 then d1
              else if endswith (L ").") d1 then firstn (List.length d1 - 2) d1 else d1 in
    do v <- coerce_default typ d2;
    if emit_default_doc then Ok (line, Some v)
    else
      let rest_offset' :=
          if rstrip_default
          then rest_offset + List.length (takewhile rstrip_set (skipn rest_offset line))
          else rest_offset in
      Ok (slice_to_z line (Z.of_nat start_idx - 1) ++ skipn rest_offset' line, Some v)
  end.

(* extract_default(None, ...) returns (None, None); lifted to the doc field *)
Definition extract_default_fld (doc : fld str) (rstrip_default : bool) (announces : list str)
           (typ : option str) (emit_default_doc : bool) : outcome (fld str * option pyval) :=
  match doc with
  | Has line => do r <- extract_default line rstrip_default announces typ emit_default_doc;
                Ok (Has (fst r), snd r)
  | _ => Ok (FNone, None)
  end.

(* quote(default) if isinstance(default, (str, NoneType)) and needs_quoting(typ) else default *)
Definition shown_default (dflt : pyval) (typ : option str) : outcome pyval :=
  match dflt with
  | VStr _ | VNone => do nq <- needs_quoting typ; if nq then quote_val dflt else Ok dflt
  | _ => Ok dflt
  end.

(* interpolate_defaults((name, _param), default_search_announce, require_default, emit_default_doc) *)
Definition unquote_val (v : pyval) : pyval :=
  match v with VStr s => VStr (unquote s) | _ => v end.

(* set_default_doc((name, _param), emit_default_doc): returns the (mutated) param *)
Definition set_default_doc (name : str) (p : param) (emit_default_doc : bool) : outcome param :=
  match p_doc p with
  | Missing => Ok p
  | FNone => Err TypeError                       (* "Defaults" in None *)
  | Has doc =>
    let has_defaults := contains (L "Defaults") doc || contains (L "defaults") doc in
    if has_defaults && negb emit_default_doc then
      do r <- extract_default doc true default_announces None false;
      Ok (mkParam (Has (fst r)) (p_typ p) (p_default p))
    else
      match p_default p with
      | Some dflt =>
        if negb has_defaults && emit_default_doc then
          let dflt' := if pyval_eqb dflt (VStr NoneStr) then VNone else dflt in
          let p' := mkParam (p_doc p) (p_typ p) (Some dflt') in
          if negb (pyval_eqb dflt' VNone) || negb (endswith (L "kwargs") name) then
            match last_c doc with
            | None => Err IndexError               (* doc[-1] on "" *)
            | Some c =>
              let doc' := if ascii_eqb c (ch 46) || ascii_eqb c (ch 44) then doc else doc ++ [ch 46] in
              do shown <- shown_default dflt' (fget (p_typ p));
              Ok (mkParam (Has (doc' ++ L " Defaults to " ++ py_str shown)) (p_typ p) (Some dflt'))
            end
          else Ok p'
        else Ok p
      | None => Ok p
      end
  end.

(* _remove_default_from_param((name, _param), emit_default_prop) *)
Definition remove_default_from_param (p : param) (emit_default_prop : bool) : outcome param :=
  match p_doc p with
  | Missing => Err KeyError
  | d =>
    do r <- extract_default_fld d true default_announces None false;
    let '(doc, dflt) := r in
    match dflt with
    | Some v => if emit_default_prop then Ok (mkParam doc (p_typ p) (Some v))
                else Ok (mkParam doc (p_typ p) None)
    | None => Ok (mkParam doc (p_typ p) None)
    end
  end.

(* ---- wire ---- *)
Definition enc_fld {A} (f : A -> sexp) (x : fld A) : sexp :=
  match x with Missing => sym "missing" | FNone => sym "none" | Has a => SList [sym "has"; f a] end.
Definition dec_fld {A} (f : sexp -> option A) (e : sexp) : option (fld A) :=
  if is_sym "missing" e then Some Missing
  else if is_sym "none" e then Some FNone
  else match e with
       | SList [t; x] => if is_sym "has" t then option_map Has (f x) else None
       | _ => None
       end.

Definition enc_param (p : param) : sexp :=
  SList [enc_fld enc_str (p_doc p); enc_fld enc_str (p_typ p); enc_option enc_pyval (p_default p)].
Definition dec_param (e : sexp) : option param :=
  match e with
  | SList [d; t; v] =>
    match dec_fld dec_str d, dec_fld dec_str t, dec_option dec_pyval v with
    | Some d', Some t', Some v' => Some (mkParam d' t' v')
    | _, _, _ => None
    end
  | _ => None
  end.
