(* C03Spec: property C03 (function / method round trip)
     emit.function -> ast.unparse -> ast.parse -> parse.function
   over the models EmitAst.emit_function and ParseSig.parse_function, with the docstring layer decoupled
   exactly as those models are: the emitter takes the text tds that to_docstring returned, the parser takes
   the docstring-derived IR d.  What the ReST round trip of that text has to provide is the named relation
   doc_agrees (names, order and prose of the documented entries; types when they are written into the
   docstring); it is a hypothesis of the composition theorems and is evaluated by the oracle on the real
   docstring-derived IR of every in-guard point.

   New modelled function: reparse_stmt = ast.parse(ast.unparse(node)).body[0] on the emitted fragment (R1 of
   DESIGN.md made explicit: a negative numeric Constant comes back as UnaryOp(USub, Constant), Name(None)
   makes ast.unparse raise TypeError, everything else of the fragment is a fixed point); checked against
   CPython by harness/fam_c03.py.

   Also: the comparison relation same_interface_fn (strict: an absent default must stay absent), the kind
   relation, the domain, the finding classes with the executable classifier finding_class_C03 (a function of
   the options and the input description only) and guard_C03.  Definitions only. *)
From Coq Require Import List Ascii Bool Arith ZArith.
From Coq Require String.
Import String.StringSyntax.
From DT Require Import PyStr Sexp PyVal TyExpr Extracted PureUtils Defaults PyAst IR Merge ParseSig C12Spec.
From DT Require EmitAst C06Spec C02Spec.
Import ListNotations.

(* ================= options ================= *)

(* fo_pt: the boundary input of EmitAst (what ast.parse makes of the code strings outside TyExpr's fragment:
   here only the code of a return default) *)
Record fopts : Type := mkFO {
  fo_kind : str;                (* function_type: static / self / cls *)
  fo_inline : bool;             (* inline_types *)
  fo_kwonly : bool;             (* emit_as_kwonlyargs *)
  fo_indent : nat;              (* indent_level 0..2   (docstring layer only) *)
  fo_sep_tab : bool;            (* emit_separating_tab (docstring layer only) *)
  fo_edd : bool;                (* emit_default_doc    (docstring layer only) *)
  fo_word_wrap : bool;          (* word_wrap           (docstring layer only) *)
  fo_pt : EmitAst.ptable
}.

Definition fname : str := L "f".

(* ================= ast.parse(ast.unparse(node)) on the emitted fragment ================= *)

Definition usub : str := L "USub".
Definition name_none_src : str := L "<Name id=None>".

Fixpoint reparse_expr (e : expr) : outcome expr :=
  let go := (fix go (l : list expr) : outcome (list expr) :=
               match l with
               | [] => Ok []
               | x :: r => do a <- reparse_expr x; do b <- go r; Ok (a :: b)
               end) in
  let gokw := (fix gokw (l : list (option str * expr)) : outcome (list (option str * expr)) :=
                 match l with
                 | [] => Ok []
                 | (k, v) :: r => do a <- reparse_expr v; do b <- gokw r; Ok ((k, a) :: b)
                 end) in
  match e with
  | EConst (VInt z) => Ok (if (z <? 0)%Z then EUnary usub (EConst (VInt (- z))) else e)
  | EConst (VFloat r) =>
    if contains (L "nan") r then Err Unmodelled             (* printed as (1e309-1e309): a BinOp *)
    else Ok (match r with
             | c :: r' => if ascii_eqb c (ch 45) then EUnary usub (EConst (VFloat r')) else e
             | [] => e
             end)
  | EConst (VStr s) => if ascii_only s then Ok e else Err Unmodelled
  | EConst _ => Ok e
  | EName _ => Ok e
  | EAttr e' a => do x <- reparse_expr e'; Ok (EAttr x a)
  | ESub e' s => do x <- reparse_expr e'; do y <- reparse_expr s; Ok (ESub x y)
  | ETuple es => do l <- go es; Ok (ETuple l)
  | EList es => do l <- go es; Ok (EList l)
  | EDict ks vs => do k <- go ks; do v <- go vs; Ok (EDict k v)
  | ECall f args kws => do f' <- reparse_expr f; do a <- go args; do k <- gokw kws; Ok (ECall f' a k)
  | EUnary op e' => do x <- reparse_expr e'; Ok (EUnary op x)
  | EOpaque src => if str_eqb src name_none_src then Err TypeError else Ok e   (* canonical text of a parsed node *)
  end.

Definition reparse_opt (o : option expr) : outcome (option expr) :=
  match o with Some e => do x <- reparse_expr e; Ok (Some x) | None => Ok None end.

Definition reparse_arg (a : arg) : outcome arg :=
  do x <- reparse_opt (a_ann a); Ok (mkArg (a_name a) x).

Definition reparse_opt_arg (o : option arg) : outcome (option arg) :=
  match o with Some a => do x <- reparse_arg a; Ok (Some x) | None => Ok None end.

Definition reparse_arguments (a : arguments) : outcome arguments :=
  do args <- mapM reparse_arg (ar_args a);
  do ds <- mapM reparse_expr (ar_defaults a);
  do kwo <- mapM reparse_arg (ar_kwonly a);
  do kwd <- mapM reparse_opt (ar_kw_defaults a);
  do va <- reparse_opt_arg (ar_vararg a);
  do kw <- reparse_opt_arg (ar_kwarg a);
  Ok (mkArguments args ds kwo kwd va kw).

(* statements of the body emit.function builds itself: the docstring and the generated return *)
Definition reparse_body_stmt (s : stmt) : outcome stmt :=
  match s with
  | SExpr (EConst (VStr t)) => Ok s      (* a str constant statement comes back with the same value, whatever its text *)
  | SExpr e => do x <- reparse_expr e; Ok (SExpr x)
  | SReturn o => do x <- reparse_opt o; Ok (SReturn x)
  | _ => Err Unmodelled
  end.

Definition reparse_stmt (s : stmt) : outcome stmt :=
  match s with
  | SFunc n a b dc r =>
    if negb (C06Spec.is_identifier n) then Err Unmodelled
    else
      do a' <- reparse_arguments a;
      do b' <- mapM reparse_body_stmt b;
      do dc' <- mapM reparse_expr dc;
      do r' <- reparse_opt r;
      Ok (SFunc n a' b' dc' r')
  | _ => Err Unmodelled
  end.

(* ================= the composed model ================= *)

Definition emit_fn (o : fopts) (i : ir) (tds : outcome str) : outcome stmt :=
  do r <- EmitAst.emit_function (fo_pt o) i (Some fname) (Some (fo_kind o)) (fo_inline o) (fo_kwonly o) tds;
  Ok (fst r).

(* parse.function(node) with its own defaults: infer_type=False, word_wrap=True *)
Definition parse_fn (d : option ir) (s : stmt) : outcome ir :=
  parse_function id_perm id_perm d s false true None None.

(* emit.function -> ast.unparse -> ast.parse -> parse.function; tds = what to_docstring returned,
   d = what parse.docstring made of the (cleaned) docstring of the re-parsed function *)
Definition round_trip_fn (o : fopts) (i : ir) (tds : outcome str) (d : option ir) : outcome ir :=
  do s <- emit_fn o i tds;
  do s' <- reparse_stmt s;
  parse_fn d s'.

(* ================= comparison relations ================= *)

Definition prose_of (g : gparam) : option str := C02Spec.prose_of g.

(* strict: types, prose, and the default is absent on both sides or present on both and the same value with the
   same Python type (None ~ the str None ~ NoneStr) *)
Definition same_param_fn (a b : gparam) : bool :=
  C02Spec.same_typ a b && C02Spec.same_prose a b && C02Spec.default_same a b.

Definition same_params_fn (a b : list (str * gparam)) : bool :=
  list_eqb str_eqb (od_keys a) (od_keys b)
  && forallb (fun kv => match od_get (fst kv) b with
                        | Some rp => same_param_fn (snd kv) rp
                        | None => false
                        end) a.

Definition same_returns_fn (a b : fld gparam) : bool :=
  match fget a, fget b with
  | None, None => true
  | Some x, Some y => same_param_fn x y
  | _, _ => false
  end.

(* the kind relation: static / self / cls comes back *)
Definition kind_preserved (kind : str) (r : ir) : bool :=
  match ir_type r with Has t => str_eqb t kind | _ => false end.

(* names and order (the ** parameter included), types, prose, defaults, return entry, kind *)
Definition same_interface_fn (kind : str) (i r : ir) : bool :=
  same_params_fn (ir_params i) (ir_params r)
  && same_returns_fn (ir_returns i) (ir_returns r)
  && kind_preserved kind r.

(* ================= what the docstring layer has to provide ================= *)

Definition kwargs_name (n : str) : bool := endswith (L "kwargs") n.

Definition has_prose (g : gparam) : bool := match prose_of g with Some _ => true | None => false end.

Definition documented (ps : list (str * gparam)) : list (str * gparam) :=
  filter (fun kv => has_prose (snd kv)) ps.

Definition fld_eqb (a b : fld str) : bool :=
  match a, b with
  | Missing, Missing => true
  | FNone, FNone => true
  | Has x, Has y => str_eqb x y
  | _, _ => false
  end.

(* the re-flow parse.function's _set_name_and_type applies to every prose block (word_wrap=True): lines stripped
   and joined with one blank *)
Definition reflow (s : str) : str := rstrip (join [sp] (map strip (split [nl] s))).

(* one entry of the docstring-derived IR against the entry it documents: the prose (up to the line breaks
   to_docstring's word wrapping put in: parse.function re-flows every block), the type when types are written
   into the docstring (the ** parameter always has the conventional one), no default (the ** parameter: the
   conventional None) *)
Definition doc_entry_agrees (emit_types : bool) (n : str) (g dp : gparam) : bool :=
  (match prose_of g, g_doc dp with
   | Some x, Has y => str_eqb x (reflow y)
   | _, _ => false
   end)
  && (if kwargs_name n
      then fld_eqb (g_typ dp) (g_typ g)
           && match g_default dp with Some dv => C02Spec.d_none_like dv | None => false end
      else fld_eqb (g_typ dp) (if emit_types then g_typ g else Missing)
           && match g_default dp with None => true | Some _ => false end).

Definition doc_params_agree (emit_types : bool) (ps dps : list (str * gparam)) : bool :=
  list_eqb str_eqb (od_keys (documented ps)) (od_keys dps)
  && forallb (fun kv => match od_get (fst kv) dps with
                        | Some dp => doc_entry_agrees emit_types (fst kv) (snd kv) dp
                        | None => false
                        end) (documented ps).

Definition doc_returns_agree (emit_types : bool) (r dr : fld gparam) : bool :=
  match fget r with
  | Some g =>
    if has_prose g then
      match dr with
      | Has dp => doc_entry_agrees emit_types (L "return_type") g dp
      | _ => false
      end
    else match dr with Has _ => false | Missing => false | FNone => true end
  | None => match dr with Has _ => false | Missing => false | FNone => true end
  end.

(* doc_agrees: the docstring-derived IR d documents exactly the entries of i that carry prose, in order *)
Definition doc_agrees (o : fopts) (i d : ir) : bool :=
  doc_params_agree (negb (fo_inline o)) (ir_params i) (ir_params d)
  && doc_returns_agree (negb (fo_inline o)) (ir_returns i) (ir_returns d).

(* ================= the domain ================= *)

Definition reserved_name (n : str) : bool :=
  str_eqb n (L "self") || str_eqb n (L "cls") || str_eqb n (L "return_type").

Definition name_in_domain (n : str) : bool := C06Spec.is_identifier n && negb (reserved_name n).

Definition ascii_fld (f : fld str) : bool := match f with Has s => ascii_only s | _ => true end.

Definition entry_in_domain (g : gparam) : bool :=
  (match g_doc g with FNone => false | _ => true end)
  && (match g_typ g with Missing => true | Has (_ :: _) => true | _ => false end)
  && (match g_default g with
      | None => true
      | Some (DV (VStr s)) => ascii_only s
      | Some (DV (VFloat r)) => negb (contains (L "nan") r) && negb (startswith (L "--") r) && negb (str_eqb r (L "-"))
      | Some (DV _) => true
      | Some _ => false
      end)
  && ascii_fld (g_doc g) && ascii_fld (g_typ g).

Definition kind_in_domain (k : str) : bool :=
  str_eqb k (L "static") || str_eqb k (L "self") || str_eqb k (L "cls").

(* a **kwargs-style parameter, if any, is the last one *)
Definition kwargs_last (names : list str) : bool :=
  forallb (fun n => negb (kwargs_name n)) (removelast names).

Definition C03_domain (o : fopts) (i : ir) : bool :=
  kind_in_domain (fo_kind o)
  && Nat.leb (fo_indent o) 2
  && strs_distinct (map fst (ir_params i))
  && forallb name_in_domain (map fst (ir_params i))
  && kwargs_last (map fst (ir_params i))
  && forallb (fun kv => entry_in_domain (snd kv)) (ir_params i)
  && (match ir_returns i with Has g => entry_in_domain g | Missing => false | FNone => true end)
  && (match ir_internal i with None => true | Some _ => false end).

(* ================= finding classes ================= *)

Inductive c03_class : Type :=
| K3_default_sentence_kept       (* emit_default_doc: the sentence written next to the prose is kept by parse.function *)
| K3_prose_not_docstring_safe    (* prose with outer blanks / line breaks / a ReST token / its own default announcement *)
| K3_prose_starts_optional       (* prose starting with Optional: the type is wrapped in Optional[...] *)
| K3_kwargs_undocumented         (* a **kwargs parameter without prose is dropped *)
| K3_kwargs_shape                (* a **kwargs parameter whose type / default is not the conventional Optional[dict] / None *)
| K3_no_default_becomes_none     (* every parameter is emitted with a default node: no default comes back as None *)
| K3_untyped_acquires_type       (* no declared type: the type of the default is invented *)
| K3_type_not_canonical          (* the type is not what ast.unparse prints (or cannot be parsed) *)
| K3_type_lost_without_prose     (* types in the docstring: the :type line exists only next to a :param line *)
| K3_code_default_drops_type     (* back-tick quoted default under a type without brackets: the type is deleted *)
| K3_str_default_requoted        (* a str default that starts and ends with a quote mark loses them *)
| K3_return_vanishes             (* a return entry without prose (and, with docstring types, or without type) is not written *)
| K3_return_default_not_code     (* a return default that is not a str / whose code is a constant or a name: rewritten from the body *)
| K3_return_type_dropped.        (* a return default under a return type without brackets: the type is deleted *)

Definition c03_class_name (k : c03_class) : str :=
  match k with
  | K3_default_sentence_kept => L "default-sentence-kept-in-prose"
  | K3_prose_not_docstring_safe => L "prose-not-docstring-safe"
  | K3_prose_starts_optional => L "prose-starts-with-optional"
  | K3_kwargs_undocumented => L "kwargs-undocumented-dropped"
  | K3_kwargs_shape => L "kwargs-shape"
  | K3_no_default_becomes_none => L "no-default-becomes-none"
  | K3_untyped_acquires_type => L "untyped-parameter-acquires-type"
  | K3_type_not_canonical => L "type-not-canonical"
  | K3_type_lost_without_prose => L "type-lost-without-prose"
  | K3_code_default_drops_type => L "code-default-drops-type"
  | K3_str_default_requoted => L "str-default-requoted"
  | K3_return_vanishes => L "return-entry-not-written"
  | K3_return_default_not_code => L "return-default-not-code"
  | K3_return_type_dropped => L "return-type-dropped-for-default"
  end.

(* ---- syntactic tests ---- *)

(* prose that survives the docstring: what the ReST scanner, the default extraction and the re-flowing of
   _set_name_and_type leave alone *)
Definition prose_safe (doc : str) : bool :=
  negb (C02Spec.prose_unclean doc) && negb (C02Spec.prose_has_token doc) && negb (C02Spec.prose_announces doc).

(* the type text is inside TyExpr's grammar (needs_quoting walks it) and is not numpydoc's "T, optional" *)
Definition typ_parses (t : str) : bool :=
  (match needs_quoting (Some t) with Ok _ => true | Err _ => false end)
  && negb (endswith google_opt t).

(* an expression the unparse / parse step leaves alone and that prints as the text [t] *)
Definition expr_prints_as (e : expr) (t : str) : bool :=
  (match reparse_expr e with Ok e' => expr_eqb e' e | Err _ => false end)
  && expr_ok e
  && str_eqb (rstrip_chars [nl] (show_expr e)) t.

(* a parameter type as an inline annotation: ast_parse_fix inside TyExpr's fragment *)
Definition typ_inline_ok (t : str) : bool :=
  in_simple_types t
  || match EmitAst.ast_parse_fix [] t with
     | Ok e => expr_prints_as e t
     | Err _ => false
     end.

(* the return type as a `-> annotation`: ast.parse inside TyExpr's fragment *)
Definition ret_typ_inline_ok (t : str) : bool :=
  match EmitAst.parse_expr_src [] t with
  | Ok e => expr_prints_as e t
  | Err _ => false
  end.

Definition dv_str (d : dval) : option str := match d with DV (VStr s) => Some s | _ => None end.

(* set_value and _infer_default both strip one pair of outer quote marks *)
Definition str_keeps_quotes (s : str) : bool :=
  str_eqb (EmitAst.set_value_str s) s && str_eqb (unquote s) s.

(* the default _interpolate_return reads off `return <value>` *)
Definition ret_default_of (value : expr) : outcome dval :=
  let src := rstrip_chars [nl] (show_expr value) in
  if (match value with ETuple _ => true | _ => false end)
     && (negb (startswith [ch 40] src) || negb (endswith [ch 41] src))
  then Ok (DV (VStr ([ch 40] ++ src ++ [ch 41])))
  else do g <- get_value_expr value;
       match g with
       | GV v => Ok (DV v)
       | GN (EConst c) => Ok (DE (EConst c))
       | GN _ => Ok (DV (VStr (bt3 ++ src ++ bt3)))
       end.

(* the code of a return default: parsed by the emitter, printed, parsed again, read off by the parser *)
Definition ret_code_ok (pt : EmitAst.ptable) (s : str) : bool :=
  match EmitAst.parse_expr_src pt (strip_chars [bt] s) with
  | Ok e =>
    match reparse_expr e with
    | Ok e' => expr_ok e'
               && match ret_default_of e' with Ok dv => dval_eqb dv (DV (VStr s)) | Err _ => false end
    | Err _ => false
    end
  | Err _ => false
  end.

(* ---- per-entry classes ---- *)

Definition prose_class (g : gparam) : option c03_class :=
  match prose_of g with
  | Some doc =>
    if negb (prose_safe doc) then Some K3_prose_not_docstring_safe
    else if C02Spec.prose_starts_optional doc
            && match g_typ g with Has t => negb (startswith (L "Optional[") t) | _ => false end
    then Some K3_prose_starts_optional
    else None
  | None => None
  end.

Definition kwargs_class (g : gparam) : option c03_class :=
  if negb (has_prose g) then Some K3_kwargs_undocumented
  else match prose_class g with
       | Some k => Some k
       | None =>
         if fld_eqb (g_typ g) (Has (L "Optional[dict]"))
            && match g_default g with Some dv => C02Spec.d_none_like dv | None => false end
         then None else Some K3_kwargs_shape
       end.

Definition param_class (o : fopts) (n : str) (g : gparam) : option c03_class :=
  if kwargs_name n then kwargs_class g
  else
    match prose_class g with
    | Some k => Some k
    | None =>
      match g_default g with
      | None => Some K3_no_default_becomes_none
      | Some dv =>
        if match dv_str dv with
           | Some s => negb (in_none_types (VStr s)) && negb (str_keeps_quotes s)
           | None => false
           end
        then Some K3_str_default_requoted
        else
        match g_typ g with
        | Has t =>
          if negb (typ_parses t) then Some K3_type_not_canonical
          else if fo_inline o && negb (typ_inline_ok t) then Some K3_type_not_canonical
          else if negb (fo_inline o) && negb (has_prose g) then Some K3_type_lost_without_prose
          else if C02Spec.d_code_quoted dv && negb (contains [ch 91] t) then Some K3_code_default_drops_type
          else None
        | _ =>
          if C02Spec.d_none_like dv || C02Spec.d_code_quoted dv then None else Some K3_untyped_acquires_type
        end
      end
    end.

Definition return_typ_class (o : fopts) (g : gparam) : option c03_class :=
  match g_typ g with
  | Has t => if negb (typ_parses t) || (fo_inline o && negb (ret_typ_inline_ok t))
             then Some K3_type_not_canonical else None
  | _ => None
  end.

Definition return_class (o : fopts) (g : gparam) : option c03_class :=
  match prose_class g with
  | Some k => Some k
  | None =>
    match return_typ_class o g with
    | Some k => Some k
    | None =>
      match g_default g with
      | None =>
        if has_prose g then None
        else if fo_inline o && match g_typ g with Has _ => true | _ => false end then None
        else Some K3_return_vanishes
      | Some dv =>
        match dv_str dv with
        | Some (c :: s) =>
          if negb (ret_code_ok (fo_pt o) (c :: s)) || negb (str_keeps_quotes (c :: s))
          then Some K3_return_default_not_code
          else match g_typ g with
               | Has t => if negb (contains [ch 91] t) then Some K3_return_type_dropped
                          else if negb (fo_inline o) && negb (has_prose g) then Some K3_type_lost_without_prose
                          else None
               | _ => if C02Spec.d_none_like dv || C02Spec.d_code_quoted dv then None
                      else Some K3_untyped_acquires_type
               end
        | _ => Some K3_return_default_not_code
        end
      end
    end
  end.

Fixpoint first_class (f : str -> gparam -> option c03_class) (ps : list (str * gparam)) : option c03_class :=
  match ps with
  | [] => None
  | (n, g) :: r => match f n g with Some k => Some k | None => first_class f r end
  end.

(* with emit_default_doc, to_docstring appends "Defaults to ..." to the prose of an entry that has a default
   (Defaults.set_default_doc: not when the prose already mentions defaults, not for the None of a ** parameter) *)
Definition sentence_written (n : str) (g : gparam) : bool :=
  match prose_of g, param_of_gparam g with
  | Some _, Some p =>
    match set_default_doc n p true with
    | Ok p' => negb (fld_eqb (p_doc p') (g_doc g))
    | Err _ => true
    end
  | _, _ => false
  end.

Definition finding_class_C03 (o : fopts) (i : ir) : option c03_class :=
  if fo_edd o
     && (existsb (fun kv => sentence_written (fst kv) (snd kv)) (ir_params i)
         || match ir_returns i with Has g => sentence_written (L "return_type") g | _ => false end)
  then Some K3_default_sentence_kept
  else if match ir_doc i with Has d => C02Spec.prose_has_token d | _ => false end
  then Some K3_prose_not_docstring_safe           (* a ReST token in the summary: the scanner reads an entry there *)
  else
    match first_class (param_class o) (ir_params i) with
    | Some k => Some k
    | None => match ir_returns i with Has g => return_class o g | _ => None end
    end.

Definition guard_C03 (o : fopts) (i : ir) : bool :=
  C03_domain o i && match finding_class_C03 o i with None => true | Some _ => false end.

(* ================= the property ================= *)

(* at one point: the composed model succeeds (nothing raises) and hands back the same interface and kind *)
Definition C03_at (o : fopts) (i : ir) (text : str) (d : ir) : Prop :=
  exists r, round_trip_fn o i (Ok text) (Some d) = Ok r /\ same_interface_fn (fo_kind o) i r = true.

Definition C03_at_b (o : fopts) (i : ir) (text : str) (d : ir) : bool :=
  match round_trip_fn o i (Ok text) (Some d) with
  | Ok r => same_interface_fn (fo_kind o) i r
  | Err _ => false
  end.

(* full strength: every description of the domain, every option combination, every docstring text, every
   docstring-derived IR that documents the described entries *)
Definition C03_statement : Prop :=
  forall o i text d, C03_domain o i = true -> doc_agrees o i d = true -> C03_at o i text d.

(* ================= wire ================= *)

Definition ob3 {A B} (x : option A) (f : A -> option B) : option B :=
  match x with Some a => f a | None => None end.

Definition dec_fopts (k it kw il est edd ww pt : sexp) : option fopts :=
  ob3 (dec_str k) (fun k => ob3 (dec_bool it) (fun it => ob3 (dec_bool kw) (fun kw =>
  ob3 (dec_nat il) (fun il => ob3 (dec_bool est) (fun est => ob3 (dec_bool edd) (fun edd =>
  ob3 (dec_bool ww) (fun ww => ob3 (EmitAst.dec_ptable pt) (fun pt =>
  Some (mkFO k it kw il est edd ww pt))))))))).

(* FAMILY: run_c03 *)
Definition run_c03 (fn : sexp) (args : list sexp) : option sexp :=
  if is_sym "c03_class" fn then
    match args with
    | [k; it; kw; il; est; edd; ww; pt; i] =>
      ob3 (dec_fopts k it kw il est edd ww pt) (fun o => ob3 (dec_ir i) (fun i =>
      Some (if negb (C03_domain o i) then sym "out-of-domain"
            else enc_option (fun c => enc_str (c03_class_name c)) (finding_class_C03 o i))))
    | _ => None
    end
  else if is_sym "c03_same_interface" fn then
    match args with
    | [k; i; r] =>
      ob3 (dec_str k) (fun k => ob3 (dec_ir i) (fun i => ob3 (dec_ir r) (fun r =>
      Some (SList [enc_bool (same_params_fn (ir_params i) (ir_params r));
                   enc_bool (same_returns_fn (ir_returns i) (ir_returns r));
                   enc_bool (kind_preserved k r)]))))
    | _ => None
    end
  else if is_sym "c03_doc_agrees" fn then
    match args with
    | [k; it; kw; il; est; edd; ww; pt; i; d] =>
      ob3 (dec_fopts k it kw il est edd ww pt) (fun o => ob3 (dec_ir i) (fun i => ob3 (dec_ir d) (fun d =>
      Some (enc_bool (doc_agrees o i d)))))
    | _ => None
    end
  else if is_sym "c03_reparse" fn then
    match args with
    | [s] => ob3 (dec_stmt s) (fun s => Some (enc_outcome enc_stmt (reparse_stmt s)))
    | _ => None
    end
  else if is_sym "c03_round_trip" fn then
    match args with
    | [k; it; kw; il; est; edd; ww; pt; i; tds; d] =>
      ob3 (dec_fopts k it kw il est edd ww pt) (fun o => ob3 (dec_ir i) (fun i =>
      ob3 (EmitAst.dec_tds tds) (fun tds => ob3 (dec_option dec_ir d) (fun d =>
      Some (enc_outcome enc_ir (round_trip_fn o i tds d))))))
    | _ => None
    end
  else None.
