(* C18ParseSpec: parse-level transparency of word wrapping for the ReST docstring style.
   Definitions only (executable).

   emit.docstring(ir, "rest", word_wrap=True) passes the summary and every  :param / :type / :returns: / :rtype:
   line through textwrap.fill and indents the continuation lines; parse.docstring scans the text into blocks
   (one per ReST token), takes the value of a block after its second colon, strips it, and - for parameters
   only - re-joins the lines of the prose (_set_name_and_type); the prose of the return entry and the summary
   are only stripped, so they keep the line breaks (and the indent) of the wrapped text.

   Two guards:
     [guard_C18_rest_pieces w i]  piece by piece: every wrapped piece (summary, each prose line, each type line)
        reads back as its unwrapped piece.  It is evaluated on the strings the emitter really produces.
     [guard_C18_rest_parse w i]   closed form on the IR: prose in which words are separated by single blanks,
        headers and type lines that fit the width, no default sentence.
   What is compared: [same_interface_ws] = C01Spec.same_interface with prose compared modulo runs of
   whitespace (as lists of words). *)
From Coq Require Import List Ascii Bool Arith ZArith.
From Coq Require String.
Import String.StringSyntax.
From DT Require Import PyStr Sexp PyVal TyExpr Extracted PureUtils Defaults PyAst IR Fill C17Spec.
From DT Require Import DocEmit C18Spec DocParse C01Spec.
Import ListNotations.

(* ------------------------------------------------------------------ prose modulo whitespace runs *)

Fixpoint strs_eqb (a b : list str) : bool :=
  match a, b with
  | [], [] => true
  | x :: a', y :: b' => str_eqb x y && strs_eqb a' b'
  | _, _ => false
  end.

(* the same words in the same order *)
Definition ws_eqb (a b : str) : bool := strs_eqb (words a) (words b).

Definition same_prose_ws (g g' : gparam) : bool := opt_eqb ws_eqb (fld_str (g_doc g)) (fld_str (g_doc g')).

Definition same_prose_dflt_ws (name : str) (g g' : gparam) : bool :=
  same_prose_ws g g'
  || match sentence_doc name g, fld_str (g_doc g') with
     | Some x, Some y => ws_eqb x y
     | _, _ => false
     end.

Definition same_entry_ws (keep_sentence : bool) (name : str) (g g' : gparam) : bool :=
  same_typ g g'
  && (if keep_sentence then same_prose_dflt_ws name g g' else same_prose_ws g g')
  && same_default_ir (g_default g) (g_default g').

Fixpoint same_params_ws (keep_sentence : bool) (a b : list (str * gparam)) : bool :=
  match a, b with
  | [], [] => true
  | (n, g) :: a', (n', g') :: b' =>
    str_eqb n n' && same_entry_ws keep_sentence n g g' && same_params_ws keep_sentence a' b'
  | _, _ => false
  end.

Definition same_returns_ws (keep_sentence : bool) (r r' : fld gparam) : bool :=
  opt_eqb (same_entry_ws keep_sentence (L "return_type")) (fld_opt r) (fld_opt r').

Definition same_summary_ws (i i' : ir) : bool := opt_eqb ws_eqb (fld_opt (ir_doc i)) (fld_opt (ir_doc i')).

(* names and order, types, defaults with Python type, return entry as in C01Spec.same_interface;
   summary and prose modulo line breaks and runs of whitespace *)
Definition same_interface_ws (keep_sentence : bool) (i i' : ir) : bool :=
  same_summary_ws i i'
  && same_params_ws keep_sentence (ir_params i) (ir_params i')
  && same_returns_ws keep_sentence (ir_returns i) (ir_returns i').

(* ------------------------------------------------------------------ one wrapped piece *)

(* a raw line as emit_param_str lays it out with word_wrap on *)
Definition wrapped_line (w : nat) (line : str) : outcome str :=
  do r <- fill w line; Ok (indent_all_but_first r 1 false).

(* the text after the header [hdr] of a laid-out line, split into its leading blanks and the rest *)
Definition value_after (hdr t : str) : option (str * str) :=
  if startswith hdr t then
    let rest := skipn (List.length hdr) t in
    Some (takewhile isspace rest, dropwhile isspace rest)
  else None.

(* first and last character are not blank (so str.strip leaves the text alone) *)
Definition edge_okb (x : str) : bool :=
  match x with c :: _ => negb (isspace c) | [] => false end
  && match last_c x with Some c => negb (isspace c) | None => false end.

(* what _set_name_and_type makes of a prose (word_wrap=True is what parse.docstring passes) *)
Definition norm_doc (d : str) : str := rstrip (rejoin d).

(* the unwrapped prose of an entry is one clean line that announces no default *)
Definition prose_line_ok (D : str) : bool := edge_okb D && negb (mem_c nl D) && no_announce D.

(* a wrapped  :param name: D  line reads back as D *)
Definition doc_piece_ok (w : nat) (name D : str) : bool :=
  prose_line_ok D
  && match wrapped_line w (rest_doc_line name D) with
     | Ok t =>
       match value_after (L ":param " ++ name ++ L ":") t with
       | Some (pad, val) =>
         nonempty pad && edge_okb val && no_rest_token val && no_announce val
         && str_eqb (norm_doc val) (norm_doc D)
       | None => false
       end
     | Err _ => false
     end.

(* a wrapped  :returns: D  line: the value is only stripped by the reader; the same words come back *)
Definition ret_piece_ok (w : nat) (D : str) : bool :=
  prose_line_ok D
  && match wrapped_line w (rest_doc_line (L "return_type") D) with
     | Ok t =>
       match value_after (L ":returns:") t with
       | Some (pad, val) =>
         nonempty pad && edge_okb val && no_rest_token val && no_announce val && ws_eqb val D
       | None => false
       end
     | Err _ => false
     end.

(* a  :type name: / :rtype:  line is not touched by the wrapper, and its type is in the domain of C01 *)
Definition typ_piece_ok (w : nat) (name t : str) : bool :=
  nowrap_line w (rest_typ_line name t) && type_in_domain t.

Definition entry_pieces_ok (w : nat) (np : str * param) : bool :=
  let name := fst np in
  match rest_block_of true name (snd np) with
  | Ok (b, _) =>
    (match rb_doc b, rb_typ b with None, None => false | _, _ => true end)
    && (match rb_doc b with
        | Some D => no_rest_token D && (if is_return name then ret_piece_ok w D else doc_piece_ok w name D)
        | None => true
        end)
    && (match rb_typ b with Some t => typ_piece_ok w name t | None => true end)
  | Err _ => false
  end.

Definition summary_piece_ok (w : nat) (d : str) : bool :=
  no_rest_token d && str_eqb (strip d) d
  && match fill w d with
     | Ok r => edge_okb r && no_rest_token r && ws_eqb r d
     | Err _ => false
     end.

Definition param_name_ok (np : str * param) : bool :=
  is_ident (fst np) && negb (is_return (fst np)).

(* piece by piece *)
Definition guard_C18_rest_pieces (w : nat) (i : ir) : bool :=
  match ir_doc i, params_of (ir_params i) with
  | Has d, Some ps =>
    summary_piece_ok w d
    && forallb param_name_ok ps
    && forallb (entry_pieces_ok w) ps
    && match ir_returns i with
       | Has g => match param_of_gparam g with
                  | Some p => entry_pieces_ok w (L "return_type", p)
                  | None => false
                  end
       | _ => match ps with [] => false | _ => true end
       end
  | _, _ => false
  end.

(* ------------------------------------------------------------------ the closed form *)

(* words separated by single plain blanks: every blank is a plain space, followed by a non-blank; the text
   starts with a non-blank *)
Fixpoint single_spaced (s : str) : bool :=
  match s with
  | [] => true
  | c :: r =>
    (if isspace c then ascii_eqb c sp && match r with d :: _ => negb (isspace d) | [] => false end else true)
    && single_spaced r
  end.

Definition tidy (s : str) : bool :=
  match s with c :: _ => negb (isspace c) | [] => false end && single_spaced s.

(* the guard of the parse-level theorem: inside the ReST guard of C01, piece by piece transparent *)
Definition guard_C18_rest_parse (w : nat) (edd : bool) (i : ir) : bool :=
  Nat.ltb 0 w && guard_C01_rest edd i && guard_C18_rest_pieces w i.

(* tidy prose, every header and type line fits, no default is written into prose *)
Definition entry_tidy_ok (w : nat) (np : str * param) : bool :=
  let name := fst np in
  match rest_block_of true name (snd np) with
  | Ok (b, _) =>
    (match rb_doc b, rb_typ b with None, None => false | _, _ => true end)
    && (match rb_doc b with
        | Some D => tidy D && no_rest_token D && no_announce D
                    && Nat.leb (List.length (L ":" ++ rest_key name ++ L ":")) w
        | None => true
        end)
    && (match rb_typ b with Some t => typ_piece_ok w name t | None => true end)
  | Err _ => false
  end.

Definition guard_C18_rest_tidy (w : nat) (i : ir) : bool :=
  Nat.ltb 0 w
  && match ir_doc i, params_of (ir_params i) with
     | Has d, Some ps =>
       tidy d && no_rest_token d
       && forallb param_name_ok ps
       && forallb (entry_tidy_ok w) ps
       && match ir_returns i with
          | Has g => match param_of_gparam g with
                     | Some p => entry_tidy_ok w (L "return_type", p)
                     | None => false
                     end
          | _ => match ps with [] => false | _ => true end
          end
     | _, _ => false
     end.

(* ------------------------------------------------------------------ the property at one point, as a boolean *)

Definition C18_rest_parse_at_b (w : nat) (edd : bool) (i : ir) : bool :=
  match emit_docstring w DocEmit.Rest true true i, emit_docstring w DocEmit.Rest false true i with
  | Ok (tw, _), Ok (tu, _) =>
    match parse_dot_docstring ng_unmodelled tw false true edd,
          parse_dot_docstring ng_unmodelled tu false true edd with
    | Ok dw, Ok du => same_interface_ws false du dw && same_interface_ws edd i dw
    | _, _ => false
    end
  | _, _ => false
  end.

(* ------------------------------------------------------------------ prose that ends with a whole default sentence *)

Definition dflt_A : str := announce_text ADefaultsTo.

(* D = d ++ " Defaults to " ++ s : the prose d and the value text s, found as extract_default finds them *)
Definition sentence_split (D : str) : option (str * str) :=
  match location_within casefold D default_announces with
  | Some (i, j, _) => Some (firstn (i - 1) D, skipn j D)
  | None => None
  end.

(* the character set_default_doc leaves at the end of the prose *)
Definition term_char (l : ascii) : bool := ascii_eqb l (ch 46) || ascii_eqb l (ch 44).
Definition ends_term (d : str) : bool := match last_c d with Some l => term_char l | None => false end.

(* the value text is found right after the announcement and read back whole *)
Definition value_text_ok (s : str) : bool :=
  value_announce_ok ADefaultsTo s
  && str_eqb (scan_default s 0) s && str_eqb (strip_chars strip_set s) s
  && negb (negb (startswith [ch 40] s) && endswith (L ").") s).

(* a wrapped  :param name: d Defaults to s  line in which the wrapper left  " Defaults to s"  whole at the end *)
Definition doc_piece_dflt_ok (w : nat) (name D : str) : bool :=
  match sentence_split D with
  | Some (d, s) =>
    let tail := [sp] ++ dflt_A ++ s in
    str_eqb D (d ++ tail) && prose_line_ok d && ends_term d && value_text_ok s
    && edge_okb D && negb (mem_c nl D)
    && match wrapped_line w (rest_doc_line name D) with
       | Ok t =>
         match value_after (L ":param " ++ name ++ L ":") t with
         | Some (pad, val) =>
           let wd := firstn (List.length val - List.length tail) val in
           nonempty pad && str_eqb val (wd ++ tail) && edge_okb val && no_rest_token val
           && nonempty wd && no_announce wd && ends_term wd
           && str_eqb (norm_doc wd) (norm_doc d) && str_eqb (norm_doc val) (norm_doc D)
         | None => false
         end
       | Err _ => false
       end
  | None => false
  end.

Definition entry_pieces_ok_d (w : nat) (np : str * param) : bool :=
  let name := fst np in
  match rest_block_of true name (snd np) with
  | Ok (b, _) =>
    (match rb_doc b, rb_typ b with None, None => false | _, _ => true end)
    && (match rb_doc b with
        | Some D => no_rest_token D
                    && (if is_return name then ret_piece_ok w D
                        else doc_piece_ok w name D || doc_piece_dflt_ok w name D)
        | None => true
        end)
    && (match rb_typ b with Some t => typ_piece_ok w name t | None => true end)
  | Err _ => false
  end.

(* piece by piece, default sentences allowed when the wrapper leaves them whole *)
Definition guard_C18_rest_pieces_d (w : nat) (i : ir) : bool :=
  match ir_doc i, params_of (ir_params i) with
  | Has d, Some ps =>
    summary_piece_ok w d
    && forallb param_name_ok ps
    && forallb (entry_pieces_ok_d w) ps
    && match ir_returns i with
       | Has g => match param_of_gparam g with
                  | Some p => entry_pieces_ok_d w (L "return_type", p)
                  | None => false
                  end
       | _ => match ps with [] => false | _ => true end
       end
  | _, _ => false
  end.

Definition guard_C18_rest_parse_d (w : nat) (edd : bool) (i : ir) : bool :=
  Nat.ltb 0 w && guard_C01_rest edd i && guard_C18_rest_pieces_d w i.
