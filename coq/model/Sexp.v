(* Sexp: the wire format between the harness and the model, implemented in Gallina so that
   the OCaml driver contains no logic (it only moves characters).
   Atoms are bare symbols over [A-Za-z0-9_.+-] ; strings travel hex-encoded as  h<hex> . *)
From Coq Require Import List Ascii Bool Arith ZArith.
From Coq Require String.
Import String.StringSyntax.
From DT Require Import PyStr.
Import ListNotations.

Inductive sexp : Type :=
| Atom (s : str)
| SList (l : list sexp).

Definition lparen := ch 40.
Definition rparen := ch 41.

Fixpoint print_sexp (e : sexp) : str :=
  match e with
  | Atom s => s
  | SList l =>
    lparen :: (fix go (l : list sexp) : str :=
                 match l with
                 | [] => [rparen]
                 | [x] => print_sexp x ++ [rparen]
                 | x :: r => print_sexp x ++ sp :: go r
                 end) l
  end.

(* parser: stack of partially built lists *)
Fixpoint parse_aux (s : str) (cur : str) (stack : list (list sexp)) (top : list sexp)
  : option (list sexp) :=
  let flush (top : list sexp) := match cur with [] => top | _ => Atom (rev cur) :: top end in
  match s with
  | [] => match stack with
          | [] => Some (rev (flush top))
          | _ => None
          end
  | c :: r =>
    if ascii_eqb c lparen then parse_aux r [] (flush top :: stack) []
    else if ascii_eqb c rparen then
      match stack with
      | [] => None
      | up :: stack' => parse_aux r [] stack' (SList (rev (flush top)) :: up)
      end
    else if isspace c then parse_aux r [] stack (flush top)
    else parse_aux r (c :: cur) stack top
  end.

Definition parse_sexp (s : str) : option sexp :=
  match parse_aux s [] [] [] with
  | Some [e] => Some e
  | _ => None
  end.

(* hex *)
Definition hexdigit (n : nat) : ascii := if Nat.ltb n 10 then ch (48 + n) else ch (87 + n).
Definition unhex (c : ascii) : nat :=
  let n := code c in if Nat.leb 97 n then n - 87 else n - 48.

Fixpoint hex_of (s : str) : str :=
  match s with
  | [] => []
  | c :: r => hexdigit (code c / 16) :: hexdigit (code c mod 16) :: hex_of r
  end.

Fixpoint of_hex (s : str) : str :=
  match s with
  | a :: b :: r => ch (unhex a * 16 + unhex b) :: of_hex r
  | _ => []
  end.

Definition hch := ch 104.

Definition enc_str (s : str) : sexp := Atom (hch :: hex_of s).
Definition dec_str (e : sexp) : option str :=
  match e with
  | Atom (c :: r) => if ascii_eqb c hch then Some (of_hex r) else None
  | _ => None
  end.

Definition sym (s : String.string) : sexp := Atom (L s).
Arguments sym s%string_scope.
Definition is_sym (s : String.string) (e : sexp) : bool :=
  match e with Atom a => str_eqb a (L s) | _ => false end.
Arguments is_sym s%string_scope e.

Definition enc_Z (z : Z) : sexp := Atom (dec_of_Z z).
Definition dec_Z (e : sexp) : option Z :=
  match e with
  | Atom (c :: r) =>
    if ascii_eqb c (ch 45) then
      (if isdecimal r then Some (- Z.of_N (N_of_dec r))%Z else None)
    else if isdecimal (c :: r) then Some (Z.of_N (N_of_dec (c :: r))) else None
  | _ => None
  end.
Definition enc_nat (n : nat) : sexp := enc_Z (Z.of_nat n).
Definition dec_nat (e : sexp) : option nat :=
  match dec_Z e with Some z => if (z <? 0)%Z then None else Some (Z.to_nat z) | None => None end.

Definition enc_bool (b : bool) : sexp := if b then sym "true" else sym "false".
Definition dec_bool (e : sexp) : option bool :=
  if is_sym "true" e then Some true else if is_sym "false" e then Some false else None.

Definition enc_option {A} (f : A -> sexp) (o : option A) : sexp :=
  match o with None => sym "none" | Some a => SList [sym "some"; f a] end.
Definition dec_option {A} (f : sexp -> option A) (e : sexp) : option (option A) :=
  if is_sym "none" e then Some None
  else match e with
       | SList [t; x] => if is_sym "some" t then
                           match f x with Some a => Some (Some a) | None => None end
                         else None
       | _ => None
       end.

Definition enc_list {A} (f : A -> sexp) (l : list A) : sexp := SList (map f l).
Fixpoint dec_all {A} (f : sexp -> option A) (l : list sexp) : option (list A) :=
  match l with
  | [] => Some []
  | x :: r => match f x, dec_all f r with
              | Some a, Some b => Some (a :: b)
              | _, _ => None
              end
  end.
Definition dec_list {A} (f : sexp -> option A) (e : sexp) : option (list A) :=
  match e with SList l => dec_all f l | _ => None end.

Definition enc_pair {A B} (f : A -> sexp) (g : B -> sexp) (p : A * B) : sexp :=
  SList [f (fst p); g (snd p)].
Definition dec_pair {A B} (f : sexp -> option A) (g : sexp -> option B) (e : sexp) : option (A * B) :=
  match e with
  | SList [x; y] => match f x, g y with Some a, Some b => Some (a, b) | _, _ => None end
  | _ => None
  end.

Definition bad_request : sexp := sym "bad-request".
