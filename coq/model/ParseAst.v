(* ParseAst: the AST-reading parsers of doctrans, transcribed as the code is now.
     parse.py:class_  (the AST path: Module / ClassDef input; merge_inner_function = None only -- the
                       merged result is out of scope here, parse.function belongs to ParseSig/Merge)
     parse.py:argparse_ast
     emitter_utils.py:parse_out_param, _handle_value, _handle_keyword, _parse_return
     ast_utils.py:find_ast_type, get_value, is_argparse_add_argument, is_argparse_description,
                  parse_to_scalar, get_function_type
     docstring_parsers.py:_set_name_and_type, _infer_default   (scalar AND AST-node defaults)
   plus the CPython functions they run on expression nodes: ast.unparse (show_expr) and
   ast.literal_eval (lit_eval).
   Decoupling: wherever the code calls the docstring parser (parse.docstring in class_,
   parse_docstring in argparse_ast) the model takes the value that call returned as an input.
   Definitions only. *)
From Coq Require Import List Ascii Bool Arith ZArith.
From Coq Require String.
Import String.StringSyntax.
From DT Require Import PyStr Sexp PyVal TyExpr PureUtils Defaults PyAst IR.
Import ListNotations.

(* ================= CPython: repr(str), ast.unparse on the expression fragment ================= *)

Definition pa_hex2 (n : nat) : str := [hexdigit (n / 16); hexdigit (n mod 16)].

Definition pa_repr_char (q c : ascii) : str :=
  let n := code c in
  if ascii_eqb c (ch 92) then [ch 92; ch 92]
  else if ascii_eqb c q then [ch 92; q]
  else if Nat.eqb n 9 then [ch 92; ch 116]
  else if Nat.eqb n 10 then [ch 92; ch 110]
  else if Nat.eqb n 13 then [ch 92; ch 114]
  else if Nat.ltb n 32 || Nat.leb 127 n then [ch 92; ch 120] ++ pa_hex2 n
  else [c].

(* repr(s), s ASCII: single quotes unless s has a single quote and no double quote *)
Definition pa_repr_str (s : str) : str :=
  let q := if mem_c sq s && negb (mem_c dq s) then dq else sq in
  q :: flat_map (pa_repr_char q) s ++ [q].

(* repr(v) *)
Definition pa_repr (v : pyval) : str :=
  match v with
  | VStr s => pa_repr_str s
  | _ => py_str v
  end.

(* _Unparser._write_constant: inf and nan are spelled so that they re-parse *)
Definition pa_show_const (v : pyval) : str :=
  match v with
  | VFloat r => replace (L "nan") (L "(1e309-1e309)") (replace (L "inf") (L "1e309") r)
  | _ => pa_repr v
  end.

(* _Unparser.items_view: a one-element tuple keeps its comma *)
Definition pa_items_view (l : list str) : str :=
  match l with
  | [x] => x ++ [ch 44]
  | _ => join (L ", ") l
  end.

Fixpoint pa_map2 {A B C} (f : A -> B -> C) (a : list A) (b : list B) : list C :=
  match a, b with
  | x :: a', y :: b' => f x y :: pa_map2 f a' b'
  | _, _ => []
  end.

(* the levels of ast._Precedence that the fragment can set: TEST < NOT < FACTOR < ATOM *)
Definition PR_TEST := 0.
Definition PR_NOT := 1.
Definition PR_FACTOR := 2.
Definition PR_ATOM := 3.

Definition pa_unop_sym (op : str) : str :=
  if str_eqb op (L "Invert") then [ch 126]
  else if str_eqb op (L "Not") then L "not"
  else if str_eqb op (L "UAdd") then [ch 43]
  else [ch 45].

Definition pa_unop_prec (op : str) : nat := if str_eqb op (L "Not") then PR_NOT else PR_FACTOR.

Definition pa_is_int_const (e : expr) : bool :=
  match e with EConst (VInt _) => true | EConst (VBool _) => true | _ => false end.

Fixpoint show_prec (p : nat) (e : expr) : str :=
  match e with
  | EConst v => pa_show_const v
  | EName id => id
  | EAttr e' a => show_prec PR_ATOM e' ++ (if pa_is_int_const e' then [sp] else []) ++ [ch 46] ++ a
  | ESub e' s =>
    show_prec PR_ATOM e' ++ [ch 91]
    ++ (match s with
        | ETuple (x :: r) => pa_items_view (map (show_prec PR_TEST) (x :: r))
        | _ => show_prec PR_TEST s
        end) ++ [ch 93]
  | ETuple es => [ch 40] ++ pa_items_view (map (show_prec PR_TEST) es) ++ [ch 41]
  | EList es => [ch 91] ++ join (L ", ") (map (show_prec PR_TEST) es) ++ [ch 93]
  | EDict ks vs =>
    [ch 123] ++ join (L ", ") (pa_map2 (fun k v => k ++ L ": " ++ v)
                                        (map (show_prec PR_TEST) ks) (map (show_prec PR_TEST) vs))
    ++ [ch 125]
  | ECall f args kws =>
    show_prec PR_ATOM f ++ [ch 40]
    ++ join (L ", ") (map (show_prec PR_TEST) args
                      ++ map (fun kw => match kw with
                                        | (Some k, v) => k ++ [ch 61] ++ show_prec PR_TEST v
                                        | (None, v) => L "**" ++ show_prec PR_TEST v
                                        end) kws)
    ++ [ch 41]
  | EUnary op e' =>
    let body := pa_unop_sym op ++ (if Nat.eqb (pa_unop_prec op) PR_FACTOR then [] else [sp])
                ++ show_prec (pa_unop_prec op) e' in
    if Nat.ltb (pa_unop_prec op) p then [ch 40] ++ body ++ [ch 41] else body
  | EOpaque src => src
  end.

(* ast.unparse(e) = to_code(e) = _to_code(e) on this interpreter *)
Definition show_expr (e : expr) : str := show_prec PR_TEST e.

Definition pa_ascii_only (s : str) : bool := forallb (fun c => Nat.ltb (code c) 128) s.
Definition pa_is_opaque (e : expr) : bool := match e with EOpaque _ => true | _ => false end.
Definition pa_known_unop (op : str) : bool :=
  str_eqb op (L "Invert") || str_eqb op (L "Not") || str_eqb op (L "UAdd") || str_eqb op (L "USub").

(* the fragment on which show_expr is claimed to equal ast.unparse: ASCII string constants; no opaque
   node where a precedence other than TEST is imposed on it (its own need for parentheses is unknown);
   not the sole parenthesised opaque argument of a call (a generator expression loses its parentheses
   there); dict displays with as many keys as values *)
Fixpoint expr_ok (e : expr) : bool :=
  match e with
  | EConst (VStr s) => pa_ascii_only s
  | EConst _ => true
  | EName _ => true
  | EAttr e' _ => negb (pa_is_opaque e') && expr_ok e'
  | ESub e' s => negb (pa_is_opaque e') && expr_ok e' && expr_ok s
  | ETuple es => forallb expr_ok es
  | EList es => forallb expr_ok es
  | EDict ks vs => forallb expr_ok ks && forallb expr_ok vs && Nat.eqb (List.length ks) (List.length vs)
  | ECall f args kws =>
    negb (pa_is_opaque f) && expr_ok f && forallb expr_ok args
    && forallb (fun kw => expr_ok (snd kw)) kws
    && (match args, kws with
        | [EOpaque src], [] => negb (startswith [ch 40] src)
        | _, _ => true
        end)
  | EUnary op e' => pa_known_unop op && negb (pa_is_opaque e') && expr_ok e'
  | EOpaque _ => true
  end.

(* to_code(e).rstrip("\n") with the fragment check made explicit *)
Definition code_of (e : expr) : outcome str :=
  if expr_ok e then Ok (rstrip_chars [nl] (show_expr e)) else Err Unmodelled.

(* An opaque expression travels as its source text.  Of the node classes that end up opaque, those with a
   .value attribute (which get_value follows) or that literal_eval / isinstance(_, Constant) treat specially
   are recognisable from the text ast.unparse gives them at top level: Starred "*x", Await "await x",
   Yield "(yield ...)", NamedExpr "(x := ...)", a Subscript with a slice "...]", bytes b'..', complex "..j",
   Ellipsis "...".  The test is an over-approximation (it also catches, say, a list comprehension). *)
Definition opaque_may_have_value (src : str) : bool :=
  startswith [ch 42] src || startswith (L "await ") src || startswith (L "(yield") src
  || contains (L ":=") src || endswith [ch 93] src
  || startswith [ch 98; sq] src || startswith [ch 98; dq] src
  || endswith [ch 106] src || endswith [ch 106; ch 41] src
  || str_eqb src (L "...").

(* ================= CPython: ast.literal_eval on a node ================= *)

Inductive lval : Type :=
| LV (v : pyval)
| LTuple (l : list lval)
| LList (l : list lval)
| LDict (ks : list lval) (vs : list lval)
| LSet0.

Fixpoint lrepr (v : lval) : str :=
  match v with
  | LV x => pa_repr x
  | LTuple l => [ch 40] ++ pa_items_view (map lrepr l) ++ [ch 41]
  | LList l => [ch 91] ++ join (L ", ") (map lrepr l) ++ [ch 93]
  | LDict ks vs =>
    [ch 123] ++ join (L ", ") (pa_map2 (fun k v => k ++ L ": " ++ v) (map lrepr ks) (map lrepr vs)) ++ [ch 125]
  | LSet0 => L "set()"
  end.

Definition lval_type_name (v : lval) : str :=
  match v with
  | LV x => type_name x
  | LTuple _ => L "tuple"
  | LList _ => L "list"
  | LDict _ _ => L "dict"
  | LSet0 => L "set"
  end.

Fixpoint lval_hashable (v : lval) : bool :=
  match v with
  | LV _ => true
  | LTuple l => forallb lval_hashable l
  | _ => false
  end.

Definition pa_neg_float (r : str) : str :=
  match r with
  | c :: r' => if ascii_eqb c (ch 45) then r' else ch 45 :: r
  | [] => r
  end.

Fixpoint pa_mapM {A B} (f : A -> outcome B) (l : list A) : outcome (list B) :=
  match l with
  | [] => Ok []
  | x :: r => do y <- f x; do ys <- pa_mapM f r; Ok (y :: ys)
  end.

Fixpoint pa_sequence {A} (l : list (outcome A)) : outcome (list A) :=
  match l with
  | [] => Ok []
  | x :: r => do y <- x; do ys <- pa_sequence r; Ok (y :: ys)
  end.

Fixpoint pa_distinct (l : list str) : bool :=
  match l with
  | [] => true
  | x :: r => negb (existsb (str_eqb x) r) && pa_distinct r
  end.

(* dict displays whose key equality the model decides: at most one key, or all keys str and pairwise
   different, or all keys int and pairwise different (1 == 1.0 == True is left out) *)
Definition dict_keys_decidable (ks : list lval) : bool :=
  match ks with
  | [] => true
  | [_] => true
  | _ =>
    (forallb (fun k => match k with LV (VStr _) => true | _ => false end) ks
     && pa_distinct (map (fun k => match k with LV (VStr s) => s | _ => [] end) ks))
    || (forallb (fun k => match k with LV (VInt _) => true | _ => false end) ks
        && pa_distinct (map (fun k => match k with LV (VInt z) => dec_of_Z z | _ => [] end) ks))
  end.

(* dict(zip(map(_convert, keys), map(_convert, values))): key, value, then the key is hashed *)
Fixpoint dict_pairs (ks vs : list (outcome lval)) : outcome (list lval * list lval) :=
  match ks, vs with
  | k :: ks', v :: vs' =>
    do k' <- k; do v' <- v;
    if negb (lval_hashable k') then Err TypeError
    else do r <- dict_pairs ks' vs'; Ok (k' :: fst r, v' :: snd r)
  | _, _ => Ok ([], [])
  end.

Fixpoint lit_eval (e : expr) : outcome lval :=
  match e with
  | EConst v => Ok (LV v)
  | ETuple es => do l <- pa_sequence (map lit_eval es); Ok (LTuple l)
  | EList es => do l <- pa_sequence (map lit_eval es); Ok (LList l)
  | EDict ks vs =>
    if negb (Nat.eqb (List.length ks) (List.length vs)) then Err ValueError
    else do r <- dict_pairs (map lit_eval ks) (map lit_eval vs);
         if dict_keys_decidable (fst r) then Ok (LDict (fst r) (snd r)) else Err Unmodelled
  | ECall (EName f) [] [] => if str_eqb f (L "set") then Ok LSet0 else Err ValueError
  | EUnary op (EConst (VInt z)) =>
    if str_eqb op (L "USub") then Ok (LV (VInt (- z)))
    else if str_eqb op (L "UAdd") then Ok (LV (VInt z)) else Err ValueError
  | EUnary op (EConst (VFloat r)) =>
    if str_eqb op (L "USub") then Ok (LV (VFloat (pa_neg_float r)))
    else if str_eqb op (L "UAdd") then Ok (LV (VFloat r)) else Err ValueError
  | EUnary _ (EOpaque src) =>                     (* the operand may be a complex constant *)
    if opaque_may_have_value src then Err Unmodelled else Err ValueError
  | EOpaque src =>                                (* bytes, complex, Ellipsis, set displays, 1+2j ... *)
    if opaque_may_have_value src || startswith [ch 123] src then Err Unmodelled else Err ValueError
  | _ => Err ValueError                           (* malformed node or string *)
  end.

(* ================= ast_utils.py ================= *)

(* get_value(node) on an expression node: a Python scalar, or a node *)
Inductive gval : Type := GV (v : pyval) | GN (e : expr).

Definition pa_int_of_bool (b : bool) : Z := if b then 1%Z else 0%Z.

(* {"USub": neg, "UAdd": pos, "Not": not_, "Invert": inv}[type(node.op).__name__](value) *)
Definition apply_unop (op : str) (v : pyval) : outcome pyval :=
  if str_eqb op (L "USub") then
    match v with
    | VInt z => Ok (VInt (- z)) | VBool b => Ok (VInt (- pa_int_of_bool b))
    | VFloat r => Ok (VFloat (pa_neg_float r)) | _ => Err TypeError
    end
  else if str_eqb op (L "UAdd") then
    match v with
    | VInt z => Ok (VInt z) | VBool b => Ok (VInt (pa_int_of_bool b))
    | VFloat r => Ok (VFloat r) | _ => Err TypeError
    end
  else if str_eqb op (L "Invert") then
    match v with
    | VInt z => Ok (VInt (- z - 1)) | VBool b => Ok (VInt (- pa_int_of_bool b - 1))
    | _ => Err TypeError
    end
  else if str_eqb op (L "Not") then Ok (VBool (negb (truthy v)))     (* operator.not_ *)
  else Err KeyError.

Definition none_to_NoneStr (v : pyval) : pyval :=
  match v with VNone => VStr NoneStr | _ => v end.

Definition get_value_expr (e : expr) : outcome gval :=
  match e with
  | EConst v => Ok (GV (none_to_NoneStr v))
  | EAttr e' _ => Ok (GN e')                 (* hasattr(node, "value") *)
  | ESub e' _ => Ok (GN e')
  | EUnary op (EConst v) => do r <- apply_unop op (none_to_NoneStr v); Ok (GV r)
  | EUnary _ (EOpaque src) =>                (* the operand may be a bytes / complex / Ellipsis constant *)
    if opaque_may_have_value src then Err Unmodelled else Ok (GN e)
  | EName id => Ok (GV (VStr id))
  | EOpaque src => if opaque_may_have_value src then Err Unmodelled else Ok (GN e)
  | _ => Ok (GN e)
  end.

Definition dval_of_gval (g : gval) : dval :=
  match g with GV v => DV v | GN e => DE e end.

(* bool(x) for what get_value returns: AST objects are truthy *)
Definition truthy_gval (g : gval) : bool :=
  match g with GV v => truthy v | GN _ => true end.

(* get_function_type(function_def) *)
Definition get_function_type (a : arguments) : str :=
  match ar_args a with
  | x :: _ => if str_eqb (a_name x) (L "self") || str_eqb (a_name x) (L "cls") then a_name x else L "static"
  | [] => L "static"
  end.

(* is_argparse_add_argument(node) *)
Definition is_argparse_add_argument (s : stmt) : bool :=
  match s with
  | SExpr (ECall (EAttr (EName v) a) _ _) => str_eqb a (L "add_argument") && str_eqb v (L "argument_parser")
  | _ => false
  end.

(* is_argparse_description(node) *)
Definition is_argparse_description (s : stmt) : bool :=
  match s with
  | SAssign [EAttr (EName v) a] (EConst _) => str_eqb a (L "description") && str_eqb v (L "argument_parser")
  | _ => false
  end.

(* statements the wire form carries as text although the two predicates above may hold of the real
   node: a call with starred arguments, a bytes / complex / Ellipsis description, a tuple with a
   starred element after return *)
Definition argparse_stmt_declined (s : stmt) : bool :=
  match s with
  | SExpr (EOpaque src) => startswith (L "argument_parser.add_argument(") src
  | SAssign [EAttr (EName v) a] (EOpaque _) => str_eqb a (L "description") && str_eqb v (L "argument_parser")
  | SReturn (Some (EOpaque src)) => mem_c (ch 42) src
  | _ => false
  end.

(* ================= docstring_parsers.py: _infer_default, _set_name_and_type ================= *)

Definition fld_is_none {A} (f : fld A) : bool := match f with Has _ => false | _ => true end.

Definition dval_in_none_types (d : dval) : bool :=
  match d with DV v => in_none_types v | _ => false end.

Definition dval_is_NoneStr (d : dval) : bool :=
  match d with DV (VStr s) => str_eqb s NoneStr | _ => false end.

Definition expr_class_name (e : expr) : option str :=
  match e with
  | EConst _ => Some (L "Constant") | EName _ => Some (L "Name") | EAttr _ _ => Some (L "Attribute")
  | ESub _ _ => Some (L "Subscript") | ETuple _ => Some (L "Tuple") | EList _ => Some (L "List")
  | EDict _ _ => Some (L "Dict") | ECall _ _ _ => Some (L "Call") | EUnary _ _ => Some (L "UnaryOp")
  | EOpaque _ => None
  end.

(* type(x).__name__ of an object carried by its repr *)
Definition do_type_name (r : str) : option str :=
  match r with
  | c :: _ =>
    if ascii_eqb c (ch 91) then Some (L "list")
    else if ascii_eqb c (ch 40) then Some (L "tuple")
    else if str_eqb r (L "set()") then Some (L "set")
    else if ascii_eqb c (ch 123) then Some (L "dict")
    else None
  | [] => None
  end.

(* type(default).__name__ *)
Definition dval_type_name (d : dval) : option str :=
  match d with
  | DV v => Some (type_name v)
  | DE e => expr_class_name e
  | DO r => do_type_name r
  end.

Definition code_quoted_dval (d : dval) : bool :=
  match d with DV (VStr s) => code_quoted s | _ => false end.

Definition bt3 : str := L "```".

Definition dval_of_lval (v : lval) : dval :=
  match v with
  | LV x => DV x
  | _ => DO (lrepr v)
  end.

(* _infer_default(_param, infer_type), _param["default"] = d0 *)
Definition infer_default (p : gparam) (d0 : dval) (infer_type : bool) : outcome gparam :=
  (* isinstance(default, (Str, Num, Constant, NameConstant)) -> get_value *)
  do d1 <- match d0 with
           | DE (EConst v) => Ok (DV (none_to_NoneStr v))
           | DE (EOpaque src) =>                   (* may be a Constant (bytes, complex, Ellipsis) *)
             if opaque_may_have_value src then Err Unmodelled else Ok d0
           | _ => Ok d0
           end;
  (* in none_types -> NoneStr *)
  let d2 := if dval_in_none_types d1 then DV (VStr NoneStr) else d1 in
  (* infer_type and typ is None and default not in none_types *)
  do typ3 <- (if infer_type && fld_is_none (g_typ p) && negb (dval_in_none_types d2)
              then match dval_type_name d2 with Some n => Ok (Has n) | None => Err Unmodelled end
              else Ok (g_typ p));
  (* an AST default is evaluated (literal_eval) or code-quoted FIRST; only otherwise the unquoting branch.
     The second component is the type name of an evaluated literal *)
  do d4 <- (match d2 with
            | DE e =>
              match lit_eval e with
              | Ok lv => Ok (dval_of_lval lv, Some (lval_type_name lv))
              | Err ValueError =>
                do c <- code_of e;
                Ok (DV (VStr (bt3 ++ paren_wrap_code c ++ bt3)), None)
              | Err x => Err x
              end
            | _ =>
              do nq <- needs_quoting (fget typ3);
              Ok (match d2 with DV (VStr s) => DV (VStr (unquote s)) | _ => d2 end, None)
            end);
  let '(d, tn) := d4 in
  (* typ is None and default != NoneStr -> type(default).__name__ *)
  do typ5 <- (if fld_is_none typ3 && negb (dval_is_NoneStr d)
              then match tn with
                   | Some n => Ok (Has n)
                   | None => match dval_type_name d with Some n => Ok (Has n) | None => Err Unmodelled end
                   end
              else Ok typ3);
  (* code-quoted default under a type without "[" : del _param["typ"] *)
  if negb (dval_is_NoneStr d) && code_quoted_dval d then
    match typ5 with
    | Missing => Err KeyError
    | FNone => Err TypeError
    | Has t => if contains [ch 91] t then Ok (mkG (g_doc p) typ5 (Some d))
               else Ok (mkG (g_doc p) Missing (Some d))
    end
  else Ok (mkG (g_doc p) typ5 (Some d)).

Definition google_opt : str := L ", optional".

(* _set_name_and_type((name, _param), infer_type, word_wrap); "doc" is a str when present *)
Definition set_name_and_type (name : str) (p : gparam) (infer_type word_wrap : bool)
  : outcome (str * gparam) :=
  do r1 <- (if endswith (L "kwargs") name || startswith (L "**") name then
              let name' := lstrip_chars [ch 42] name in
              let typ' := match g_typ p with
                          | Missing => Has (L "Optional[dict]")
                          | Has t => if str_eqb t (L "dict") then Has (L "Optional[dict]") else Has t
                          | FNone => FNone
                          end in
              let d' := match g_default p with None => Some (DV (VStr NoneStr)) | Some d => Some d end in
              Ok (name', mkG (g_doc p) typ' d')
            else match g_default p with
                 | Some d => do p' <- infer_default p d infer_type; Ok (name, p')
                 | None => Ok (name, p)
                 end);
  let '(name1, p1) := r1 in
  let typ2 := match g_typ p1 with
              | Has t => if endswith google_opt t
                         then Has (L "Optional[" ++ firstn (List.length t - List.length google_opt) t ++ L "]")
                         else Has t
              | x => x
              end in
  let doc3 := match g_doc p1 with
              | Has (c :: r) => Has (c :: r)
              | _ => Missing                        (* del _param["doc"] when falsy *)
              end in
  match doc3 with
  | Has doc =>
    let doc' := rstrip (if word_wrap then join [sp] (map strip (split [nl] doc)) else doc) in
    if startswith (L "(Optional)") doc' || startswith (L "Optional") doc' then
      match typ2 with
      | Missing => Ok (name1, mkG (Has doc') typ2 (g_default p1))
      | FNone => Err AttributeError                 (* None.startswith *)
      | Has t => if startswith (L "Optional[") t then Ok (name1, mkG (Has doc') typ2 (g_default p1))
                 else Ok (name1, mkG (Has doc') (Has (L "Optional[" ++ t ++ L "]")) (g_default p1))
      end
    else Ok (name1, mkG (Has doc') typ2 (g_default p1))
  | _ => Ok (name1, mkG doc3 typ2 (g_default p1))
  end.

(* OrderedDict(map(partial(_set_name_and_type, ...), params.items())) *)
Definition set_names_and_types (ps : list (str * gparam)) (infer_type word_wrap : bool)
  : outcome (list (str * gparam)) :=
  do l <- pa_mapM (fun kv => set_name_and_type (fst kv) (snd kv) infer_type word_wrap) ps;
  Ok (od_of_pairs l).

(* ================= parse.py: class_ (AST path) ================= *)

(* what class_ is handed: a Module or a single node *)
Inductive cnode : Type := CModule (m : module) | CStmt (s : stmt).

Definition is_class_other (s : stmt) : bool :=
  match s with SOther t _ _ => str_eqb t (L "ClassDef") | _ => false end.
Definition is_classdef (s : stmt) : bool :=
  match s with SClass _ _ _ _ => true | _ => false end.

(* find_ast_type(node, node_name) with of_type = ClassDef, after class_'s own two assertions *)
Definition find_class (n : cnode) (class_name : option str) : outcome stmt :=
  match n with
  | CModule m =>
    if existsb is_class_other m then Err Unmodelled      (* a ClassDef with keywords travels as text *)
    else
      let cs := filter is_classdef m in
      match class_name with
      | Some nm =>
        match filter (fun s => match stmt_name s with Some x => str_eqb x nm | None => false end) cs with
        | c :: _ => Ok c
        | [] => Err StopIteration
        end
      | None =>
        match cs with
        | [] => Err TypeError
        | [c] => Ok c
        | _ => Err NotImplementedError
        end
      end
  | CStmt s =>
    if is_class_other s then Err Unmodelled
    else match s with
         | SClass nm _ _ _ =>
           match class_name with
           | Some want => if str_eqb nm want then Ok s else Err AssertionError
           | None => Ok s
           end
         | _ => Err AssertionError       (* FunctionDef, or not Module / ClassDef / type *)
         end
  end.

(* the lambda applied to get_value(get_value(e)) in the AnnAssign branch *)
Definition annassign_default (value : option expr) : outcome dval :=
  do g <- match value with
          | None => Ok (GV (VStr NoneStr))
          | Some v => get_value_expr v
          end;
  match g with
  | GV VNone => Err Unmodelled                       (* not produced by get_value *)
  | GV v => Ok (DV v)                                (* type(v).__name__ in simple_types *)
  | GN x =>
    do s <- code_of x;
    if str_eqb s (L "{}") then Ok (match x with EDict _ _ => DO (L "{}") | _ => DO (L "set()") end)
    else if str_eqb s (L "[]") then Ok (DO (L "[]"))
    else if str_eqb s (L "()") then Ok (DO (L "()"))
    else Ok (DV (VStr s))                            (* parse_to_scalar of a str is the str *)
  end.

Definition target_id (t : expr) : outcome str :=
  match t with
  | EName id => Ok id
  | _ => Err AttributeError                          (* Attribute / Subscript targets have no .id *)
  end.

Definition return_type_key : str := L "return_type".

(* one AnnAssign: update-or-insert over params / returns *)
Definition class_annassign (params : list (str * gparam)) (returns : fld gparam)
           (target ann : expr) (value : option expr)
  : outcome (list (str * gparam) * fld gparam) :=
  do typ <- code_of ann;
  do d <- annassign_default value;
  do id <- target_id target;
  match od_get id params with
  | Some old => Ok (od_set id (mkG (g_doc old) (Has typ) (Some d)) params, returns)
  | None =>
    match returns with
    | Missing => Err KeyError                        (* intermediate_repr["returns"] *)
    | Has old =>
      if str_eqb id return_type_key then Ok (params, Has (mkG (g_doc old) (Has typ) (Some d)))
      else Ok (od_set id (mkG Missing (Has typ) (Some d)) params, returns)
    | FNone =>
      if str_eqb id return_type_key then Ok (params, Has (mkG Missing (Has typ) (Some d)))
      else Ok (od_set id (mkG Missing (Has typ) (Some d)) params, returns)
    end
  end.

(* one Assign: every target receives the same value *)
Fixpoint class_assign_targets (params : list (str * gparam)) (targets : list expr) (d : dval)
  : outcome (list (str * gparam)) :=
  match targets with
  | [] => Ok params
  | t :: r =>
    do id <- target_id t;
    let params' := match od_get id params with
                   | Some old => od_set id (mkG (g_doc old) (g_typ old) (Some d)) params
                   | None => od_set id (mkG Missing Missing (Some d)) params
                   end in
    class_assign_targets params' r d
  end.

Fixpoint class_body_loop (params : list (str * gparam)) (returns : fld gparam) (body : list stmt)
  : outcome (list (str * gparam) * fld gparam) :=
  match body with
  | [] => Ok (params, returns)
  | SAnnAssign t a v :: rest =>
    do r <- class_annassign params returns t a v;
    class_body_loop (fst r) (snd r) rest
  | SAssign ts v :: rest =>
    do g <- get_value_expr v;
    do params' <- class_assign_targets params ts (dval_of_gval g);
    class_body_loop params' returns rest
  | _ :: rest => class_body_loop params returns rest
  end.

Definition is_assignment (s : stmt) : bool :=
  match s with SAnnAssign _ _ _ => true | SAssign _ _ => true | _ => false end.

(* statements that are AnnAssign / Assign / AugAssign-like to Python but opaque on the wire: none; an
   opaque statement is neither AnnAssign nor Assign *)

Definition fld_of_opt {A} (o : option A) : fld A := match o with Some a => Has a | None => FNone end.

(* class_(class_def, class_name, merge_inner_function=None, infer_type, word_wrap)
   doc_ir = what parse.docstring(get_docstring(class_def).replace(":cvar", ":param"), emit_default_doc=False)
   returned or raised, None when the call was not made *)
Definition parse_class (doc_ir : option (outcome ir)) (node : cnode) (class_name : option str)
           (infer_type word_wrap : bool) : outcome ir :=
  do cd <- find_class node class_name;
  match cd with
  | SClass nm _ cbody _ =>
    do r0 <- match docstring_of cbody with
             | None => Ok (mkIR (fld_of_opt class_name) (Has (L "static")) (Has []) [] FNone None, cbody)
             | Some _ =>
               match doc_ir with
               | Some o => do i <- o; Ok (i, tl cbody)
               | None => Err Unmodelled
               end
             end;
    let '(i0, body) := r0 in
    (* return_type split-out *)
    let '(params0, returns0) :=
        match od_get return_type_key (ir_params i0) with
        | Some g => (od_pop return_type_key (ir_params i0), Has g)
        | None => (ir_params i0, ir_returns i0)
        end in
    do r <- class_body_loop params0 returns0 body;
    let '(params1, returns1) := r in
    do params2 <- set_names_and_types params1 infer_type word_wrap;
    Ok (mkIR (ir_name i0) (ir_type i0) (ir_doc i0) params2 returns1
             (Some (mkInternal (filter (fun s => negb (is_assignment s)) body) (Has nm) (Has (L "cls")))))
  | _ => Err AssertionError
  end.

(* ================= emitter_utils.py: parse_out_param ================= *)

Fixpoint find_kw (k : str) (kws : list (option str * expr)) : option expr :=
  match kws with
  | [] => None
  | (Some a, v) :: r => if str_eqb a k then Some v else find_kw k r
  | (None, _) :: r => find_kw k r
  end.

(* _handle_value(node) *)
Definition handle_value (e : expr) : outcome str :=
  match e with
  | EName id => Ok (if str_eqb id (L "loads") then L "Optional[dict]" else id)
  | _ => Err NotImplementedError
  end.

Definition gval_str (g : gval) : option str :=
  match g with GV (VStr s) => Some s | _ => None end.

(* _handle_keyword(keyword, typ) with keyword.value = e *)
Definition handle_keyword (e : expr) (typ : str) : outcome str :=
  do elts <- match e with
             | ETuple es => Ok es
             | EList es => Ok es
             | EOpaque _ => Err Unmodelled          (* a set display has .elts too *)
             | _ => Err AttributeError
             end;
  do gs <- pa_mapM get_value_expr elts;
  if in_simple_types typ then
    if str_eqb typ (L "str") then
      do ss <- pa_mapM (fun g => match g with
                                 | GV v => Ok (sq :: py_str v ++ [sq])
                                 | GN _ => Err Unmodelled       (* object repr with an address *)
                                 end) gs;
      Ok (L "Literal[" ++ join (L ", ") ss ++ L "]")
    else
      do ss <- pa_mapM (fun g => match gval_str g with Some s => Ok s | None => Err TypeError end) gs;
      Ok (L "Literal[" ++ join (L ", ") ss ++ L "]")
  else
    do ss <- pa_mapM (fun g => match gval_str g with Some s => Ok s | None => Err TypeError end) gs;
    Ok (L "Union[" ++ join (L ", ") ss ++ L "]").

(* parse_out_param(expr, require_default, emit_default_doc) for expr = Expr(Call(func, args, kws)) *)
Definition parse_out_param (args : list expr) (kws : list (option str * expr))
           (require_default emit_default_doc : bool) : outcome (str * gparam) :=
  do required <- match find_kw (L "required") kws with
                 | Some e => get_value_expr e
                 | None => Ok (GV (VBool false))
                 end;
  do typ0 <- match find_kw (L "type") kws with
             | Some e => handle_value e
             | None => Ok (L "str")
             end;
  do name <- match args with
             | [] => Err IndexError
             | a0 :: _ => do g <- get_value_expr a0;
                          match g with
                          | GV (VStr s) => Ok (skipn 2 s)
                          | _ => Err TypeError            (* not subscriptable *)
                          end
             end;
  do default0 <- match find_kw (L "default") kws with
                 | Some e => do g <- get_value_expr e; Ok (Some g)
                 | None => Ok None
                 end;
  do help_ <- match find_kw (L "help") kws with
              | Some e => do g <- get_value_expr e; Ok (Some g)
              | None => Ok None
              end;
  (* the lambda: help_ unchanged, or help_ with the default sentence; None = the Python None *)
  do doc <- match help_ with
            | None => Ok None
            | Some hg =>
              match default0 with
              | None => Ok (Some hg)
              | Some d =>
                if negb emit_default_doc then Ok (Some hg)
                else if (match d with GV (VStr []) => true | _ => false end) then Ok (Some hg)
                else match hg with
                     | GV (VStr h) =>
                       if contains (L "defaults to") h || contains (L "Defaults to") h then Ok (Some hg)
                       else match d with
                            | GV v => Ok (Some (GV (VStr ((if endswith [ch 46] h then h else h ++ [ch 46])
                                                          ++ L " Defaults to " ++ py_str v))))
                            | GN _ => Err Unmodelled      (* object repr with an address *)
                            end
                     | _ => Err TypeError                 (* "defaults to" in <not a str> *)
                     end
              end
            end;
  do dd <- match default0 with
           | Some d =>
             match doc with
             | None => Ok (FNone, Some (dval_of_gval d))
             | Some (GV (VStr h)) => Ok (Has h, Some (dval_of_gval d))
             | Some _ => Err Unmodelled                   (* a doc that is not a str ends up in the IR *)
             end
           | None =>
             match doc with
             | None => Ok (FNone, None)
             | Some (GV (VStr h)) =>
               do r <- extract_default h true default_announces None emit_default_doc;
               Ok (Has (fst r), option_map DV (snd r))
             | Some _ => Err TypeError                    (* location_within: tuple(<not iterable>) *)
             end
           end;
  let '(doc1, default1) := dd in
  do default2 <- match default1 with
                 | Some d => Ok (Some d)
                 | None =>
                   if truthy_gval required then
                     if in_simple_types typ0 then
                       match simple_type_zero typ0 with
                       | Some z => Ok (Some (DV z))
                       | None => Err Unmodelled           (* complex *)
                       end
                     else Ok (Some (DV (VStr NoneStr)))
                   else if require_default || startswith (L "Optional") typ0
                   then Ok (Some (DV (VStr NoneStr)))
                   else Ok None
                 end;
  do action <- match find_kw (L "action") kws with
               | Some e => do g <- get_value_expr e; Ok (Some g)
               | None => Ok None
               end;
  do typ1 <- match find_kw (L "choices") kws with
             | Some e => handle_keyword e typ0
             | None => Ok typ0
             end;
  let typ2 := match action with
              | Some (GV (VStr a)) => if str_eqb a (L "append") then L "List[" ++ typ1 ++ L "]" else typ1
              | _ => typ1
              end in
  let typ3 := if negb (truthy_gval required) && negb (contains (L "Optional") typ2)
              then L "Optional[" ++ typ2 ++ L "]" else typ2 in
  Ok (name, mkG doc1 (Has typ3) default2).

(* ================= emitter_utils.py: _parse_return ================= *)

(* function_def.body[0].value *)
Definition first_stmt_value (body : list stmt) : outcome gval :=
  match body with
  | [] => Err IndexError
  | SExpr e :: _ => get_value_expr e
  | SAssign _ e :: _ => get_value_expr e
  | SAnnAssign _ _ (Some e) :: _ => get_value_expr e
  | SAnnAssign _ _ None :: _ => Err AttributeError       (* get_value(None) is None; None.split *)
  | SReturn (Some e) :: _ => get_value_expr e
  | SReturn None :: _ => Err AttributeError
  | SOther _ _ _ :: _ => Err Unmodelled                  (* AugAssign has .value, most others not *)
  | _ :: _ => Err AttributeError                         (* FunctionDef / ClassDef: no .value *)
  end.

Fixpoint first_return_line (lines : list str) : option str :=
  match lines with
  | [] => None
  | l :: r => if startswith (L ":return") (lstrip l)
              then Some (lstrip (snd (partition [ch 44] l)))
              else first_return_line r
  end.

Definition nows (s : str) : str := filter (fun c => negb (isspace c)) s.

(* to_code(get_value(ast.parse(typ).body[0].value.slice).elts[1]).rstrip() *)
Definition return_typ_of (typ : str) : outcome str :=
  match strip typ with
  | [] => Err IndexError                                 (* ast.parse("").body[0] *)
  | _ =>
    if (match typ with c :: _ => isspace c | [] => false end) then Err Unmodelled   (* unexpected indent *)
    else if contains (L ",]") (nows typ) then Err Unmodelled     (* one-element tuple slice *)
    else
      match parse_ty typ with
      | None => Err Unmodelled
      | Some (TSub _ [TList es]) =>
        match nth_error es 1 with Some t => Ok (rstrip (show_ty t)) | None => Err IndexError end
      | Some (TSub _ [_]) => Err AttributeError          (* str / Name / Attribute has no .elts *)
      | Some (TSub _ args) =>
        match nth_error args 1 with Some t => Ok (rstrip (show_ty t)) | None => Err IndexError end
      | Some _ => Err AttributeError                     (* no .slice *)
      end
  end.

(* _parse_return(e, intermediate_repr, function_def, emit_default_doc) with e.value = Tuple(elts);
   fbody = function_def.body, doc_ir = the IR parse_docstring returned *)
Definition parse_return (elts : list expr) (doc_ir : ir) (fbody : list stmt) (emit_default_doc : bool)
  : outcome gparam :=
  (* "doc" *)
  do g <- first_stmt_value fbody;
  do text <- match g with
             | GV (VStr s) => Ok s
             | _ => Err AttributeError                   (* .split *)
             end;
  do line <- match first_return_line (split [nl] text) with
             | Some l => Ok l
             | None => Err StopIteration
             end;
  do ex <- extract_default line true default_announces None emit_default_doc;
  (* "default" *)
  do dflt <- match nth_error elts 1 with
             | Some e => code_of e
             | None => Err IndexError
             end;
  (* "typ" *)
  do typ <- match ir_returns doc_ir with
            | Missing => Err KeyError
            | FNone => Err TypeError
            | Has r =>
              match g_typ r with
              | Missing => Err KeyError
              | FNone => Err TypeError                   (* ast.parse(None) *)
              | Has t => return_typ_of t
              end
            end;
  do p <- set_default_doc return_type_key (mkParam (Has (fst ex)) (Has typ) (Some (VStr dflt))) emit_default_doc;
  Ok (gparam_of_param p).

(* ================= parse.py: argparse_ast ================= *)

Record apstate : Type := mkAP {
  ap_params : list (str * gparam);
  ap_doc : fld str;
  ap_returns : fld gparam;
  ap_require_default : bool
}.

(* params[name].update(_param) or params[name] = _param *)
Definition ap_update (params : list (str * gparam)) (name : str) (p : gparam) : list (str * gparam) :=
  match od_get name params with
  | Some old => od_set name (mkG (g_doc p) (g_typ p)
                                 (match g_default p with Some d => Some d | None => g_default old end)) params
  | None => od_set name p params
  end.

Definition argparse_step (doc_ir : ir) (fbody : list stmt) (st : apstate) (node : stmt) : outcome apstate :=
  if argparse_stmt_declined node then Err Unmodelled
  else
  match node with
  | SExpr (ECall (EAttr (EName v) a) args kws) =>
    if str_eqb a (L "add_argument") && str_eqb v (L "argument_parser") then
      do r <- parse_out_param args kws (ap_require_default st) false;
      let '(name, p) := r in
      Ok (mkAP (ap_update (ap_params st) name p) (ap_doc st) (ap_returns st)
               (ap_require_default st || match g_default p with Some _ => true | None => false end))
    else Ok st
  | SAssign [EAttr (EName v) a] (EConst c) =>
    if str_eqb a (L "description") && str_eqb v (L "argument_parser") then
      match none_to_NoneStr c with
      | VStr s => Ok (mkAP (ap_params st) (Has s) (ap_returns st) (ap_require_default st))
      | _ => Err Unmodelled                              (* a description that is not a str *)
      end
    else Ok st
  | SReturn (Some (ETuple elts)) =>
    do r <- parse_return elts doc_ir fbody false;
    Ok (mkAP (ap_params st) (ap_doc st) (Has r) (ap_require_default st))
  | _ => Ok st
  end.

Fixpoint argparse_loop (doc_ir : ir) (fbody : list stmt) (st : apstate) (body : list stmt) : outcome apstate :=
  match body with
  | [] => Ok st
  | n :: rest => do st' <- argparse_step doc_ir fbody st n; argparse_loop doc_ir fbody st' rest
  end.

Definition is_func_other (s : stmt) : bool :=
  match s with SOther t _ _ => str_eqb t (L "FunctionDef") | _ => false end.

Definition truthy_opt_str (o : option str) : option str :=
  match o with Some (c :: r) => Some (c :: r) | _ => None end.

(* argparse_ast(function_def, function_type, function_name);
   doc_ir = what parse_docstring(get_docstring(function_def), emit_default_doc=True) returned or raised *)
Definition parse_argparse_ast (doc_ir : outcome ir) (fd : stmt) (function_type function_name : option str)
  : outcome ir :=
  if is_func_other fd then Err Unmodelled               (* positional-only arguments travel as text *)
  else
  match fd with
  | SFunc nm a fbody _ _ =>
    let typ := match truthy_opt_str function_type with Some t => t | None => get_function_type a end in
    do di <- doc_ir;
    let body := match docstring_of fbody with Some _ => tl fbody | None => fbody end in
    do st <- argparse_loop di fbody (mkAP [] (Has []) Missing false) body;
    let inner := filter (fun s => negb (is_argparse_description s))
                        (filter (fun s => negb (is_argparse_add_argument s)) body) in
    Ok (mkIR (fld_of_opt function_name) (Has typ) (ap_doc st) (ap_params st) (ap_returns st)
             (match inner with
              | [] => None
              | _ => Some (mkInternal inner (Has nm) (Has (L "static")))
              end))
  | _ => Err AssertionError
  end.

(* ================= wire ================= *)

Definition enc_gval (g : gval) : sexp :=
  match g with
  | GV v => SList [sym "gv"; enc_pyval v]
  | GN e => SList [sym "gn"; enc_expr e]
  end.

Definition dec_err (e : sexp) : option err :=
  if is_sym "AttributeError" e then Some AttributeError
  else if is_sym "IndexError" e then Some IndexError
  else if is_sym "ValueError" e then Some ValueError
  else if is_sym "SyntaxError" e then Some SyntaxError
  else if is_sym "TypeError" e then Some TypeError
  else if is_sym "AssertionError" e then Some AssertionError
  else if is_sym "NotImplementedError" e then Some NotImplementedError
  else if is_sym "KeyError" e then Some KeyError
  else if is_sym "StopIteration" e then Some StopIteration
  else if is_sym "IOError" e then Some IOError
  else if is_sym "Unmodelled" e then Some Unmodelled
  else None.

Definition dec_outcome {A} (f : sexp -> option A) (e : sexp) : option (outcome A) :=
  match e with
  | SList [t; x] =>
    if is_sym "ok" t then option_map Ok (f x)
    else if is_sym "err" t then option_map Err (dec_err x)
    else None
  | _ => None
  end.

Definition dec_cnode (e : sexp) : option cnode :=
  match e with
  | SList [t; x] =>
    if is_sym "module" t then option_map CModule (dec_module x)
    else if is_sym "stmt" t then option_map CStmt (dec_stmt x)
    else None
  | _ => None
  end.

Definition pob {A B} (x : option A) (f : A -> option B) : option B :=
  match x with Some a => f a | None => None end.

(* FAMILY: run_parseast *)
Definition run_parseast (fn : sexp) (args : list sexp) : option sexp :=
  if is_sym "show_expr" fn then
    match args with
    | [e] => pob (dec_expr e) (fun e =>
             Some (enc_outcome enc_str (if expr_ok e then Ok (show_expr e) else Err Unmodelled)))
    | _ => None
    end
  else if is_sym "pa_get_value" fn then
    match args with
    | [e] => pob (dec_expr e) (fun e => Some (enc_outcome enc_gval (get_value_expr e)))
    | _ => None
    end
  else if is_sym "pa_literal_eval" fn then
    match args with
    | [e] => pob (dec_expr e) (fun e =>
             Some (enc_outcome (fun lv => SList [enc_str (lval_type_name lv); enc_str (lrepr lv)])
                               (if expr_ok e then lit_eval e else Err Unmodelled)))
    | _ => None
    end
  else if is_sym "pa_set_name_and_type" fn then
    match args with
    | [name; p; it; ww] =>
      pob (dec_str name) (fun name => pob (dec_gparam p) (fun p =>
      pob (dec_bool it) (fun it => pob (dec_bool ww) (fun ww =>
      Some (enc_outcome (enc_pair enc_str enc_gparam) (set_name_and_type name p it ww))))))
    | _ => None
    end
  else if is_sym "parse_out_param" fn then
    match args with
    | [s; rd; ed] =>
      pob (dec_stmt s) (fun s => pob (dec_bool rd) (fun rd => pob (dec_bool ed) (fun ed =>
      match s with
      | SExpr (ECall _ a k) => Some (enc_outcome (enc_pair enc_str enc_gparam) (parse_out_param a k rd ed))
      | _ => Some (enc_outcome (enc_pair enc_str enc_gparam) (Err Unmodelled))
      end)))
    | _ => None
    end
  else if is_sym "parse_class" fn then
    match args with
    | [di; node; cn; it; ww] =>
      pob (dec_option (dec_outcome dec_ir) di) (fun di => pob (dec_cnode node) (fun node =>
      pob (dec_option dec_str cn) (fun cn => pob (dec_bool it) (fun it => pob (dec_bool ww) (fun ww =>
      Some (enc_outcome enc_ir (parse_class di node cn it ww)))))))
    | _ => None
    end
  else if is_sym "parse_argparse_ast" fn then
    match args with
    | [di; fd; ft; fnm] =>
      pob (dec_outcome dec_ir di) (fun di => pob (dec_stmt fd) (fun fd =>
      pob (dec_option dec_str ft) (fun ft => pob (dec_option dec_str fnm) (fun fnm =>
      Some (enc_outcome enc_ir (parse_argparse_ast di fd ft fnm))))))
    | _ => None
    end
  else None.
