(* C12: output is a deterministic function of the input.  Statements only; the lemmas live in
   proofs/MergeFacts.v and proofs/C12Facts.v.
   Proved in full for the modelled layer (docstring/signature merge of parse.function, ir_merge,
   _join_non_none, _merge_inner_function): for every admissible iteration order of every set the code
   iterates the result is the same, and the conversions take no process state.
   Two finding classes remain below the model (C12Spec.finding_class_C12_ir): an IR that holds a raw ast
   node as a default (after fix 14f8a19 only a non-** parameter named *kwargs) is printed by the emitters
   with the node's memory address; the argparse emitter expands a quoted one-element list default into a
   raw node. *)
From Coq Require String.
Import String.StringSyntax.
From DT Require Import PyStr PyVal PyAst IR Merge ParseSig C12Spec MergeFacts C12Facts.

Theorem C12 : C12_statement.
Proof. exact C12_lemma. Qed.
Print Assumptions C12.

Theorem C12_join_non_none : C12_join_statement.
Proof. exact join_non_none_perm. Qed.
Print Assumptions C12_join_non_none.

Theorem C12_ir_merge : C12_merge_statement.
Proof. exact ir_merge_perm. Qed.
Print Assumptions C12_ir_merge.

Theorem C12_parse_function : C12_function_statement.
Proof. exact parse_function_perm. Qed.
Print Assumptions C12_parse_function.

Theorem C12_merge_inner_function : C12_inner_statement.
Proof. exact merge_inner_function_perm. Qed.
Print Assumptions C12_merge_inner_function.

(* independence of earlier calls / call order: the modelled conversions are functions of their arguments *)
Theorem C12_state : C12_state_statement.
Proof. exact state_independent. Qed.
Print Assumptions C12_state.

(* outside the finding class, every default in the parsed IR is a value (no raw node whose text would be an address) *)
Theorem C12_printable : forall pi pj d fd r, perm_ok pi -> perm_ok pj ->
  finding_class_C12 d fd = None ->
  parse_function pi pj d fd false true None None = Ok r -> ir_printable r.
Proof. exact C12_printable_lemma. Qed.
Print Assumptions C12_printable.

(* the loop that fix 5000c02 replaced did depend on the set order *)
Theorem C12_old_code_refuted :
  exists pd pd' op tp, perm_ok pd /\ perm_ok pd' /\ append_missing_old pd op tp <> append_missing_old pd' op tp.
Proof. exact C12Facts.C12_old_code_refuted. Qed.
Print Assumptions C12_old_code_refuted.

Example C12_nonvacuous :
  exists t o r, ir_merge id_perm id_perm t o = Ok r /\ ir_merge rev_perm rev_perm t o = Ok r
                /\ List.length (inter_keys (ir_params o) (ir_params t)) = 2.
Proof. exact C12_nonvacuous_lemma. Qed.
Print Assumptions C12_nonvacuous.
