(* C05 — any-to-any convertibility preserves the interface.
   Statements closed by `exact` only; lemmas live in proofs/C05Facts.v. *)
From Coq Require Import List.
From DT Require Import PyStr PyVal Defaults IR.
From DT Require DocParse DocParseNG C01Spec C01SpecNG C05Spec C05Facts.
Import ListNotations.

(* ---- the relation ---- *)

Theorem C05_preserved_refl : forall i, C05Spec.preserved i i = true.
Proof. exact C05Facts.preserved_refl. Qed.
Print Assumptions C05_preserved_refl.

Theorem C05_preserved_trans : forall a b c,
    C05Spec.preserved a b = true -> C05Spec.preserved b c = true -> C05Spec.preserved a c = true.
Proof. exact C05Facts.preserved_trans. Qed.
Print Assumptions C05_preserved_trans.

(* nothing is swapped between parameters: the k-th parameter of the result has the name, type, prose and default
   of the k-th parameter of the original, and there are as many *)
Theorem C05_preserved_no_swap : forall i i', C05Spec.preserved i i' = true ->
    List.length (ir_params i) = List.length (ir_params i')
    /\ forall k n g, nth_error (ir_params i) k = Some (n, g) ->
       exists g', nth_error (ir_params i') k = Some (n, g')
                  /\ C01Spec.same_typ g g' = true /\ C01Spec.same_prose g g' = true
                  /\ C01Spec.same_default_ir (g_default g) (g_default g') = true.
Proof. exact C05Facts.preserved_no_swap. Qed.
Print Assumptions C05_preserved_no_swap.

(* nothing is invented *)
Theorem C05_preserved_nothing_invented : forall i i', C05Spec.preserved i i' = true ->
    forall k n g', nth_error (ir_params i') k = Some (n, g') ->
    exists g, nth_error (ir_params i) k = Some (n, g)
              /\ C01Spec.same_typ g g' = true /\ C01Spec.same_prose g g' = true
              /\ C01Spec.same_default_ir (g_default g) (g_default g') = true.
Proof. exact C05Facts.preserved_nothing_invented. Qed.
Print Assumptions C05_preserved_nothing_invented.

(* ---- composition, generic: any relation, any kinds, chains of any length ---- *)

Theorem C05_composition : forall (T K : Type) (pres : T -> T -> bool) (conv : K -> T -> outcome T) (D : T -> bool),
    (forall i, pres i i = true) ->
    (forall a b c, pres a b = true -> pres b c = true -> pres a c = true) ->
    forall ks,
      (forall k, In k ks -> forall i, D i = true -> exists i', conv k i = Ok i' /\ pres i i' = true /\ D i' = true) ->
      forall i, D i = true -> exists i', C05Spec.chain conv ks i = Ok i' /\ pres i i' = true /\ D i' = true.
Proof. exact C05Facts.chain_preserved. Qed.
Print Assumptions C05_composition.

(* ---- C05 on the region: every chain cs (any length, repetitions allowed) over kinds drawn from ks ---- *)

Theorem C05_chain_preserved : forall (conv : C05Spec.kind -> ir -> outcome ir) (ks : list C05Spec.kind),
    (In C05Spec.KRest ks -> C05Spec.kind_law conv (C05Spec.chain_safe ks) C05Spec.KRest) ->
    (In C05Spec.KNumpydoc ks -> C05Spec.kind_law conv (C05Spec.chain_safe ks) C05Spec.KNumpydoc) ->
    (In C05Spec.KGoogle ks -> C05Spec.kind_law conv (C05Spec.chain_safe ks) C05Spec.KGoogle) ->
    (In C05Spec.KClass ks -> C05Spec.kind_law conv (C05Spec.chain_safe ks) C05Spec.KClass) ->
    (In C05Spec.KFunction ks -> C05Spec.kind_law conv (C05Spec.chain_safe ks) C05Spec.KFunction) ->
    (In C05Spec.KMethod ks -> C05Spec.kind_law conv (C05Spec.chain_safe ks) C05Spec.KMethod) ->
    (In C05Spec.KArgparse ks -> C05Spec.kind_law conv (C05Spec.chain_safe ks) C05Spec.KArgparse) ->
    forall cs, incl cs ks ->
    forall i, C05Spec.chain_safe ks i = true ->
    exists i', C05Spec.chain conv cs i = Ok i' /\ C05Spec.preserved i i' = true /\ C05Spec.chain_safe ks i' = true.
Proof. exact C05Facts.C05_chain_preserved_lemma. Qed.
Print Assumptions C05_chain_preserved.

Theorem C05_chain_no_swap : forall (conv : C05Spec.kind -> ir -> outcome ir) (ks : list C05Spec.kind),
    (In C05Spec.KRest ks -> C05Spec.kind_law conv (C05Spec.chain_safe ks) C05Spec.KRest) ->
    (In C05Spec.KNumpydoc ks -> C05Spec.kind_law conv (C05Spec.chain_safe ks) C05Spec.KNumpydoc) ->
    (In C05Spec.KGoogle ks -> C05Spec.kind_law conv (C05Spec.chain_safe ks) C05Spec.KGoogle) ->
    (In C05Spec.KClass ks -> C05Spec.kind_law conv (C05Spec.chain_safe ks) C05Spec.KClass) ->
    (In C05Spec.KFunction ks -> C05Spec.kind_law conv (C05Spec.chain_safe ks) C05Spec.KFunction) ->
    (In C05Spec.KMethod ks -> C05Spec.kind_law conv (C05Spec.chain_safe ks) C05Spec.KMethod) ->
    (In C05Spec.KArgparse ks -> C05Spec.kind_law conv (C05Spec.chain_safe ks) C05Spec.KArgparse) ->
    forall cs, incl cs ks ->
    forall i, C05Spec.chain_safe ks i = true ->
    exists i', C05Spec.chain conv cs i = Ok i'
               /\ List.length (ir_params i) = List.length (ir_params i')
               /\ forall k n g, nth_error (ir_params i) k = Some (n, g) ->
                  exists g', nth_error (ir_params i') k = Some (n, g')
                             /\ C01Spec.same_typ g g' = true /\ C01Spec.same_prose g g' = true
                             /\ C01Spec.same_default_ir (g_default g) (g_default g') = true.
Proof. exact C05Facts.C05_chain_no_swap_lemma. Qed.
Print Assumptions C05_chain_no_swap.

(* the region of all seven kinds lies inside the region of every chain *)
Theorem C05_region_of_all_kinds : forall ks i,
    C05Spec.chain_safe C05Spec.all_kinds i = true -> C05Spec.chain_safe ks i = true.
Proof. exact C05Facts.chain_safe_all_kinds. Qed.
Print Assumptions C05_region_of_all_kinds.

(* ---- the laws that existing theorems discharge ---- *)

(* ReST: from the C01 ReST theorem, on any domain inside its guard that is closed under the conversion *)
Theorem C05_rest_law : forall D : ir -> bool,
    (forall i, D i = true -> C01Spec.guard_C01_rest false i = true) ->
    (forall i i', D i = true -> C05Spec.conv_rest i = Ok i' -> D i' = true) ->
    forall i, D i = true ->
    exists i', C05Spec.conv_rest i = Ok i' /\ C05Spec.preserved i i' = true /\ D i' = true.
Proof. exact C05Facts.RT_rest_from_C01. Qed.
Print Assumptions C05_rest_law.

Theorem C05_rest_roundtrip : forall i, C01Spec.guard_C01_rest false i = true ->
    exists i', C05Spec.conv_rest i = Ok i' /\ C05Spec.preserved i i' = true.
Proof. exact C05Facts.RT_rest_roundtrip. Qed.
Print Assumptions C05_rest_roundtrip.

(* numpydoc / google: from the C01 theorem of those styles, on its guard, modulo its scan link *)
Theorem C05_ng_roundtrip : forall style i,
    C01SpecNG.guard_C01_ng style i = true -> C01SpecNG.scan_link_b style i = true ->
    exists i', C05Facts.conv_ng style i = Ok i' /\ C05Spec.preserved i i' = true.
Proof. exact C05Facts.RT_ng_roundtrip. Qed.
Print Assumptions C05_ng_roundtrip.

(* ---- over the whole domain the property is false of the faithful model ---- *)

Theorem C05_refuted : ~ C05Facts.C05_statement.
Proof. exact C05Facts.C05_refuted_lemma. Qed.
Print Assumptions C05_refuted.

Theorem C05_refuted_witness_class :
  C05Spec.c05_class_of [C05Spec.KRest] C05Facts.w_noterm = Some C05Spec.K05_prose_no_terminal.
Proof. exact C05Facts.w_noterm_class. Qed.
Print Assumptions C05_refuted_witness_class.

Example C05_nonvacuous :
  C05Spec.chain_safe C05Spec.all_kinds C05Facts.w_safe = true
  /\ C01Spec.guard_C01_rest false C05Facts.w_safe = true
  /\ exists i', C05Spec.conv_rest C05Facts.w_safe = Ok i' /\ C05Spec.preserved C05Facts.w_safe i' = true
                /\ C05Spec.chain_safe C05Spec.all_kinds i' = true.
Proof. exact C05Facts.C05_nonvacuous_lemma. Qed.
Print Assumptions C05_nonvacuous.
