(* C08 — conversion is a normalisation that stabilises after one pass.
   Statements closed by `exact` only; lemmas live in proofs/C08Facts.v (and, re-exported there, in
   proofs/PureUtilsFacts.v and proofs/DefaultsFacts.v). *)
From Coq Require Import List Bool.
From DT Require Import PyStr PyVal PureUtils Defaults IR.
From DT Require DocEmit C01Spec C05Spec C08Spec C05Facts C08Facts.
Import ListNotations.

(* ---- the local idempotence facts the property's anchors name, unconditionally ---- *)

Theorem C08_quote_idempotent : forall s, quote (quote s) = quote s.
Proof. exact C08Facts.quote_idempotent. Qed.
Print Assumptions C08_quote_idempotent.

Theorem C08_unquote_unquoted : forall s,
    (startswith [dq] s && endswith [dq] s) || (startswith [sq] s && endswith [sq] s) = false ->
    unquote s = s.
Proof. exact C08Facts.unquote_unquoted. Qed.
Print Assumptions C08_unquote_unquoted.

Theorem C08_unquote_after_quote : forall s, unquote s = s -> unquote (quote s) = s.
Proof. exact C08Facts.unquote_after_quote. Qed.
Print Assumptions C08_unquote_after_quote.

Theorem C08_set_default_doc_idempotent : forall name p p',
    set_default_doc name p true = Ok p' -> set_default_doc name p' true = Ok p'.
Proof. exact C08Facts.set_default_doc_idempotent. Qed.
Print Assumptions C08_set_default_doc_idempotent.

(* the text (indentation included) that to_docstring writes is a function of the summary, the parameters, the return
   entry, the options and indent_level: nothing of a previous artefact (name, kind, carried body) enters *)
Theorem C08_to_docstring_text : forall w i i' edd st il et est ww,
    ir_doc i = ir_doc i' -> ir_params i = ir_params i' -> ir_returns i = ir_returns i' ->
    C08Facts.text_of (DocEmit.to_docstring w i edd st il et est ww)
    = C08Facts.text_of (DocEmit.to_docstring w i' edd st il et est ww).
Proof. exact C08Facts.to_docstring_text_lemma. Qed.
Print Assumptions C08_to_docstring_text.

(* ---- the fixed point from laws ---- *)

(* equational form: parse (emit o i) = N i on a domain closed under N, N idempotent *)
Theorem C08_emit_after_two_passes : forall (T Txt O : Type) (emit : O -> T -> outcome Txt) (N : T -> T) (D : T -> bool),
    (forall i, D i = true -> N (N i) = N i) ->
    forall o i, D i = true -> emit o (N (N i)) = emit o (N i).
Proof. exact C08Facts.emit_after_two_passes. Qed.
Print Assumptions C08_emit_after_two_passes.

Theorem C08_fixpoint_from_laws :
  forall (T Txt O : Type) (emit : O -> T -> outcome Txt) (parse : Txt -> outcome T) (N : T -> T) (D : T -> bool),
    (forall o i t, D i = true -> emit o i = Ok t -> parse t = Ok (N i)) ->
    (forall i, D i = true -> D (N i) = true) ->
    (forall i, D i = true -> N (N i) = N i) ->
    forall o i t1 t2, D i = true -> emit o i = Ok t1 -> emit o (N i) = Ok t2 ->
    exists i1 i2, parse t1 = Ok i1 /\ emit o i1 = Ok t2 /\ parse t2 = Ok i2 /\ emit o i2 = Ok t2.
Proof. exact C08Facts.second_third_equal. Qed.
Print Assumptions C08_fixpoint_from_laws.

(* relational form: parse (emit i) ~ i for a relation R that the emitter respects *)
Theorem C08_fixpoint_relational :
  forall (T Txt : Type) (emit : T -> outcome Txt) (parse : Txt -> outcome T) (R : T -> T -> bool) (D : T -> bool),
    (forall i, D i = true -> exists t i', emit i = Ok t /\ parse t = Ok i' /\ R i i' = true) ->
    (forall i i', D i = true -> R i i' = true -> emit i' = emit i) ->
    forall i, D i = true ->
    exists t1 i1 t2 i2 t3,
      emit i = Ok t1 /\ parse t1 = Ok i1 /\ emit i1 = Ok t2 /\ parse t2 = Ok i2 /\ emit i2 = Ok t3
      /\ t2 = t3 /\ t1 = t2.
Proof. exact C08Facts.emissions_equal_rel. Qed.
Print Assumptions C08_fixpoint_relational.

(* ---- the ReST docstring kind, from the C01 ReST theorem ---- *)

Theorem C08_rest_from_C01 : forall D : ir -> bool,
    (forall i, D i = true -> C01Spec.guard_C01_rest false i = true) ->
    (forall i i', D i = true -> C05Spec.preserved i i' = true -> C08Spec.emit_rest i' = C08Spec.emit_rest i) ->
    forall i, D i = true -> C08Spec.C08_rest_at i.
Proof. exact C08Facts.C08_rest_from_C01_lemma. Qed.
Print Assumptions C08_rest_from_C01.

(* the executable form of the three emissions decides the statement *)
Theorem C08_rest_at_decided : forall i, C08Spec.C08_rest_at_b i = true -> C08Spec.C08_rest_at i.
Proof. exact C08Facts.C08_rest_at_b_sound. Qed.
Print Assumptions C08_rest_at_decided.

(* ---- over the whole domain the property is false of the faithful model ---- *)

Theorem C08_refuted : ~ C08Facts.C08_statement.
Proof. exact C08Facts.C08_refuted_lemma. Qed.
Print Assumptions C08_refuted.

Theorem C08_refuted_witness_class :
  C08Spec.finding_class_C08 C05Spec.KRest C08Facts.w_code = Some C05Spec.K05_code_default.
Proof. exact C08Facts.w_code_class. Qed.
Print Assumptions C08_refuted_witness_class.

Example C08_nonvacuous :
  forallb (fun k => C08Spec.guard_C08 k C05Facts.w_safe) C05Spec.all_kinds = true
  /\ C08Spec.C08_rest_at C05Facts.w_safe.
Proof. exact C08Facts.C08_nonvacuous_lemma. Qed.
Print Assumptions C08_nonvacuous.
