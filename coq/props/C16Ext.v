(* C16Ext: the PARSE side and the round trip  source -> IR -> source  of C16 (bodies carried verbatim), composed
   from the models ParseSig.parse_function / ParseAst.parse_argparse_ast / ParseAst.parse_class and
   EmitAst.emit_function / emit_argparse / emit_class.  Statements only; definitions in model/C16RoundTrip.v,
   lemmas in proofs/C16RoundTripFacts.v.  Discharges the sentence of props/C16.v's header "the parse side of
   the round trip ... is ParseAst's; the oracle of harness/prop_C16.py runs the whole round trip on the
   implementation": the round trip is now a theorem about the composed model, for every body (any number and
   kind of statements), every argument list, every option, every docstring-derived IR (parse side) and every
   docstring text (emit side).

   PROVED
     function / method  (parse.function ; emit.function)
       C16_rt_function_parse_side      what parse.function stores: `_internal` = the statements after the docstring,
                                       verbatim, with the definition's own name and kind; name/type; the return entry
                                       is a function of the body, the annotation and the docstring's return entry only;
       C16_rt_function_structure       outside every finding class: the emitted body is the docstring followed by the
                                       function splice of exactly the source's statements and the return generated
                                       from them (with C16_function_structure: no statement dropped, duplicated or
                                       reordered except at most the final return);
       C16_rt_function_partial / _stmts   inside guard_rt_function: verbatim, same name;
       class-free:  C16_rt_function_no_return (no top-level `return <value>`, docstring without return default),
                    C16_rt_function_final_return_name (`return <name>`), C16_rt_function_final_return_node
                    (`return <call / attribute / subscript / display / opaque expression>` when the parse table sends
                    the printed source back to the expression), C16_rt_function_final_return (any regenerated return);
       C16_rt_docstring_text_independent  the statements after the docstring do not depend on what to_docstring returned;
       C16_rt_function_refuted + witnesses: function-return-replaced (`return 'abc'` comes back as `return abc`) and
                    function-return-appended (last top-level return is not the last statement) ON THE ROUND TRIP.
     argparse  (parse.argparse_ast ; emit.argparse_function)
       C16_rt_argparse_parse_side, C16_rt_argparse_partial (body = docstring, description, one add_argument call per
       parameter, the source's extra statements in order, one final return), C16_rt_argparse_extras (in source terms),
       C16_rt_argparse_refuted + witness (argparse-leading-string-dropped: a string statement BETWEEN two add_argument
       calls is the first carried statement and is lost).
     class  (parse.class_ ; emit.class_)
       C16_rt_class_parse_side, C16_rt_class_call (every non-attribute statement of the class - its methods - ends up
       inside ONE generated __call__, re-homed; inside guard_C16_call exactly the scoped substitution),
       C16_rt_class_refuted + witness: a method is NOT carried as a method (nested in __call__ with emit_call, dropped
       without) - not a class of KNOWN_FINDINGS.txt today.
   NOT PROVED here
     that ParseSig / ParseAst / EmitAst are the code (correspondence families parsesig, parseast, emitast);
     that the parse table pt is ast.parse (an input of EmitAst; the class-free theorems name the one lookup they need);
     success of the conversions (C03 / C04): every theorem is about round trips that return;
     source text level (ast.unparse / ast.parse between the two conversions): C03Spec.reparse_stmt's business;
     _merge_inner_function (class with merge_inner_function) and the FunctionType (live object) path of parse.function. *)
From Coq Require Import List ZArith.
From Coq Require String.
Import String.StringSyntax.
From DT Require Import PyStr Sexp PyVal TyExpr PureUtils Defaults PyAst IR Merge EmitAst C16Spec C16RoundTrip C16Facts C16RoundTripFacts.
From DT Require ParseSig ParseAst.
Import ListNotations.

(* ================================================================== function *)
Theorem C16_rt_function_parse_side : forall pi pj d n a body dc r it ww pft pfn i,
    ParseSig.parse_function pi pj d (SFunc n a body dc r) it ww pft pfn = Ok i ->
    ir_name i = Has (ParseSig.opt_or pfn n)
    /\ ir_type i = Has (ParseSig.opt_or pft (ParseSig.get_function_type a))
    /\ ir_internal i = match body_stmts body with
                       | [] => doc_internal d body
                       | s :: rest => Some (mkInternal (s :: rest) (Has n) (Has (ParseSig.get_function_type a)))
                       end
    /\ rt_function_returns d body r it ww = Ok (ir_returns i).
Proof. exact parse_function_internal. Qed.
Print Assumptions C16_rt_function_parse_side.

Theorem C16_rt_function_structure :
  forall pi pj d n a body dc r it ww pft pfn pt efn eft inl kw tds n' a' body' d' r' i2,
    rt_function pi pj d (SFunc n a body dc r) it ww pft pfn pt efn eft inl kw tds
    = Ok (SFunc n' a' body' d' r', i2) ->
    same_target_function n a pft pfn efn eft = true ->
    body_or_clean_doc d body = true ->
    exists text rv,
      tds = Ok text /\ n' = n
      /\ rt_function_rv pt d body r it ww = Ok rv
      /\ body' = SExpr (set_value (VStr text)) :: function_body_splice (body_stmts body) rv.
Proof. exact rt_function_structure_lemma. Qed.
Print Assumptions C16_rt_function_structure.

Theorem C16_rt_function_partial :
  forall pi pj d n a body dc r it ww pft pfn pt efn eft inl kw tds n' a' body' d' r' i2,
    rt_function pi pj d (SFunc n a body dc r) it ww pft pfn pt efn eft inl kw tds
    = Ok (SFunc n' a' body' d' r', i2) ->
    guard_rt_function pt d (SFunc n a body dc r) it ww pft pfn efn eft = true ->
    exists text,
      tds = Ok text /\ n' = n
      /\ body' = SExpr (set_value (VStr text)) :: body_stmts body.
Proof. exact rt_function_body_lemma. Qed.
Print Assumptions C16_rt_function_partial.

Theorem C16_rt_function_stmts :
  forall pi pj d n a body dc r it ww pft pfn pt efn eft inl kw tds n' a' body' d' r' i2,
    rt_function pi pj d (SFunc n a body dc r) it ww pft pfn pt efn eft inl kw tds
    = Ok (SFunc n' a' body' d' r', i2) ->
    guard_rt_function pt d (SFunc n a body dc r) it ww pft pfn efn eft = true ->
    n' = n /\ body_stmts body' = body_stmts body.
Proof. exact rt_function_stmts_lemma. Qed.
Print Assumptions C16_rt_function_stmts.

Theorem C16_rt_function_no_return :
  forall pi pj d n a body dc r it ww pft pfn pt efn eft inl kw tds n' a' body' d' r' i2,
    rt_function pi pj d (SFunc n a body dc r) it ww pft pfn pt efn eft inl kw tds
    = Ok (SFunc n' a' body' d' r', i2) ->
    same_target_function n a pft pfn efn eft = true ->
    body_or_clean_doc d body = true ->
    no_value_return (body_stmts body) = true -> doc_return_default_absent d body = true ->
    exists text, tds = Ok text /\ n' = n /\ body' = SExpr (set_value (VStr text)) :: body_stmts body.
Proof. exact rt_function_no_return_lemma. Qed.
Print Assumptions C16_rt_function_no_return.

Theorem C16_rt_function_final_return_name :
  forall pi pj d n a body dc r it ww pft pfn pt efn eft inl kw tds n' a' body' d' r' i2,
    rt_function pi pj d (SFunc n a body dc r) it ww pft pfn pt efn eft inl kw tds
    = Ok (SFunc n' a' body' d' r', i2) ->
    same_target_function n a pft pfn efn eft = true ->
    final_return_name_reparses pt (body_stmts body) = true ->
    exists text, tds = Ok text /\ n' = n /\ body' = SExpr (set_value (VStr text)) :: body_stmts body.
Proof. exact rt_function_final_name_lemma. Qed.
Print Assumptions C16_rt_function_final_return_name.

Theorem C16_rt_function_final_return_node :
  forall pi pj d n a body dc r it ww pft pfn pt efn eft inl kw tds n' a' body' d' r' i2,
    rt_function pi pj d (SFunc n a body dc r) it ww pft pfn pt efn eft inl kw tds
    = Ok (SFunc n' a' body' d' r', i2) ->
    same_target_function n a pft pfn efn eft = true ->
    final_return_reparses pt (body_stmts body) = true ->
    exists text, tds = Ok text /\ n' = n /\ body' = SExpr (set_value (VStr text)) :: body_stmts body.
Proof. exact rt_function_final_return_reparses_lemma. Qed.
Print Assumptions C16_rt_function_final_return_node.

Theorem C16_rt_function_final_return :
  forall pi pj d n a body dc r it ww pft pfn pt efn eft inl kw tds n' a' body' d' r' i2 pre e,
    rt_function pi pj d (SFunc n a body dc r) it ww pft pfn pt efn eft inl kw tds
    = Ok (SFunc n' a' body' d' r', i2) ->
    same_target_function n a pft pfn efn eft = true ->
    body_stmts body = pre ++ [SReturn e] ->
    rt_function_rv pt d body r it ww = Ok (Some (SReturn e)) ->
    exists text, tds = Ok text /\ n' = n /\ body' = SExpr (set_value (VStr text)) :: body_stmts body.
Proof. exact rt_function_final_return_lemma. Qed.
Print Assumptions C16_rt_function_final_return.

(* the guard's third clause is implied by each of the class-free conditions *)
Theorem C16_rt_function_no_return_class : forall pt d body r it ww,
    no_value_return (body_stmts body) = true -> doc_return_default_absent d body = true ->
    finding_class_rt_function pt d body r it ww = None.
Proof. exact rt_function_no_return_class. Qed.
Print Assumptions C16_rt_function_no_return_class.

Theorem C16_rt_function_final_name_class : forall pt d body r it ww,
    final_return_name_reparses pt (body_stmts body) = true ->
    finding_class_rt_function pt d body r it ww = None.
Proof. exact rt_function_final_name_class. Qed.
Print Assumptions C16_rt_function_final_name_class.

Theorem C16_rt_function_final_node_class : forall pt d body r it ww,
    final_return_reparses pt (body_stmts body) = true ->
    finding_class_rt_function pt d body r it ww = None.
Proof. exact rt_function_final_return_class. Qed.
Print Assumptions C16_rt_function_final_node_class.

Theorem C16_rt_docstring_text_independent : forall pt i fn ft it kw t1 t2 n1 a1 b1 d1 r1 j1 n2 a2 b2 d2 r2 j2,
    emit_function pt i fn ft it kw (Ok t1) = Ok (SFunc n1 a1 b1 d1 r1, j1) ->
    emit_function pt i fn ft it kw (Ok t2) = Ok (SFunc n2 a2 b2 d2 r2, j2) ->
    tl b1 = tl b2.
Proof. exact emit_function_tail_indep. Qed.
Print Assumptions C16_rt_docstring_text_independent.

Theorem C16_rt_function_refuted : ~ rt_function_statement.
Proof. exact rt_function_refuted_lemma. Qed.
Print Assumptions C16_rt_function_refuted.

Theorem C16_rt_function_return_replaced_witness :
  finding_class_rt_function [] (Some wr_doc) (wr_body [SReturn (Some (EConst (VStr (L "abc"))))]) None false true
  = Some K_fn_return_replaced
  /\ exists b, fn_body_of (wr_run [] [SReturn (Some (EConst (VStr (L "abc"))))]) = Some b
               /\ body_stmts b = body_stmts (wr_body [SReturn (Some (EName (L "abc")))]).
Proof. exact rt_function_return_replaced_witness. Qed.
Print Assumptions C16_rt_function_return_replaced_witness.

Theorem C16_rt_function_return_appended_witness :
  finding_class_rt_function [] (Some wr_doc) (wr_body wr_tail) None false true = Some K_fn_return_appended
  /\ exists b, fn_body_of (wr_run [] wr_tail) = Some b
               /\ body_stmts b = body_stmts (wr_body wr_tail) ++ [SReturn (Some (EName (L "t")))].
Proof. exact rt_function_return_appended_witness. Qed.
Print Assumptions C16_rt_function_return_appended_witness.

Example C16_rt_function_nonvacuous :
  guard_rt_function [] (Some wr_doc) (wr_fn [SReturn (Some (EName (L "t")))]) false true None None None None = true
  /\ exists b, fn_body_of (wr_run [] [SReturn (Some (EName (L "t")))]) = Some b
               /\ body_stmts b = body_stmts (wr_body [SReturn (Some (EName (L "t")))])
               /\ List.length (body_stmts b) = 5.
Proof. exact rt_function_nonvacuous_lemma. Qed.
Print Assumptions C16_rt_function_nonvacuous.

Example C16_rt_function_nonvacuous_classfree :
  (no_value_return (body_stmts (wr_body [SReturn None])) = true
   /\ doc_return_default_absent (Some wr_doc) (wr_body [SReturn None]) = true
   /\ exists b, fn_body_of (wr_run [] [SReturn None]) = Some b)
  /\ final_return_name_reparses [] (body_stmts (wr_body [SReturn (Some (EName (L "t")))])) = true
  /\ (final_return_reparses wr_pt (body_stmts (wr_body [SReturn (Some wr_call)])) = true
      /\ exists b, fn_body_of (wr_run wr_pt [SReturn (Some wr_call)]) = Some b
                   /\ body_stmts b = body_stmts (wr_body [SReturn (Some wr_call)])).
Proof.
  exact (conj rt_function_nonvacuous_no_return
              (conj rt_function_nonvacuous_final_name rt_function_nonvacuous_final_return)).
Qed.
Print Assumptions C16_rt_function_nonvacuous_classfree.

(* ================================================================== argparse *)
Theorem C16_rt_argparse_parse_side : forall di n a fbody dc r pft pfn i,
    ParseAst.parse_argparse_ast di (SFunc n a fbody dc r) pft pfn = Ok i ->
    ir_name i = ParseAst.fld_of_opt pfn
    /\ ir_type i = Has (argparse_parsed_type a pft)
    /\ ir_internal i = match extras (body_stmts fbody) with
                       | [] => None
                       | s :: rest => Some (mkInternal (s :: rest) (Has n) (Has (L "static")))
                       end.
Proof. exact parse_argparse_internal. Qed.
Print Assumptions C16_rt_argparse_parse_side.

Theorem C16_rt_argparse_partial :
  forall di n a fbody dc r pft pfn pt edd efn eft wd ww ds n' a' body' d' r' i2,
    rt_argparse di (SFunc n a fbody dc r) pft pfn pt edd efn eft wd ww ds = Ok (SFunc n' a' body' d' r', i2) ->
    guard_rt_argparse (SFunc n a fbody dc r) pft pfn efn eft = true ->
    exists dtext desc adds ret,
      ds = Ok dtext /\ n' = n
      /\ body' = SExpr (set_value (VStr (indent tab dtext ++ tab))) :: description_assign desc
                       :: adds ++ extras (body_stmts fbody) ++ ret
      /\ Forall (fun s => ParseAst.is_argparse_add_argument s = true) adds
      /\ one_final_return (extras (body_stmts fbody)) ret.
Proof. exact rt_argparse_body_lemma. Qed.
Print Assumptions C16_rt_argparse_partial.

Theorem C16_rt_argparse_extras :
  forall di n a fbody dc r pft pfn pt edd efn eft wd ww ds n' a' body' d' r' i2,
    rt_argparse di (SFunc n a fbody dc r) pft pfn pt edd efn eft wd ww ds = Ok (SFunc n' a' body' d' r', i2) ->
    guard_rt_argparse (SFunc n a fbody dc r) pft pfn efn eft = true ->
    n' = n
    /\ exists ret, extras (body_stmts body') = extras (body_stmts fbody) ++ ret
                   /\ one_final_return (extras (body_stmts fbody)) ret.
Proof. exact rt_argparse_extras_lemma. Qed.
Print Assumptions C16_rt_argparse_extras.

Theorem C16_rt_argparse_refuted : ~ rt_argparse_statement.
Proof. exact rt_argparse_refuted_lemma. Qed.
Print Assumptions C16_rt_argparse_refuted.

Theorem C16_rt_argparse_leading_string_witness :
  finding_class_rt_argparse
    (match wa_fn [wa_note] [SReturn (Some wa_ap)] with SFunc _ _ b _ _ => b | _ => [] end)
  = Some K_ap_leading_string_dropped
  /\ exists b, fn_body_of (wa_run [wa_note] [SReturn (Some wa_ap)]) = Some b
               /\ extras (body_stmts b) = [wa_assign; wr_inner; SReturn (Some wa_ap)].
Proof. exact rt_argparse_leading_string_witness. Qed.
Print Assumptions C16_rt_argparse_leading_string_witness.

Example C16_rt_argparse_nonvacuous :
  guard_rt_argparse (wa_fn [] [SReturn (Some wa_ap)]) None (Some (L "set_cli_args")) None None = true
  /\ exists b, fn_body_of (wa_run [] [SReturn (Some wa_ap)]) = Some b
               /\ extras (body_stmts b) = [wa_assign; wr_inner; SReturn (Some wa_ap)]
               /\ List.length b = 7.
Proof. exact rt_argparse_nonvacuous_lemma. Qed.
Print Assumptions C16_rt_argparse_nonvacuous.

(* ================================================================== class *)
Theorem C16_rt_class_parse_side : forall di nm bs cbody dc pn it ww i,
    ParseAst.parse_class di (ParseAst.CStmt (SClass nm bs cbody dc)) pn it ww = Ok i ->
    ir_internal i = Some (mkInternal (class_extras (body_stmts cbody)) (Has nm) (Has (L "cls"))).
Proof. exact parse_class_internal. Qed.
Print Assumptions C16_rt_class_parse_side.

Theorem C16_rt_class_call : forall di nm bs cbody dc pn it pww i pt cn bases decos ww tds n' bs' body' dc' i2 s0 rest,
    ParseAst.parse_class di (ParseAst.CStmt (SClass nm bs cbody dc)) pn it pww = Ok i ->
    emit_class pt i true cn bases decos ww tds = Ok (SClass n' bs' body' dc', i2) ->
    class_extras (body_stmts cbody) = s0 :: rest ->
    (ir_params i = [] /\ In (call_meth (s0 :: rest)) body')
    \/ (ir_params i <> []
        /\ (guard_C16_call (od_keys (ir_params i)) (s0 :: rest) = true ->
            In (call_meth (map (subst_stmt (od_keys (ir_params i))) (s0 :: rest))) body')).
Proof. exact rt_class_call_lemma. Qed.
Print Assumptions C16_rt_class_call.

Theorem C16_rt_class_refuted : ~ rt_class_statement.
Proof. exact rt_class_refuted_lemma. Qed.
Print Assumptions C16_rt_class_refuted.

Theorem C16_rt_class_method_nested_witness :
  (exists doc attr, class_body_of (wc_run true) = Some [doc; attr; call_meth [wc_meth]])
  /\ (exists doc attr, class_body_of (wc_run false) = Some [doc; attr]).
Proof. exact rt_class_method_nested_witness. Qed.
Print Assumptions C16_rt_class_method_nested_witness.

(* the two by-design side conditions of guard_rt_function (same name and kind asked of the emitter; a body or a
   docstring IR without `_internal`) cannot be dropped *)
Theorem C16_rt_function_side_conditions_needed :
  (same_target_function (L "f") wr_args None None (Some (L "h")) None = false
   /\ exists b, fn_body_of (rt_function idp idp (Some wr_doc) (wr_fn [SReturn (Some (EName (L "t")))]) false true
                                         None None [] (Some (L "h")) None false false (Ok (L "DOC"))) = Some b
                /\ body_stmts b = [SReturn (Some (EName (L "t")))])
  /\ (body_or_clean_doc (Some wr_doc_internal) [SExpr (EConst (VStr (L "doc")))] = false
      /\ exists b, fn_body_of (rt_function idp idp (Some wr_doc_internal)
                                           (SFunc (L "f") no_arguments [SExpr (EConst (VStr (L "doc")))] [] None)
                                           false true None None [] None None false false (Ok (L "DOC"))) = Some b
                   /\ body_stmts b = [SExpr (EName (L "x"))]).
Proof. exact rt_function_side_conditions_needed. Qed.
Print Assumptions C16_rt_function_side_conditions_needed.

(* ================================================================== class: classifier, guard (follow-up)
   finding_class_rt_class (model/C16RoundTrip.v, asked through the driver as c16rt_class_class) names the class
   `class-method-rehomed-or-dropped` exactly when the class body has a statement that is not an attribute
   (AnnAssign / Assign) after its docstring; guard_rt_class is its complement on class statements.
   PROVED: inside the guard the emitted body is docstring + one annotated assignment per attribute + at most
   the __call__ emit.class_ generates from the return entry (emit_call, attributes and a return_type present);
   without emit_call the non-attribute statements of the class are kept (there are none, and none appear).
   The __call__-only case does NOT hold (C16_rt_class_call_only_witness: nested like any other method).
   NOT PROVED: parse.class_ with merge_inner_function; Module input with several classes (find_class). *)
Theorem C16_rt_class_partial :
  forall di nm bs cbody dc pn it pww pt ec cn bases decos ww tds n' bs' body' dc' i2,
    rt_class di (ParseAst.CStmt (SClass nm bs cbody dc)) pn it pww pt ec cn bases decos ww tds
    = Ok (SClass n' bs' body' dc', i2) ->
    guard_rt_class (SClass nm bs cbody dc) ec = true ->
    exists i text attrs meth,
      ParseAst.parse_class di (ParseAst.CStmt (SClass nm bs cbody dc)) pn it pww = Ok i
      /\ tds = Ok text
      /\ body' = SExpr (set_value (VStr (class_docstring text))) :: attrs ++ meth
      /\ Forall (fun s => ParseAst.is_assignment s = true) attrs
      /\ generated_call pt i ec ww meth
      /\ class_extras (body_stmts body') = class_extras (body_stmts cbody) ++ meth.
Proof. exact rt_class_partial_lemma. Qed.
Print Assumptions C16_rt_class_partial.

Theorem C16_rt_class_partial_no_call :
  forall di nm bs cbody dc pn it pww pt cn bases decos ww tds n' bs' body' dc' i2,
    rt_class di (ParseAst.CStmt (SClass nm bs cbody dc)) pn it pww pt false cn bases decos ww tds
    = Ok (SClass n' bs' body' dc', i2) ->
    guard_rt_class (SClass nm bs cbody dc) false = true ->
    class_extras (body_stmts body') = class_extras (body_stmts cbody).
Proof. exact rt_class_partial_no_call_lemma. Qed.
Print Assumptions C16_rt_class_partial_no_call.

Theorem C16_rt_class_witness_class : forall ec, finding_class_rt_class wc_class ec = Some rt_class_class_name.
Proof. exact rt_class_witness_class. Qed.
Print Assumptions C16_rt_class_witness_class.

Theorem C16_rt_class_call_only_witness :
  finding_class_rt_class wc_call_class true = Some rt_class_class_name
  /\ exists doc attr, class_body_of (wc_run_of wc_call_class true) = Some [doc; attr; call_meth [wc_call]].
Proof. exact rt_class_call_only_witness. Qed.
Print Assumptions C16_rt_class_call_only_witness.

Example C16_rt_class_nonvacuous :
  guard_rt_class wc_attrs_class true = true /\ guard_rt_class wc_ret_class true = true
  /\ (exists doc, class_body_of (wc_run_of wc_attrs_class true) = Some [doc; wc_attr])
  /\ (exists doc ret, class_body_of (wc_run_of wc_ret_class true)
                      = Some [doc; wc_attr; ret; call_meth [SReturn (Some (EConst (VInt 5%Z)))]])
  /\ (exists doc ret, class_body_of (wc_run_of wc_ret_class false) = Some [doc; wc_attr; ret]).
Proof. exact rt_class_nonvacuous_lemma. Qed.
Print Assumptions C16_rt_class_nonvacuous.
