(* C09: agreement after a sync.  After a successful fault-free run every target is found at its
   location and equals the re-emission of the truth (from the laws FIX and REPLACES; from FIX alone the
   weaker settled state).  Statements only; the lemmas live in proofs/SyncFacts.v. *)
From Coq Require Import List Ascii Bool Arith Relations.
From Coq Require String.
Import String.StringSyntax.
From DT Require Import PyStr Sexp PyVal PureUtils FS Sync Cli PyStrFacts FSFacts SyncFacts CliFacts.
Import ListNotations.

(* from FIX and REPLACES: every target stable, the truth still converting to the same ir *)
Theorem C09_sync_establishes_agreement :
    forall (node tree irT opts : Type) (emit_k : kind -> irT -> opts -> outcome node)
      (parse_file : path -> bytes -> outcome tree) (find : list str -> tree -> option node)
      (rewrite : list str -> node -> tree -> tree * bool) (cmp : node -> node -> bool)
      (render_node : node -> outcome bytes) (render_tree : tree -> outcome bytes)
      (opts_of : option node -> list str -> kind -> opts) (type_ok : kind -> node -> bool)
      (parse_truth : kind -> option node -> list str -> outcome irT),
    FIX_law node tree irT opts emit_k parse_file find rewrite cmp render_node render_tree opts_of
      type_ok ->
    REPLACES_law node tree find rewrite ->
    forall (fs : fsys) (a : sync_args) (truth : path) (fs1 : fsys) (eff : list (path * bool))
      (pr : list str),
    sync_args_ok a truth ->
    ground_truth emit_k parse_file find rewrite cmp render_node render_tree opts_of type_ok
      parse_truth fs a truth NoFaults = (fs1, Ok eff, pr) ->
    synced node tree irT parse_file find parse_truth
      (stable node tree irT opts emit_k parse_file find cmp opts_of type_ok) fs1 a truth.
Proof. exact sync_establishes_agreement. Qed.
Print Assumptions C09_sync_establishes_agreement.

(* from FIX alone: every target stable or declined by the rewriter *)
Theorem C09_sync_establishes_settled :
    forall (node tree irT opts : Type) (emit_k : kind -> irT -> opts -> outcome node)
      (parse_file : path -> bytes -> outcome tree) (find : list str -> tree -> option node)
      (rewrite : list str -> node -> tree -> tree * bool) (cmp : node -> node -> bool)
      (render_node : node -> outcome bytes) (render_tree : tree -> outcome bytes)
      (opts_of : option node -> list str -> kind -> opts) (type_ok : kind -> node -> bool)
      (parse_truth : kind -> option node -> list str -> outcome irT),
    FIX_law node tree irT opts emit_k parse_file find rewrite cmp render_node render_tree opts_of
      type_ok ->
    forall (fs : fsys) (a : sync_args) (truth : path) (fs1 : fsys) (eff : list (path * bool))
      (pr : list str),
    sync_args_ok a truth ->
    ground_truth emit_k parse_file find rewrite cmp render_node render_tree opts_of type_ok
      parse_truth fs a truth NoFaults = (fs1, Ok eff, pr) ->
    synced node tree irT parse_file find parse_truth
      (settled node tree irT opts emit_k parse_file find rewrite cmp opts_of type_ok) fs1 a truth.
Proof. exact sync_establishes_settled. Qed.
Print Assumptions C09_sync_establishes_settled.

(* a stable target is left alone: no write, flag false, nothing printed, under every fault *)
Theorem C09_stable_conform_noop :
    forall (node tree irT opts : Type) (emit_k : kind -> irT -> opts -> outcome node)
      (parse_file : path -> bytes -> outcome tree) (find : list str -> tree -> option node)
      (rewrite : list str -> node -> tree -> tree * bool) (cmp : node -> node -> bool)
      (render_node : node -> outcome bytes) (render_tree : tree -> outcome bytes)
      (opts_of : option node -> list str -> kind -> opts) (type_ok : kind -> node -> bool)
      (fs : fsys) (file : path) (search : list str) (k : kind) (ir : irT) 
      (f : fault),
    stable node tree irT opts emit_k parse_file find cmp opts_of type_ok fs file search k ir ->
    conform emit_k parse_file find rewrite cmp render_node render_tree opts_of type_ok fs file search
      k ir f = (fs, Ok false, []).
Proof. exact stable_conform_noop. Qed.
Print Assumptions C09_stable_conform_noop.

(* non-vacuity: all four laws and the command-line premise hold of a toy instance whose run modifies and creates *)
Theorem C09_laws_satisfiable :
    FIX_law bytes bytes bytes unit Toy.emit_k Toy.parse_file Toy.find Toy.rewrite Toy.cmp Toy.render
      Toy.render Toy.opts_of Toy.type_ok /\
    REPLACES_law bytes bytes Toy.find Toy.rewrite /\
    REWRITE_FRAME_law bytes bytes Toy.rewrite unit Toy.others /\
    RENDER_PARSE_law bytes Toy.parse_file Toy.render /\
    sync_args_ok Toy.args Toy.truth /\
    Toy.run Toy.fs0 NoFaults =
    ([(L "g.py", L "truth"); (L "f.py", L "truth"); (L "t.py", L "truth")],
     Ok [(L "t.py", false); (L "f.py", true); (L "g.py", true)],
     [L "modified" ++ [tabch] ++ L "f.py"]).
Proof. exact laws_satisfiable. Qed.
Print Assumptions C09_laws_satisfiable.
