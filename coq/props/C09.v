(* C09: agreement after a sync.  After a successful fault-free run every target is found at its
   location and equals the re-emission of the truth (from the laws FIX and REPLACES; from FIX alone the
   weaker settled state).  Statements only; the lemmas live in proofs/SyncFacts.v. *)
From Coq Require Import List Ascii Bool Arith Relations.
From Coq Require String.
Import String.StringSyntax.
From DT Require Import PyAst Locate C15Spec LocateFacts RewriteFacts C15Facts SyncLocate.
From DT Require Import PyStr Sexp PyVal PureUtils FS Sync Cli PyStrFacts FSFacts SyncFacts CliFacts.
Import ListNotations.

(* from FIX and REPLACES: every target stable, the truth still converting to the same ir *)
Theorem C09_sync_establishes_agreement :
    forall (node tree irT opts : Type) (emit_k : kind -> irT -> opts -> outcome node)
      (parse_file : path -> bytes -> outcome tree) (find : list str -> tree -> option node)
      (rewrite : list str -> node -> tree -> tree * bool) (cmp : node -> node -> bool)
      (render_node : node -> outcome bytes) (render_tree : tree -> outcome bytes)
      (opts_of : option node -> list str -> kind -> opts) (type_ok : kind -> node -> bool)
      (parse_truth : kind -> option node -> list str -> outcome irT),
    FIX_law node tree irT opts emit_k parse_file find rewrite cmp render_node render_tree opts_of
      type_ok ->
    REPLACES_law node tree find rewrite ->
    forall (fs : fsys) (a : sync_args) (truth : path) (fs1 : fsys) (eff : list (path * bool))
      (pr : list str),
    sync_args_ok a truth ->
    ground_truth emit_k parse_file find rewrite cmp render_node render_tree opts_of type_ok
      parse_truth fs a truth NoFaults = (fs1, Ok eff, pr) ->
    synced node tree irT parse_file find parse_truth
      (stable node tree irT opts emit_k parse_file find cmp opts_of type_ok) fs1 a truth.
Proof. exact sync_establishes_agreement. Qed.
Print Assumptions C09_sync_establishes_agreement.

(* from FIX alone: every target stable or declined by the rewriter *)
Theorem C09_sync_establishes_settled :
    forall (node tree irT opts : Type) (emit_k : kind -> irT -> opts -> outcome node)
      (parse_file : path -> bytes -> outcome tree) (find : list str -> tree -> option node)
      (rewrite : list str -> node -> tree -> tree * bool) (cmp : node -> node -> bool)
      (render_node : node -> outcome bytes) (render_tree : tree -> outcome bytes)
      (opts_of : option node -> list str -> kind -> opts) (type_ok : kind -> node -> bool)
      (parse_truth : kind -> option node -> list str -> outcome irT),
    FIX_law node tree irT opts emit_k parse_file find rewrite cmp render_node render_tree opts_of
      type_ok ->
    forall (fs : fsys) (a : sync_args) (truth : path) (fs1 : fsys) (eff : list (path * bool))
      (pr : list str),
    sync_args_ok a truth ->
    ground_truth emit_k parse_file find rewrite cmp render_node render_tree opts_of type_ok
      parse_truth fs a truth NoFaults = (fs1, Ok eff, pr) ->
    synced node tree irT parse_file find parse_truth
      (settled node tree irT opts emit_k parse_file find rewrite cmp opts_of type_ok) fs1 a truth.
Proof. exact sync_establishes_settled. Qed.
Print Assumptions C09_sync_establishes_settled.

(* a stable target is left alone: no write, flag false, nothing printed, under every fault *)
Theorem C09_stable_conform_noop :
    forall (node tree irT opts : Type) (emit_k : kind -> irT -> opts -> outcome node)
      (parse_file : path -> bytes -> outcome tree) (find : list str -> tree -> option node)
      (rewrite : list str -> node -> tree -> tree * bool) (cmp : node -> node -> bool)
      (render_node : node -> outcome bytes) (render_tree : tree -> outcome bytes)
      (opts_of : option node -> list str -> kind -> opts) (type_ok : kind -> node -> bool)
      (fs : fsys) (file : path) (search : list str) (k : kind) (ir : irT) 
      (f : fault),
    stable node tree irT opts emit_k parse_file find cmp opts_of type_ok fs file search k ir ->
    conform emit_k parse_file find rewrite cmp render_node render_tree opts_of type_ok fs file search
      k ir f = (fs, Ok false, []).
Proof. exact stable_conform_noop. Qed.
Print Assumptions C09_stable_conform_noop.

(* non-vacuity: all four laws and the command-line premise hold of a toy instance whose run modifies and creates *)
Theorem C09_laws_satisfiable :
    FIX_law bytes bytes bytes unit Toy.emit_k Toy.parse_file Toy.find Toy.rewrite Toy.cmp Toy.render
      Toy.render Toy.opts_of Toy.type_ok /\
    REPLACES_law bytes bytes Toy.find Toy.rewrite /\
    REWRITE_FRAME_law bytes bytes Toy.rewrite unit Toy.others /\
    RENDER_PARSE_law bytes Toy.parse_file Toy.render /\
    sync_args_ok Toy.args Toy.truth /\
    Toy.run Toy.fs0 NoFaults =
    ([(L "g.py", L "truth"); (L "f.py", L "truth"); (L "t.py", L "truth")],
     Ok [(L "t.py", false); (L "f.py", true); (L "g.py", true)],
     [L "modified" ++ [tabch] ++ L "f.py"]).
Proof. exact laws_satisfiable. Qed.
Print Assumptions C09_laws_satisfiable.

(* ---- the tree layer instantiated with the Locate model (proofs/SyncLocate.v, from the C15 theorems) ---- *)
(* Locate layer: inside guard_C15 the node the finder returns is the node resolve names (position and content), or None when there is none *)
Theorem C09_find_is_resolve :
    forall (m : module) (q : list str),
    guard_C15 m q = true -> option_map node_view (loc_find q (annotate m)) = resolve q m.
Proof. exact loc_find_resolve. Qed.
Print Assumptions C09_find_is_resolve.

(* conform over the Locate layer, inside guard_C15: a modification appends because resolve finds nothing, or rewrites at the node resolve names *)
Theorem C09_sync_works_on_resolved_node :
    forall (irT opts : Type) (emit_k : kind -> irT -> opts -> outcome anode)
      (parse_file : path -> bytes -> outcome amodule) (cmp : anode -> anode -> bool)
      (render_node : anode -> outcome bytes) (render_tree : amodule -> outcome bytes)
      (opts_of : option anode -> list str -> kind -> opts) (type_ok : kind -> anode -> bool)
      (fs : fsys) (file : path) (search : list str) (k : kind) (ir : irT) 
      (f : fault) (fs' : fsys) (pr : list str) (content : bytes) (m : module),
    conform emit_k parse_file loc_find loc_rewrite cmp render_node render_tree opts_of type_ok fs
      file search k ir f = (fs', Ok true, pr) ->
    fs_get file fs = Some content ->
    parse_file file content = Ok (annotate m) ->
    guard_C15 m search = true ->
    resolve search m = None /\
    (exists (n : anode) (src : bytes),
       emit_k k ir (opts_of None search k) = Ok n /\
       render_node n = Ok src /\ fs' = written fs file Ap src) \/
    (exists (o n : anode) (t' : amodule) (src : bytes),
       loc_find search (annotate m) = Some o /\
       resolve search m = Some (node_view o) /\
       emit_k k ir (opts_of (Some o) search k) = Ok n /\
       cmp o n = false /\
       loc_rewrite search n (annotate m) = (t', true) /\
       render_tree t' = Ok src /\ fs' = written fs file Wt src).
Proof. exact sync_works_on_resolved_node. Qed.
Print Assumptions C09_sync_works_on_resolved_node.

(* the node a settled target is compared at is the one resolve names *)
Theorem C09_settled_node_is_resolved :
    forall (irT opts : Type) (emit_k : kind -> irT -> opts -> outcome anode)
      (parse_file : path -> bytes -> outcome amodule) (cmp : anode -> anode -> bool)
      (opts_of : option anode -> list str -> kind -> opts) (type_ok : kind -> anode -> bool)
      (fs : fsys) (file : path) (search : list str) (k : kind) (ir : irT) 
      (m : module) (content : bytes),
    settled anode amodule irT opts emit_k parse_file loc_find loc_rewrite cmp opts_of type_ok fs file
      search k ir ->
    fs_get file fs = Some content ->
    parse_file file content = Ok (annotate m) ->
    guard_C15 m search = true ->
    exists o n : anode,
      resolve search m = Some (node_view o) /\
      emit_k k ir (opts_of (Some o) search k) = Ok n /\
      (cmp o n = true \/ snd (loc_rewrite search n (annotate m)) = false).
Proof. exact settled_node_is_resolved. Qed.
Print Assumptions C09_settled_node_is_resolved.

(* when REPLACES holds of the Locate rewriter: inside both guards what the finder found is replaced, at its position *)
Theorem C09_replaces_resolved_nodes :
    forall (m : module) (q : list str) (n o : anode) (m' : amodule) (st : rw_state),
    guard_C15 m q = true ->
    rw_guard_C15 m q = true ->
    loc_find q (annotate m) = Some o ->
    rewrite_visit q n (annotate m) = Ok (NMod m', st) ->
    q <> [] ->
    loc_rewrite q n (annotate m) = (m', true) /\
    replaced_first q (rw_node st) (fst (node_view o)) (annotate m) m'.
Proof. exact replaces_resolved_nodes. Qed.
Print Assumptions C09_replaces_resolved_nodes.

(* the ClassDef case *)
Theorem C09_replaces_class_nodes :
    forall (m : module) (q : list str) (n : anode) (i : Locate.path) (l : option loc) 
      (name : str) (bs : list expr) (body : list astmt) (d : list expr) (m' : amodule)
      (st : rw_state),
    guard_C15 m q = true ->
    rw_guard_C15 m q = true ->
    loc_find q (annotate m) = Some (NStmt (AClass i l name bs body d)) ->
    rewrite_visit q n (annotate m) = Ok (NMod m', st) ->
    q <> [] ->
    loc_rewrite q n (annotate m) = (m', true) /\ replaced_first q (rw_node st) i (annotate m) m'.
Proof. exact replaces_class_nodes. Qed.
Print Assumptions C09_replaces_class_nodes.

(* finding found-definition-not-replaced: a FunctionDef target that no tested node carries is never replaced, whatever the replacement node *)
Theorem C09_function_nodes_never_replaced :
    forall (m : module) (q : list str) (n : anode),
    rw_finding_class_C15 m q = Some KR_function_target ->
    (exists
       (p : Locate.path) (name : str) (args : arguments) (body : list stmt) 
     (d : list expr) (r : option expr), resolve q m = Some (p, PStmt (SFunc name args body d r))) /\
    snd (loc_rewrite q n (annotate m)) = false.
Proof. exact function_nodes_never_replaced. Qed.
Print Assumptions C09_function_nodes_never_replaced.

(* witness: def helper is found inside guard_C15 and never replaced *)
Theorem C09_helper_found_not_replaced :
    (exists o : anode,
       loc_find [L "helper"] (annotate [w_helper; w_C]) = Some o /\ fst (node_view o) = [0]) /\
    guard_C15 [w_helper; w_C] [L "helper"] = true /\
    rw_finding_class_C15 [w_helper; w_C] [L "helper"] = Some KR_function_target /\
    (forall n : anode, snd (loc_rewrite [L "helper"] n (annotate [w_helper; w_C])) = false).
Proof. exact helper_found_not_replaced. Qed.
Print Assumptions C09_helper_found_not_replaced.

(* hence the law REPLACES is false of the Locate layer *)
Theorem C09_REPLACES_refuted :
    ~ REPLACES_law anode amodule loc_find loc_rewrite.
Proof. exact REPLACES_law_refuted. Qed.
Print Assumptions C09_REPLACES_refuted.

(* non-vacuity of the positive half *)
Theorem C09_class_target_replaced :
    let m := [w_C; w_helper] in
    let n := NStmt (AClass [] None (L "C") [] [] []) in
    guard_C15 m [L "C"] = true /\
    rw_guard_C15 m [L "C"] = true /\
    option_map (fun o : anode => fst (node_view o)) (loc_find [L "C"] (annotate m)) = Some [0] /\
    snd (loc_rewrite [L "C"] n (annotate m)) = true /\
    others_ref (annotate m) [L "C"] (fst (loc_rewrite [L "C"] n (annotate m))) =
    [annotate_stmt [] [1] w_helper] /\ rw_guard_C15 m [L "helper"] = false.
Proof. exact class_target_replaced_example. Qed.
Print Assumptions C09_class_target_replaced.
