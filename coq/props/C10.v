(* C10: idempotence, convergence, the truth is never written.  Statements only; the lemmas live in
   proofs/SyncFacts.v. *)
From Coq Require Import List Ascii Bool Arith Relations.
From Coq Require String.
Import String.StringSyntax.
From DT Require Import PyStr Sexp PyVal PureUtils FS Sync Cli PyStrFacts FSFacts SyncFacts CliFacts.
Import ListNotations.

(* a file reported unchanged: the file system is the very same *)
Theorem C10_reported_unchanged_is_unchanged :
    forall (node tree irT opts : Type) (emit_k : kind -> irT -> opts -> outcome node)
      (parse_file : path -> bytes -> outcome tree) (find : list str -> tree -> option node)
      (rewrite : list str -> node -> tree -> tree * bool) (cmp : node -> node -> bool)
      (render_node : node -> outcome bytes) (render_tree : tree -> outcome bytes)
      (opts_of : option node -> list str -> kind -> opts) (type_ok : kind -> node -> bool)
      (fs : fsys) (file : path) (search : list str) (k : kind) (ir : irT) 
      (f : fault) (fs' : fsys) (pr : list str),
    conform emit_k parse_file find rewrite cmp render_node render_tree opts_of type_ok fs file search
      k ir f = (fs', Ok false, pr) -> fs' = fs.
Proof. exact conform_false_unchanged. Qed.
Print Assumptions C10_reported_unchanged_is_unchanged.

(* the truth reads the same afterwards, for every outcome and every fault assignment *)
Theorem C10_truth_untouched :
    forall (node tree irT opts : Type) (emit_k : kind -> irT -> opts -> outcome node)
      (parse_file : path -> bytes -> outcome tree) (find : list str -> tree -> option node)
      (rewrite : list str -> node -> tree -> tree * bool) (cmp : node -> node -> bool)
      (render_node : node -> outcome bytes) (render_tree : tree -> outcome bytes)
      (opts_of : option node -> list str -> kind -> opts) (type_ok : kind -> node -> bool)
      (parse_truth : kind -> option node -> list str -> outcome irT) (fs : fsys) 
      (a : sync_args) (truth : path) (faults : path -> fault) (fs' : fsys)
      (r : outcome (list (path * bool))) (pr : list str),
    ground_truth emit_k parse_file find rewrite cmp render_node render_tree opts_of type_ok
      parse_truth fs a truth faults = (fs', r, pr) ->
    (forall t : path, In t (targets a) -> t <> truth -> truth <> tmp_of t) ->
    fs_get truth fs' = fs_get truth fs.
Proof. exact ground_truth_truth_untouched. Qed.
Print Assumptions C10_truth_untouched.

(* from FIX and REPLACES: the second run changes nothing, flags all false, prints nothing *)
Theorem C10_second_run_noop :
    forall (node tree irT opts : Type) (emit_k : kind -> irT -> opts -> outcome node)
      (parse_file : path -> bytes -> outcome tree) (find : list str -> tree -> option node)
      (rewrite : list str -> node -> tree -> tree * bool) (cmp : node -> node -> bool)
      (render_node : node -> outcome bytes) (render_tree : tree -> outcome bytes)
      (opts_of : option node -> list str -> kind -> opts) (type_ok : kind -> node -> bool)
      (parse_truth : kind -> option node -> list str -> outcome irT),
    FIX_law node tree irT opts emit_k parse_file find rewrite cmp render_node render_tree opts_of
      type_ok ->
    REPLACES_law node tree find rewrite ->
    forall (fs : fsys) (a : sync_args) (truth : path) (fs1 : fsys) (eff : list (path * bool))
      (pr : list str),
    sync_args_ok a truth ->
    ground_truth emit_k parse_file find rewrite cmp render_node render_tree opts_of type_ok
      parse_truth fs a truth NoFaults = (fs1, Ok eff, pr) ->
    forall faults : path -> fault,
    exists eff' : list (path * bool),
      ground_truth emit_k parse_file find rewrite cmp render_node render_tree opts_of type_ok
        parse_truth fs1 a truth faults = (fs1, Ok eff', []) /\ flags_false eff'.
Proof. exact sync_second_run_noop. Qed.
Print Assumptions C10_second_run_noop.

(* from FIX alone: the second run changes nothing and flags are all false *)
Theorem C10_second_run_unchanged :
    forall (node tree irT opts : Type) (emit_k : kind -> irT -> opts -> outcome node)
      (parse_file : path -> bytes -> outcome tree) (find : list str -> tree -> option node)
      (rewrite : list str -> node -> tree -> tree * bool) (cmp : node -> node -> bool)
      (render_node : node -> outcome bytes) (render_tree : tree -> outcome bytes)
      (opts_of : option node -> list str -> kind -> opts) (type_ok : kind -> node -> bool)
      (parse_truth : kind -> option node -> list str -> outcome irT),
    FIX_law node tree irT opts emit_k parse_file find rewrite cmp render_node render_tree opts_of
      type_ok ->
    forall (fs : fsys) (a : sync_args) (truth : path) (fs1 : fsys) (eff : list (path * bool))
      (pr : list str),
    sync_args_ok a truth ->
    ground_truth emit_k parse_file find rewrite cmp render_node render_tree opts_of type_ok
      parse_truth fs a truth NoFaults = (fs1, Ok eff, pr) ->
    forall faults : path -> fault,
    exists (eff' : list (path * bool)) (pr' : list str),
      ground_truth emit_k parse_file find rewrite cmp render_node render_tree opts_of type_ok
        parse_truth fs1 a truth faults = (fs1, Ok eff', pr') /\ flags_false eff'.
Proof. exact sync_second_run_unchanged. Qed.
Print Assumptions C10_second_run_unchanged.

(* from FIX: n further runs, under any faults, leave the file system of the first run *)
Theorem C10_converges :
    forall (node tree irT opts : Type) (emit_k : kind -> irT -> opts -> outcome node)
      (parse_file : path -> bytes -> outcome tree) (find : list str -> tree -> option node)
      (rewrite : list str -> node -> tree -> tree * bool) (cmp : node -> node -> bool)
      (render_node : node -> outcome bytes) (render_tree : tree -> outcome bytes)
      (opts_of : option node -> list str -> kind -> opts) (type_ok : kind -> node -> bool)
      (parse_truth : kind -> option node -> list str -> outcome irT),
    FIX_law node tree irT opts emit_k parse_file find rewrite cmp render_node render_tree opts_of
      type_ok ->
    forall (fs : fsys) (a : sync_args) (truth : path) (fs1 : fsys) (eff : list (path * bool))
      (pr : list str),
    sync_args_ok a truth ->
    ground_truth emit_k parse_file find rewrite cmp render_node render_tree opts_of type_ok
      parse_truth fs a truth NoFaults = (fs1, Ok eff, pr) ->
    forall (faults : path -> fault) (n : nat),
    sync_runs node tree irT opts emit_k parse_file find rewrite cmp render_node render_tree opts_of
      type_ok parse_truth a truth faults n fs1 = Some fs1.
Proof. exact sync_converges. Qed.
Print Assumptions C10_converges.

(* the idempotence theorem applied to the toy instance *)
Theorem C10_toy_second_run_noop :
    forall faults : path -> fault,
    exists eff' : list (path * bool),
      Toy.run [(L "g.py", L "truth"); (L "f.py", L "truth"); (L "t.py", L "truth")] faults =
      ([(L "g.py", L "truth"); (L "f.py", L "truth"); (L "t.py", L "truth")], Ok eff', []) /\
      flags_false eff'.
Proof. exact toy_second_run_noop. Qed.
Print Assumptions C10_toy_second_run_noop.
