(* C18: word-wrap and line length.  Statements only; the lemmas live in proofs/FillFacts.v and
   proofs/C18Facts.v. *)
From Coq Require Import List.
From Coq Require String.
Import String.StringSyntax.
From DT Require Import PyStr PyVal PureUtils Defaults IR Fill DocEmit C18Spec FillFacts DocEmitFacts C18Facts.
Import ListNotations.

(* pure_utils.fill (textwrap.fill, break_long_words=False, break_on_hyphens=False) on its fragment (no tab),
   for every width and text of any length: (a) every line fits or is a single word longer than the width,
   (b) the words are those of the input in order, (c) no line ends with a blank and none but the first
   starts with one *)
Theorem C18_fill : forall w s r, fill w s = Ok r -> C18_fill_at w s r.
Proof. exact C18_fill_lemma. Qed.
Print Assumptions C18_fill.

Theorem C18_fill_width : forall w s r, fill w s = Ok r -> lines_le_or_word w r.
Proof. exact fill_width. Qed.
Print Assumptions C18_fill_width.

(* when no word of the input is longer than the width, every line fits *)
Theorem C18_fill_width_strict : forall w s r, fill w s = Ok r ->
    Forall (fun u => List.length u <= w) (words s) -> lines_le w r.
Proof. exact fill_width_strict. Qed.
Print Assumptions C18_fill_width_strict.

Theorem C18_fill_words : forall w s r, fill w s = Ok r -> words r = words s.
Proof. exact fill_words. Qed.
Print Assumptions C18_fill_words.

Theorem C18_fill_edges : forall w s r, fill w s = Ok r -> clean_edges r.
Proof. exact fill_edges. Qed.
Print Assumptions C18_fill_edges.

(* guard form: the boolean guard (positive width, no tab) is exactly the domain on which the model of fill
   answers, and there the property of fill holds *)
Theorem C18_fill_partial : forall w s, fill_guard w s = true -> exists r, fill w s = Ok r /\ C18_fill_at w s r.
Proof. exact C18_fill_partial_lemma. Qed.
Print Assumptions C18_fill_partial.

(* class-free corollary: any words (hyphens, punctuation, any length) separated by single blanks are inside
   the guard; the wrapped text consists of exactly these words; every line fits when every word does *)
Theorem C18_fill_plain_words : forall w ws, 0 < w -> forallb plain_word ws = true ->
    exists r, fill w (join [sp] ws) = Ok r /\ lines_le_or_word w r /\ words r = ws /\ clean_edges r
              /\ (Forall (fun u => List.length u <= w) ws -> lines_le w r).
Proof. exact C18_fill_plain_words_lemma. Qed.
Print Assumptions C18_fill_plain_words.

Theorem C18_fill_guard_exact : forall w s, fill_guard w s = true <-> exists r, fill w s = Ok r.
Proof. exact fill_guard_exact. Qed.
Print Assumptions C18_fill_guard_exact.

(* text that fits on one line comes back unchanged *)
Theorem C18_fill_fits : forall w s, 0 < w -> one_line_clean s = true -> List.length s <= w -> fill w s = Ok s.
Proof. exact fill_short_id. Qed.
Print Assumptions C18_fill_fits.

(* ReST prose: wrapped, continuation lines indented, re-joined as the parser does: the same words *)
Theorem C18_rest_prose : forall w line, no_exotic_space line = true -> C18_rest_prose_at w line.
Proof. exact C18_rest_prose_lemma. Qed.
Print Assumptions C18_rest_prose.

(* a whole ReST entry (its :param / :type or :returns: / :rtype: lines): wrapping changes only whitespace,
   and the caller's param is not touched, with word_wrap on or off *)
Theorem C18_rest_entry : forall w name p ed et edd ls p' tw p1,
    rest_raw_lines name p ed et edd = Ok (ls, p') ->
    Forall (fun l => no_exotic_space l = true) ls ->
    emit_param_str w name p Rest ed et true edd = Ok (tw, p1) ->
    p1 = p
    /\ words tw = concat (map words ls)
    /\ words (rejoin tw) = concat (map words ls)
    /\ exists tu, emit_param_str w name p Rest ed et false edd = Ok (tu, p)
                  /\ words tu = concat (map words ls).
Proof. exact C18_rest_entry_lemma. Qed.
Print Assumptions C18_rest_entry.

(* the whole docstring, three styles: inside the fragment of fill, emit.docstring with word_wrap on succeeds
   only if it does with word_wrap off, neither writes into the caller's IR, and the two texts have the same
   words in the same order - wrapping changes layout only; no word is lost, merged, split or moved *)
Theorem C18_docstring_words : forall w st edd i tw i1,
    ir_plain st edd i = true ->
    emit_docstring w st true edd i = Ok (tw, i1) ->
    i1 = i /\ exists tu, emit_docstring w st false edd i = Ok (tu, i) /\ words tw = words tu.
Proof. exact C18_docstring_words_pure_lemma. Qed.
Print Assumptions C18_docstring_words.

(* the three docstring-level functions leave their argument as it was (they work on copies of the param dicts) *)
Theorem C18_emit_param_str_pure : forall w name p st ed et ww edd t p',
    emit_param_str w name p st ed et ww edd = Ok (t, p') -> p' = p.
Proof. exact emit_param_str_pure. Qed.
Print Assumptions C18_emit_param_str_pure.

Theorem C18_emit_docstring_pure : forall w st ww edd i t i',
    emit_docstring w st ww edd i = Ok (t, i') -> i' = i.
Proof. exact emit_docstring_pure. Qed.
Print Assumptions C18_emit_docstring_pure.

(* to_docstring works on copies of the param dicts: the caller's IR is left as it was *)
Theorem C18_to_docstring_ir : forall w i edd st il et est ww t i',
    to_docstring w i edd st il et est ww = Ok (t, i') -> i' = i.
Proof. exact to_docstring_ir. Qed.
Print Assumptions C18_to_docstring_ir.

(* where nothing needs wrapping the wrapped and the unwrapped docstring are the same bytes, for the three styles and every width: every parser reads the same interface *)
Theorem C18_nowrap : forall w st edd i,
    guard_nowrap w st edd i = true ->
    emit_docstring w st true edd i = emit_docstring w st false edd i.
Proof. exact C18_nowrap_lemma. Qed.
Print Assumptions C18_nowrap.

(* ReST :type lines are read back verbatim: intact when the line fits ... *)
Theorem C18_type_line_partial : forall w name typ,
    0 < w -> nowrap_line w (rest_typ_line name typ) = true -> C18_type_line_at w name typ.
Proof. exact C18_type_line_partial_lemma. Qed.
Print Assumptions C18_type_line_partial.

(* ... and not in general: the full-strength statement is false of the faithful model *)
Theorem C18_type_line_refuted : ~ C18_type_line_statement.
Proof. exact C18_type_line_refuted_lemma. Qed.
Print Assumptions C18_type_line_refuted.

Example C18_nonvacuous :
  guard_nowrap 79 Rest true sample_ir = true
  /\ guard_nowrap 79 Numpydoc true sample_ir = true
  /\ guard_C18 79 (E_docstring Rest) sample_ir = true
  /\ guard_C18 20 (E_docstring Rest) sample_ir = false
  /\ (exists r, fill 20 (L ":param dataset_name: name of dataset. Defaults to 5") = Ok r
                /\ r <> L ":param dataset_name: name of dataset. Defaults to 5").
Proof. exact C18_nonvacuous_lemma. Qed.
Print Assumptions C18_nonvacuous.
