(* C03 - function / method round trip:
     emit.function -> ast.unparse -> ast.parse -> parse.function.
   Statements closed by `exact` only; definitions in model/C03Spec.v, lemmas in proofs/C03Compose.v.
   Models composed: EmitAst.emit_function, C03Spec.reparse_stmt (the unparse / re-parse step), ParseSig.parse_function
   (+ Merge.ir_merge).  The docstring layer is decoupled exactly as those models are: every theorem quantifies over the
   text [text] that to_docstring returned and over the docstring-derived IR [d]; what the ReST round trip of that text
   must provide is the named hypothesis doc_agrees (evaluated by the oracle on the real docstring-derived IR of every
   in-guard point).  All statements are unbounded in the number of parameters. *)
From Coq Require Import List Bool.
From Coq Require String.
Import String.StringSyntax.
From DT Require Import PyStr PyVal PureUtils Defaults PyAst IR Merge ParseSig C12Spec C07Spec.
From DT Require EmitAst C02Spec C07Facts.
From DT Require Import C03Spec C03Compose.
Import ListNotations.

(* the full statement is FALSE of the faithful model: a parameter without default comes back with default None
   (emit.function gives every parameter a default node) *)
Theorem C03_refuted : ~ C03_statement.
Proof. exact C03_refuted_lemma. Qed.
Print Assumptions C03_refuted.

Theorem C03_refutation_witness_class : finding_class_C03 w3_opts w3_ir = Some K3_no_default_becomes_none.
Proof. exact C03_witness_class. Qed.
Print Assumptions C03_refutation_witness_class.

(* every finding class is inhabited inside the domain (the same descriptions fail on the real code) *)
Theorem C03_class_witnesses :
  forallb (fun w => match w with
                    | (o, i, k) => C03_domain o i
                                   && match finding_class_C03 o i with Some k' => class_eqb k k' | None => false end
                    end) class_witnesses = true.
Proof. exact C03_class_witnesses_lemma. Qed.
Print Assumptions C03_class_witnesses.

(* inside the guard (complement = the named finding classes of C03Spec), for every docstring text and every
   docstring-derived IR that documents the described entries: nothing raises, and names, order, types, prose, defaults
   (value and Python type), the ** parameter, the return entry with its returned default expression and the kind
   come back; static / self / cls x inline or docstring types x positional or keyword-only x every indent / tab /
   wrap option *)
Theorem C03_partial : forall o i text d,
  guard_C03 o i = true -> doc_agrees o i d = true -> C03_at o i text d.
Proof. exact C03_partial_lemma. Qed.
Print Assumptions C03_partial.

Theorem C03_nonvacuous :
  guard_C03 nv3_opts nv3_ir = true /\ doc_agrees nv3_opts nv3_ir nv3_doc = true
  /\ List.length (ir_params nv3_ir) = 7 /\ C03_at_b nv3_opts nv3_ir (L "text") nv3_doc = true.
Proof. exact C03_nonvacuous_lemma. Qed.
Print Assumptions C03_nonvacuous.

(* ---- signature-level codec, OUTSIDE the guard: every description the emitter accepts ---- *)

(* kind: static / self / cls is read back by every round trip that succeeds *)
Theorem C03_kind : forall o i tds d r,
  kind_in_domain (fo_kind o) = true -> forallb not_self_cls (nk_names i) = true ->
  round_trip_fn o i tds d = Ok r -> kind_preserved (fo_kind o) r = true.
Proof. exact C03_kind_lemma. Qed.
Print Assumptions C03_kind.

(* names and order, from C06 (emitted argument names) and C07 (parse.function's order): the positional / keyword-only
   parameters in the IR's order, then the ** parameter exactly when the docstring documents it *)
Theorem C03_names_order : forall o i tds d s s' r,
  kind_in_domain (fo_kind o) = true -> forallb not_self_cls (nk_names i) = true ->
  emit_fn o i tds = Ok s -> reparse_stmt s = Ok s' -> C07_domain (Some d) s' = true -> parse_fn (Some d) s' = Ok r ->
  od_keys (ir_params r)
  = nk_names i ++ (match kwarg_of i with
                   | Some k => if mem_str (a_name k) (od_keys (ir_params d)) then [a_name k] else []
                   | None => []
                   end).
Proof. exact C03_names_order_lemma. Qed.
Print Assumptions C03_names_order.

(* positional vs keyword-only: in both layouts the k-th parameter is paired with the k-th default node *)
Theorem C03_default_alignment : forall kw k afp dfp kwarg,
  kind_in_domain k = true -> forallb not_self_cls (map a_name afp) = true -> List.length dfp = List.length afp ->
  sig_pairs (layout kw k afp dfp kwarg) (pos_args (layout kw k afp dfp kwarg))
  = map2 func_arg2param afp (map Some dfp).
Proof. exact C03_default_alignment_lemma. Qed.
Print Assumptions C03_default_alignment.

(* the unparse / re-parse step keeps layout, names, lengths *)
Theorem C03_reparse_layout : forall kw k afp dfp kwarg a',
  reparse_arguments (layout kw k afp dfp kwarg) = Ok a' ->
  exists afp' dfp' kwarg', a' = layout kw k afp' dfp' kwarg'
    /\ map a_name afp' = map a_name afp /\ List.length dfp' = List.length dfp
    /\ option_map a_name kwarg' = option_map a_name kwarg.
Proof. exact reparse_layout. Qed.
Print Assumptions C03_reparse_layout.

(* ---- per-parameter codec ---- *)

(* inline annotation: for a canonical type string the annotation is a fixed point of unparse / re-parse and prints
   back as the very string *)
Theorem C03_annotation_codec : forall o n g t dflt,
  fo_inline o = true -> g_typ g = Has t -> typ_inline_ok t = true ->
  exists e, EmitAst.arg_of_param (fo_pt o) true (n, g) = Ok (mkArg n (Some e))
            /\ reparse_expr e = Ok e
            /\ g_typ (snd (func_arg2param (mkArg n (Some e)) dflt)) = Has t.
Proof. exact C03_annotation_codec_lemma. Qed.
Print Assumptions C03_annotation_codec.

(* defaults per value class (None / bool / int >= 0 / int < 0 / float / str): value and Python type come back *)
Theorem C03_default_codec : forall q g v nq,
  g_default g = Some (DV v) -> value_ok v = true -> str_ok v = true ->
  needs_quoting (fget (g_typ q)) = Ok nq ->
  (forall t, g_typ q = Has t -> code_val v = true -> contains [ch 91] t = true) ->
  (fld_is_none (g_typ q) = true -> in_none_types v || code_val v = true) ->
  infer_default q (DE (rdflt g)) false = Ok (mkG (g_doc q) (rtyp (g_typ q) v) (Some (back v)))
  /\ C02Spec.same_default (DV v) (back v) = true.
Proof. exact C03_default_codec_lemma. Qed.
Print Assumptions C03_default_codec.

(* one positional / keyword-only parameter from the IR through signature and docstring entry back to the IR *)
Theorem C03_param_codec : forall o n g v dpo,
  param_facts o g v -> entry_in_domain g = true -> name_in_domain n = true -> kwargs_name n = false ->
  (if has_prose g then exists dp, dpo = Some dp /\ doc_entry_agrees (negb (fo_inline o)) n g dp = true
   else dpo = None) ->
  exists q rp,
    (match dpo with
     | Some t => merge_param t (C07Facts.sig_gparam (mkArg n (ann_of o g)) (Some (rdflt g))) = Ok q
     | None => q = C07Facts.sig_gparam (mkArg n (ann_of o g)) (Some (rdflt g))
     end)
    /\ snt_param n q false true = Ok rp /\ same_param_fn g rp = true.
Proof. exact param_entry_codec. Qed.
Print Assumptions C03_param_codec.

(* the ** parameter: documented, conventional type and default: kept with its prose *)
Theorem C03_kwargs : forall et kn kg dp,
  kwargs_name kn = true -> kwargs_class kg = None -> doc_entry_agrees et kn kg dp = true ->
  fld_present (g_typ dp) = true
  /\ exists rp, snt_param kn (mkG (g_doc dp) (g_typ dp) (Some (DV (VStr NoneStr)))) false true = Ok rp
                /\ same_param_fn kg rp = true.
Proof. exact kwargs_entry_codec. Qed.
Print Assumptions C03_kwargs.

(* the return entry: `-> annotation`, generated `return <code>`, _interpolate_return, _set_name_and_type *)
Theorem C03_return_codec : forall o i d,
  guard_facts o i -> doc_returns_agree (negb (fo_inline o)) (ir_returns i) (ir_returns d) = true ->
  exists rv rv' ann ann',
    EmitAst.function_return_val (fo_pt o) i = Ok rv
    /\ ret_ann_o o i = Ok ann
    /\ mapM reparse_body_stmt (opt_list rv) = Ok (opt_list rv')
    /\ reparse_opt ann = Ok ann'
    /\ exists rets rets',
         interpolate_return (opt_list rv') ann' (doc_returns_in d) = Ok rets
         /\ finish_returns rets = Ok rets'
         /\ same_returns_fn (ir_returns i) rets' = true.
Proof. exact returns_round_trip. Qed.
Print Assumptions C03_return_codec.

(* ---- class-free corollaries ---- *)

(* every documented, scalar-typed, defaulted description is inside the guard ... *)
Theorem C03_scalar_in_guard : forall o i, scalar_ir o i = true -> guard_C03 o i = true.
Proof. exact C03_scalar_guard. Qed.
Print Assumptions C03_scalar_in_guard.

(* ... hence round-trips: any number of parameters, static / self / cls, inline or docstring types, positional or
   keyword-only *)
Theorem C03_scalar : forall o i text d,
  scalar_ir o i = true -> doc_agrees o i d = true -> C03_at o i text d.
Proof. exact C03_scalar_lemma. Qed.
Print Assumptions C03_scalar.

(* a function that documents only its return value: nothing raises, the entry comes back *)
Theorem C03_return_only : forall o i text d,
  return_only_ir o i = true -> doc_agrees o i d = true -> C03_at o i text d.
Proof. exact C03_return_only_lemma. Qed.
Print Assumptions C03_return_only.
